#!/bin/bash
# MANIFEST.setup_cmd: builds both worker binaries once from files on disk (warms the go build cache).
set -u
cd "$(dirname "$0")"
VERIF=$(pwd)
export GOFLAGS=-mod=mod GOPROXY=off GOSUMDB=off GOTOOLCHAIN=local
mkdir -p .bin evidence replay
cd harness || exit 1
cat /repo/go.sum go.sum.extra | sort -u > go.sum
go build -tags verif -o "$VERIF/.bin/vcheck" ./cmd/vcheck || exit 1
go build -tags verif -race -o "$VERIF/.bin/vcheck-race" ./cmd/vcheck || exit 1
echo setup ok
