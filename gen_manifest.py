#!/usr/bin/env python3
"""Regenerates /verif/MANIFEST.json from the table below. A property is claimed as soon as its check
file exists in harness/checks; everything else is listed under not_applicable with the reason."""
import json, os, subprocess

V = os.path.dirname(os.path.abspath(__file__))

HOOK_COMMITS = subprocess.run(["git", "-C", "/repo", "log", "--format=%H %s", "--grep=^verif:"], capture_output=True, text=True).stdout.strip().split("\n")

# id -> (technique, level text, level note, design ref)
T = {
 "C01": ("runtime monitor on both boundaries: every inbound datagram of an enumerated classifier x function x ack x destination matrix is injected at HandleSpineMesssage and the complete outbound trace of every connection is compared with a response table written from the statement",
         "held on every cell of the completely enumerated request matrix (classifier x function x ack requested/omitted/explicitly false x destination kind NodeManagement/server/client/special data feature/unknown in five address forms/foreign device x omitted device part, one cmd or the same cmd twice, plus writes the data layer refuses) for every feature type, cells shuffled per case, in two prior states, from three peers and from two source entities, with every datagram that does NOT reference the request predicted as well; the function rows per feature type are pinned; exploration because prior states and payloads are sampled; D62 (destination naming another device) is a known finding; session 2: cmd envelopes (function element absent/name/empty x four filter forms), part odd-filter (filter elements without cmdControl), part local-tree (destinations that become unknown through RemoveEntity, sequentially, inside the destination lookup and concurrently), optional header elements (addressOriginator, timestamp) on five of eight requests",
         "trusts encoding/json of the repository's own model types as the wire format; message handling is synchronous without approval callbacks (C12 covers those)", "4/C01"),
 "C02": ("reference-model monitor: a reflective fold of the restricted-exchange rules, written from the statement, is compared after every update (API, reply, notify) with DataCopy for every registered list function; uniqueness, ordering and idempotence asserted per step",
         "held on generated update histories over all 83 list functions (identifier fields, feature types and selector coverage pinned in the check) and all filter shapes incl. multi-match delete selectors, 1-3 named elements, sub-element filters and both filter orders, three delivery paths, a sentinel function per store, non-persisting probes that are read back, and on concurrent commuting updates (part commute, plain and race build); exploration; session 2: conjunctive selectors of 2-5 elements in four kinds through all delivery paths, full updates listing items without (or with an incomplete) identifier, selector updates whose data names identifier elements",
         "generator respects the well-formedness the statement presupposes (unique identifiers per update, selectors on key fields)", "4/C02"),
 "C03": ("runtime monitor with a shadow binding registry: data, taps of all peers and events are bracketed around every injected write in histories of bind/unbind/disconnect/entity removal",
         "held on generated interleaved histories from three peers incl. function-element/payload mismatches, re-announcements without reconnect, forced teardowns after them and writes after disconnect-and-reconnect; exploration; session 2: 'announced as writable' read from a discovery reply taken before every holder write, functions registered RW/write-only/RO/neither/not at all, AddFunctionType in mid-history, device-less peers, drawn local entity layouts (nested, sibling, cousin addresses with equal feature ids)",
         "shadow registry is the reference model of C09", "4/C03"),
 "C04": ("runtime monitor + metamorphic pairs: real write datagrams from a bound peer against lists with mixed changeability flags; expectation computed from the statement (addressed set, all-or-nothing), each case run twice differing only in an unaddressed element's flag",
         "held on generated writes of 19 shapes (incl. empty selectors and two commands per datagram) on the three flag-carrying list types (flag fields named by the check) and two controls, on lists of 1-4 elements stored sorted or unsorted, a third of the histories blind (no read between writes), all snapshots deep-copied before delivery; except the listed known-finding classes; exploration; session 2: delete filters naming one, two or sub-elements and six further delete+partial combinations, bare delete filters and selector writes carrying another element's identifiers (histories continue over lists with duplicate identifiers)",
         "known findings D3/D6 are keyed by shape/deviation signatures that now mean 'changeable, addressed element' only (protected and unaddressed elements have their own signatures); D60 (second command of a datagram ignored but acknowledged) is a known finding; narrower in-class assertions stay active", "4/C04"),
 "C05": ("structure-aware mutational fuzzing at the inbound boundary with crash isolation (worker journal), a progress watchdog with goroutine-dump classification, and a health probe (valid discovery read) on every connection",
         "held on all mutated datagrams delivered in six connection states (incl. a mute connection, a stalled writer, reconnects in the middle and fresh peers afterwards), with an application goroutine calling the public API concurrently and from inside removal cascades, the health reply compared by payload and addressing with the one captured at setup; exploration",
         "a hang is declared only on a quiet period plus goroutines parked in spine-go frames; anything else the watchdog catches is inconclusive; D28 is recognised by state AND by decoding the message that caused it", "4/C05"),
 "C06": ("reference-model monitor: a reference remote tree per peer is updated in message order and compared with DeviceRemote/EntityRemote/FeatureRemote accessors, event multiset and registry cascade after every discovery message",
         "held on generated histories of reply/partial/full announcements from three peers incl. the same address twice in one notification, notifications before the first reply, functions from outside the function table, partial-operation flags, and tree state and object identity asserted at publication time by a core-level handler; D61 (a full notification does not refresh a known entity) is a known finding; exploration; session 2: every optional element of the discovery message varies (lastStateChange absent/added/modified on listed entities, features and the device, labels, deviceInformation omitted, function element on full notifications), repeated announcements of known entities without entityType",
         "only device-consistent announcements; [0]/NodeManagement never announced away (that is C05/D28)", "4/C06"),
 "C07": ("runtime monitor of the discovery reply against the tree built through the API, per-subscriber notification check on AddEntity/RemoveEntity, and hook-forced interleavings of concurrent GetOrAddFeature (rendezvous between lookup miss and creation), also under the race detector",
         "held on generated configurations/histories incl. twin re-additions of the same address, every address ever announced resolved with and without device part through the API and through messages, and on forced two-goroutine windows; exploration",
         "entity description and partial sub-flags are not compared (statement silent)", "4/C07"),
 "C08": ("reference registry + exactly-once fan-out monitor on all taps (unique values identify the cause of each notify); concurrent histories checked for linearizability with porcupine against a set+publish model",
         "held on sequential histories (incl. requested type Generic, NodeManagement clients, fresh peers that leave before discovery, re-announcements), part early (registrations before the peer's own discovery reply), part conc-rmw (acknowledged calls of different connections on different server features over a large registry) and on recorded concurrent histories (porcupine Ok); exploration; session 2: parts dup/dup-race (overlapping identical requests for one pair, wire and manager API) and the announcement class of the changed function",
         "porcupine timeout => inconclusive", "4/C08"),
 "C09": ("reference registry monitor; hook-forced concurrent bind duels (rendezvous between single-binding check and insertion); recorded histories checked with porcupine against a per-server-feature register model; race detector build",
         "held on sequential histories, forced duels, part early, part conc-rmw (per-connection actors toggling their own server features over a registry pre-filled with 72-252 entries, state compared at the quiescent point after every round) and recorded concurrent histories; exploration; session 2: parts conc-window (complete requests of other connections inside the window of one or two parked binds, porcupine with the parked interval), replaced connections (SetupRemoteDevice for a registered SKI) in sequential histories and before duels",
         "porcupine timeout => inconclusive", "4/C09"),
 "C10": ("runtime monitor of registries, client-side bookkeeping, pending approvals (hook accessor), resolvability, events and the removed connection's tap around random teardowns, a third of them concurrent with other peers' traffic",
         "held on generated teardown histories with three identically numbered peers, teardowns aimed at timer expiry, other peers' acknowledged registry calls placed inside the teardown window through a core-level handler, reconnects with the same SKI and message counter, local entities removed and client features un-announced before the teardown, registrations made before discovery completed and connections that never complete it; exploration; session 2: parts co-pending (writes of several senders pending on one feature around a teardown), part late-verdict (verdict for a write of a removed connection after the SKI reconnected with the same counter), part leave-join (shared with C15)",
         "absence of further datagrams is observed over 5x the configured approval timeout after quiescence", "4/C10"),
 "C11": ("retained-reference monitor: every DataCopy result and event payload is fingerprinted when obtained and re-fingerprinted after every later update; store fingerprint across non-persisting and failing updates; concurrent readers under the race detector",
         "held on generated update histories over every list function (domain pinned) and the use-case mutators, a third of them blind, failing updates through all four delivery paths, teardowns (re-announce, entity removal, disconnect) after which every retained reference is re-checked, fingerprints taken inside the event handler and callback, plus concurrent readers and DataCopy callers under the race detector; exploration; session 2: non-update operations and device-tree changes between snapshot and re-check, structured use-case data naming entities that come and go, ten unusual filter pairs, time-value forms (relative/absolute/missing start and end) and the application encoding retained values",
         "fingerprint = canonical rendering with nil == empty list", "4/C11"),
 "C12": ("runtime monitor of approval callbacks, result datagrams and data around pending writes with logical time: long timeouts for answered plans, short for silent ones, hook gate to place the timeout inside the verdict window; plain and race builds",
         "held on generated and (thorough) enumerated verdict vectors and delivery orders, reconnect and removal histories, and parts blocking/blocking-race with callbacks that do not return (mutual wait, blocked+deny, blocked+timeout, verdict at the end); exploration; session 2: part late-verdict (shared with C10), parts repeat (writes that change nothing) and local-removal (RemoveEntity of the local entity under pending writes), approvals parked across a removal",
         "wall clock is used only to wait for the stack's own timers; expiry of a wait is inconclusive", "4/C12"),
 "C13": ("runtime monitor of message counters on the tap (uniqueness under concurrency, interval issue order), notify cache lookup, and a reference model of unanswered requests for de-duplication incl. black-box bounded-memory probe; race build",
         "held on concurrent sender workloads, sequential request/response histories incl. multi-cmd request lists, notify-cache lookups under mixed outbound traffic, a nil-writer connection (part mute) and a peer that answers from inside the connection write (part inflight); exploration; session 2: response forms (device parts omitted/unknown, own counter equal to the reference, SHIP entry point, two cmds) and connection states (peer not announced, re-announced under another address)",
         "D19 (LRU promotion on lookup) is a known finding keyed by signature", "4/C13"),
 "C14": ("callback-identity monitor: closures log (callback, reference, feature, data fingerprint); invocation multiset compared with a per-feature reference of pending callbacks after quiescence; racing registrations accept both orders",
         "held on generated registration/arrival histories incl. restricted replies on a populated cache, result shapes with and without description, a bystander peer that disconnects, concurrent registration, and part blocked (callbacks parked on a gate while repeated references, late registrations and other references arrive); exploration, counters obtained from RequestRemoteData to two identically numbering connections, method values and rebuilt closures as duplicates",
         "quiescence by goroutine-count baseline, watchdog => inconclusive", "4/C14"),
 "C15": ("event-log monitor with unique tokens: exactly-once per (event, handler) under interval rules, core-before-application ordering, re-entrant handlers, progress watchdog; race build",
         "held on generated subscribe/unsubscribe/publish histories with several publishers, mutual-wait handlers, and an integrated part where the connection writer parks the stack's own reaction to a discovery reply and the order core handler -> application handler -> return of HandleSpineMesssage is read from the log; exploration; session 2: burst stages with up to 1500 application handler invocations in flight, connections replaced without removal, part leave-join (a connection set up while the last one is being removed, window forced at a hook point), a snapshot stage (unsubscription inside the delivery window), parts cross/cross-race (30 ordered pairs of registry operations and discovery replies on two peers with the first event held in a core handler), the symmetric leave-join window",
         "publishing from inside a core handler is not demanded", "4/C15"),
 "C16": ("runtime monitor of heartbeat notifies on a subscribed tap plus hook records (stream enter/exit, chosen ticker period) and hook-forced Start/Stop windows; step-indexed period oracle; plain and race builds",
         "held on sequential and concurrent Start/Stop/Remove/AddFunctionType histories for nine timeouts (incl. 150 ms, 1.25 s, 2 s, 2.1 s; announced text parsed by the check), a second entity whose heartbeat must stay intact, a late subscriber, data compared inside the writer and at stopped checkpoints, and histories on entity [0] in child processes; exploration; session 2: parts firstuse (first heartbeat calls of a fresh entity from several goroutines, manager reached through the entity at every call), notifications judged in order of completion, late subscribers cloning the observed peer's device address",
         "median-gap cross-check is only a sanity check (inconclusive if it disagrees with the hook record)", "4/C16"),
 "C17": ("Go race detector over a systematic pairwise duel matrix of API/inbound operations (same- and cross-connection variants, hook-forced overlaps) plus a mixed soak; reports reduced to racy-variable signatures; progress watchdog with goroutine dump for deadlocks",
         "no race report and no stall on all pairs of 68 operations x repetitions and the soak, incl. a mute connection, removal of the busy entity, a second bound writer, application-side reads of event and callback payloads, callbacks entered = returned; exploration of schedules, not a proof of absence",
         "race detector only sees executed accesses; schedules are sampled", "4/C17"),
 "C18": ("round-trip monitor through the real encoder/decoder for every function of every feature type x 10 command shapes, static pass over the filter tag tables, and reflective value round trips of every payload/selector/elements type",
         "function table enumerated completely (type names behind tags pinned), shapes incl. typed-nil filter parts and empty stores, part api (RequestRemoteData/SetData/UpdateData in a World, datagram taken from the tap); values sampled; exploration; session 2: commands encoded again after later ones were built (late, batch, sender cache), calls behind a history of ill-typed arguments, parts conc/conc-race (concurrent builders judged by value), part periodgrid (end times on a calendar grid of whole days/hours/minutes/weeks through two hops)",
         "nil == empty list; relative end time compared to the second", "4/C18"),
 "C19": ("conversion monitor over dense and random numeric/temporal domains with exact integer/decimal oracles",
         "held on 2*10^6 decimals (bit-exact), random floats over 28 decades, dense, log-uniform and boundary durations, 53 hand-written and 2500 generated xs:duration spellings per case, instants over years 1-9999 with the text judged by a harness-side reader, relative time periods incl. negative ones and a delayed re-read; exploration; session 2: placed inputs (decimal carry and tail patterns, doubles within 2 ulp of landmarks, about 240 calendar landmarks in nine zones incl. the zero time, equivalent (number, scale) forms)",
         "D27 (durations >= 3277 days) is a known-finding class recognised by its averaging model; D67 (four malformed texts inside that class) is a second known finding", "4/C19"),
 "C20": ("reference-map monitor against HasUseCaseSupport and the decoded nodeManagementUseCaseData reply; concurrent read-modify-write cycles on disjoint entities with hook-forced overlap, union expectation and porcupine register model; race build",
         "held on sequential histories (a third judged sparsely), concurrent runs with entity lifecycle operations and one entity split between two owners, a subscribed peer's last notification, and scenario slices overwritten after every add; exploration, scenario lists of every shape (nil, empty, unordered, repeated) and unusual version spellings",
         "operations on different entities commute, so the expected final registry is the union", "4/C20"),
}

built = sorted(f[:-3].upper() for f in os.listdir(os.path.join(V, "harness/checks")) if __import__("re").fullmatch(r"c\d\d\.go", f))
checks, na = [], []
for pid in sorted(T):
    tech, text, note, ref = T[pid]
    if pid in built:
        checks.append({
            "property_id": pid,
            "quick_cmd": f"./run {pid} quick",
            "thorough_cmd": f"./run {pid} thorough",
            "evidence_file": f"/verif/evidence/{pid}.json",
            "replay_cmd_template": f"./run {pid} --replay {{path}}",
            "engine": "vcheck",
            "level_claimed": {"category": "exploration", "text": text, "design_ref": "DESIGN.md section " + ref},
            "level_note": note,
            "technique": "runtime monitoring: " + tech,
        })
    else:
        na.append({"property_id": pid, "reason": "decidable by runtime monitoring (design in DESIGN.md section " + ref + "), but its check is not built yet; not claimed until it is"})

m = {
 "version": 1,
 "setup_cmd": "./setup.sh",
 "hooks": {
   "guard": "verif",
   "enable": "go build -tags verif (the harness module replaces github.com/enbility/spine-go by /repo, so every build compiles /repo's working tree)",
   "baseline_off_cmd": "cd /repo && GOFLAGS=-mod=mod GOPROXY=off GOSUMDB=off GOTOOLCHAIN=local go test -json -vet=off -count=1 -timeout 25m ./...",
   "source_commits": [c.split(" ")[0] for c in HOOK_COMMITS if c],
   "add_only": True,
 },
 "engines": [{"name": "vcheck", "path": "/verif/harness", "serves_properties": built,
              "kind_free_text": "Go harness: simulated peers around the real spine-go stack (inject at HandleSpineMesssage, observe writer taps, event bus, callbacks), reference-model oracles, hook controller, worker processes with journal/watchdog, Go race detector, porcupine"}],
 "checks": checks,
 "not_applicable": na,
 "notes": "All checks: exit 0 = held on everything explored (known findings printed as KNOWN-FINDING lines from known_findings.txt), exit 1 + VIOLATION line = unknown violation, exit 2 + INCONCLUSIVE line = the monitor decided fewer distinct non-trivial cases than its floor. VERIF_SEED selects the case lists.",
}
json.dump(m, open(os.path.join(V, "MANIFEST.json"), "w"), indent=1)
print("claimed:", built, "not yet:", [x["property_id"] for x in na])
