#!/usr/bin/env python3
# validates MANIFEST.json and evidence/*.json against the schemas in /root/.vp
import json,sys,glob
import jsonschema
ok=True
try:
    m=json.load(open('/verif/MANIFEST.json'))
    jsonschema.validate(m,json.load(open('/root/.vp/MANIFEST.schema.json')))
    print('MANIFEST ok, checks:',len(m['checks']))
except Exception as e:
    ok=False; print('MANIFEST invalid:',str(e)[:300])
es=json.load(open('/root/.vp/EVIDENCE.schema.json'))
for f in sorted(glob.glob('/verif/evidence/*.json')):
    try:
        jsonschema.validate(json.load(open(f)),es); print(f,'ok')
    except Exception as e:
        ok=False; print(f,'INVALID',str(e)[:300])
sys.exit(0 if ok else 1)
