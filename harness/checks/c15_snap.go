package checks

import (
	"fmt"
	"math/rand"
	"runtime"
	"sync"
	"sync/atomic"
	"time"

	"verifharness/rig"
)

// C15, part "bus", snapshot stage (every case, after the epilogue).
//
// "Every published event reaches each handler subscribed AT PUBLICATION TIME exactly once": the set of receivers of an
// event is fixed when it is published, not when a handler's turn comes. The generated histories (un)subscribe mostly
// between publications or concurrently with them, where only "at most once" can be asserted; this stage places an
// unsubscription at a point that is known to lie AFTER the publication and BEFORE the victim's turn:
//
//	all handlers are unsubscribed and subscribed anew in a drawn order (both levels, the dual handler at both), then one
//	event is published during which a drawn ACTOR (a core-level handler, or an application-level one) has a drawn
//	VICTIM (another handler, at the core or at the application level, earlier or later in the list) unsubscribed -
//	  inside:  the actor calls Unsubscribe itself from inside HandleEvent;
//	  outside: another goroutine calls Unsubscribe while the actor stays inside HandleEvent (a core-level actor thereby
//	           keeps the publication from going on) until that call has returned.
//
// The verdict is the ordinary exactly-once pair of judge(): the victim's subscription was complete before Publish was
// called and its unsubscription was called only after a handler had entered HandleEvent for that event, so it was
// subscribed at publication time. Nothing is timed: the wait of the "outside" actor ends when Unsubscribe returned (it
// needs only the bus's list mutex, which no delivery holds); its bound is a watchdog (expiry = inconclusive).
type c15Snap struct {
	actor, alevel  int
	victim, vlevel int
	mode           string // inside | outside
	order          string
	once           sync.Once
	expired        atomic.Bool
	acted          atomic.Bool
}

const c15SnapBound = 30 * time.Second

func (sn *c15Snap) handle(cs *c15Case, h *c15Handler, tok *c15Token, onPublisher bool) string {
	if h.idx != sn.actor || (sn.alevel == c15Core) != onPublisher {
		return ""
	}
	done := ""
	sn.once.Do(func() {
		by := fmt.Sprintf("%s@e%d", cs.names[h.idx], tok.id)
		switch sn.mode {
		case "inside":
			cs.busOp("unsub", sn.vlevel, sn.victim, by)
			done = "snapshot:unsubscribes-" + cs.names[sn.victim]
		default:
			ch := make(chan struct{})
			go func() {
				defer close(ch)
				cs.busOp("unsub", sn.vlevel, sn.victim, by+"/other-goroutine")
			}()
			select {
			case <-ch:
				done = "snapshot:stays-until-another-goroutine-unsubscribed-" + cs.names[sn.victim]
			case <-time.After(c15SnapBound):
				sn.expired.Store(true)
				done = "snapshot:EXPIRED"
			}
		}
		sn.acted.Store(true)
	})
	return done
}

func (cs *c15Case) snapStage(r *rand.Rand, baseline int, levelsOf func(int) []int, exec func(o c15PlanOp, by string)) ([]string, bool) {
	c := cs.c
	var stage []string
	type lh struct{ level, h int }
	for round, n := 0, 2; round < n; round++ {
		var plan []c15PlanOp
		var all []lh
		for h := range cs.hs {
			for _, l := range levelsOf(h) {
				plan = append(plan, c15PlanOp{"unsub", l, h})
				all = append(all, lh{l, h})
			}
		}
		r.Shuffle(len(all), func(i, j int) { all[i], all[j] = all[j], all[i] })
		// the actor: mostly a core-level handler (the publication is then known not to have gone past it)
		ai := -1
		wantCore := r.Intn(4) > 0
		for _, i := range r.Perm(len(all)) {
			if (all[i].level == c15Core) == wantCore {
				ai = i
				break
			}
		}
		if ai < 0 {
			ai = 0
		}
		vi := r.Intn(len(all) - 1)
		if vi >= ai {
			vi++
		}
		// three times in four the victim's turn comes after the actor's: application level, or later in the list
		if all[ai].level == c15Core && all[vi].level == c15Core && vi < ai && r.Intn(4) > 0 {
			all[ai], all[vi] = all[vi], all[ai]
			ai, vi = vi, ai
		}
		actor, victim := all[ai], all[vi]
		// some of the bystanders stay unsubscribed
		var subscribed []lh
		for i, k := range all {
			if i == ai || i == vi || r.Intn(5) > 0 {
				subscribed = append(subscribed, k)
			}
		}
		var ord []string
		for _, k := range subscribed {
			plan = append(plan, c15PlanOp{"sub", k.level, k.h})
			ord = append(ord, fmt.Sprintf("%s/%s", cs.names[k.h], c15LevelName(k.level)))
		}
		sn := &c15Snap{actor: actor.h, alevel: actor.level, victim: victim.h, vlevel: victim.level, mode: []string{"inside", "outside"}[r.Intn(2)], order: fmt.Sprint(ord)}
		for _, o := range plan {
			exec(o, "main")
		}
		rel := "victim-is-application-level"
		if victim.level == c15Core {
			rel = "victim-core-earlier-in-list"
			if actor.level == c15App {
				rel = "victim-core-actor-application"
			} else if vi > ai {
				rel = "victim-core-later-in-list"
			}
		}
		desc := fmt.Sprintf("snapshot[%s actor=%s/%s victim=%s/%s %s n=%d]", sn.mode, cs.names[actor.h], c15LevelName(actor.level), cs.names[victim.h], c15LevelName(victim.level), rel, len(subscribed))
		stage = append(stage, desc)
		cs.mu.Lock()
		cs.nextSnap = sn
		cs.mu.Unlock()
		exec(c15PlanOp{kind: "pub"}, "main")
		if !rig.WaitQuiet(baseline, 30*time.Second) {
			c.Inconclusive("goroutine count did not return to its baseline (%d, now %d) in the snapshot stage", baseline, runtime.NumGoroutine())
			return stage, false
		}
		if sn.expired.Load() {
			c.Inconclusive("snapshot stage: Unsubscribe called from another goroutine while %s stayed inside HandleEvent did not return within %s", cs.names[actor.h], c15SnapBound)
			return stage, false
		}
		c.Seen("snapshot_stage_shapes", fmt.Sprintf("%s actor=%s %s", sn.mode, c15LevelName(actor.level), rel))
	}
	return stage, true
}

// judgeSnaps only measures: the verdict on the victims is the exactly-once pair of judge().
func (cs *c15Case) judgeSnaps(delsByTok map[int][]c15Del) {
	for id, sn := range cs.snaps {
		if !sn.acted.Load() {
			cs.c.Count("snapshot_stage:actor_was_not_invoked", 1)
			continue
		}
		cs.c.Count("snapshot_stage:unsubscribed_between_publication_and_the_victims_turn:"+sn.mode, 1)
		n := 0
		for _, d := range delsByTok[id] {
			if d.h == sn.victim {
				n++
			}
		}
		if n > 0 {
			cs.c.Count("snapshot_stage:victim_received_the_event", 1)
		}
	}
}
