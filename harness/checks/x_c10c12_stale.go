package checks

import (
	"fmt"
	"math/rand"
	"runtime"
	"strings"
	"sync"
	"time"

	"github.com/enbility/spine-go/api"
	"github.com/enbility/spine-go/model"
	"github.com/enbility/spine-go/spine"
	"github.com/enbility/spine-go/util"

	"verifharness/rig"
)

// History shared by C10 (part reconnect, mode stale-approvals) and C12 (part reconnect): approvals that were
// counted for a write of a connection that no longer exists must not count for a write of its successor.
//
//	k in {2,3} approval callbacks on one LoadControl server feature; peer X (bound) sends 1-2 writes under a short
//	approval timeout; the application approves the first of them with j < k callbacks (mostly j = k-1), the rest
//	stays silent: every old write TIMES OUT (exactly one error result, data unchanged, nothing pending any more).
//	Then X's connection is removed and set up again with the same SKI; X repeats announcement, binding and writes
//	with the SAME message counters (counters restart per connection), now under a timeout that does not expire
//	within the case. The application then delivers its verdicts for the new writes one call at a time in a drawn
//	order, all approving or with one denial after at least one approval.
//
// Verdicts, all at the return of an ApproveOrDenyWrite call (logical steps, no clock): a write that has fewer than
// k approvals and no denial has no result and its element is unchanged; after a denial it has exactly one error
// result and its element is unchanged for good; after the k-th approval it is applied and has exactly one success
// result iff it asked for one. At the end: one data change event and one notification to the subscribed bystander
// per applied write, nothing pending, nothing written to the old connection after its removal returned. A case is
// non-trivial if every approval of the first connection's first write returned before that write's time-out result was
// on the tap (so it was counted).
// stateOracle (C10 only): after the removal returned the stack holds neither pending timers nor counted
// approvals for the removed SKI (C10: "pending write approvals ... that refer to that device ... disappear").
func xStaleApprovals(c *rig.Ctx, r *rand.Rand, pre string, stateOracle bool) {
	w := rig.NewWorld(c.Tag())
	defer w.Close()
	k := 2 + r.Intn(2)
	T := []time.Duration{15 * time.Millisecond, 25 * time.Millisecond, 40 * time.Millisecond}[r.Intn(3)]
	if c.Race {
		T *= 2
	}
	long := 30 * time.Minute // "never within a case"; Close() removes the connection and with it the pending approval
	var trace []string
	hard := false // a behavioural deviation (everything but the state oracle): the rest of the plan is not judged
	fail := func(sig, format string, a ...any) {
		if sig != "approval-state-of-removed-device-survives" {
			hard = true
		}
		c.Violate(pre+"/"+sig, "%s\n history (last is the failing step):\n   %s", fmt.Sprintf(format, a...), strings.Join(trace, "\n   "))
		c.Witness(map[string]any{"history": trace})
	}

	e := w.AddEntity(model.EntityTypeTypeCEM, []uint{1}, 4*time.Second)
	f := e.GetOrAddFeature(model.FeatureTypeTypeLoadControl, model.RoleTypeServer).(*spine.FeatureLocal)
	f.AddFunctionType(c12Fn, true, true)
	var items []model.LoadControlLimitDataType
	for i := 1; i <= c12Elems; i++ {
		items = append(items, model.LoadControlLimitDataType{LimitId: util.Ptr(model.LoadControlLimitIdType(i)), IsLimitChangeable: util.Ptr(true),
			Value: &model.ScaledNumberType{Number: util.Ptr(model.NumberType(i))}})
	}
	f.SetData(c12Fn, &model.LoadControlLimitListDataType{LoadControlLimitData: items})
	f.SetWriteApprovalTimeout(T)
	type ckey struct {
		cb int
		rd api.DeviceRemoteInterface
		mc model.MsgCounterType
	}
	var mu sync.Mutex
	captured := map[ckey][]*api.Message{}
	for cb := 0; cb < k; cb++ {
		cb := cb
		// (one function literal per registration index would be needed to be safe against a stack that compares
		// callbacks by code pointer; C12's other parts detect that, here a dropped callback shows as a setup problem)
		_ = f.AddWriteApprovalCallback(func(m *api.Message) {
			if m == nil || m.DeviceRemote == nil || m.RequestHeader == nil || m.RequestHeader.MsgCounter == nil {
				return
			}
			mu.Lock()
			kk := ckey{cb, m.DeviceRemote, *m.RequestHeader.MsgCounter}
			captured[kk] = append(captured[kk], m)
			mu.Unlock()
		})
	}
	msgOf := func(cb int, rd api.DeviceRemoteInterface, mc model.MsgCounterType) *api.Message {
		mu.Lock()
		defer mu.Unlock()
		if ms := captured[ckey{cb, rd, mc}]; len(ms) > 0 {
			return ms[0]
		}
		return nil
	}
	value := func(elem int) int64 {
		d, _ := f.DataCopy(c12Fn).(*model.LoadControlLimitListDataType)
		if d == nil {
			return -1
		}
		for _, it := range d.LoadControlLimitData {
			if it.LimitId != nil && int(*it.LimitId) == elem && it.Value != nil && it.Value.Number != nil {
				return int64(*it.Value.Number)
			}
		}
		return -1
	}
	pendingOf := func(ski string) (int, int) {
		pm, rm := f.VerifApprovalState()
		return pm[ski], rm[ski]
	}

	tree := []rig.FS{rig.NMFS, {Ent: []uint{1}, Id: 1, Typ: model.FeatureTypeTypeLoadControl, Role: model.RoleTypeClient}}
	xi := r.Intn(2)
	var peers [2]*rig.Peer
	for i := 0; i < 2; i++ {
		peers[i] = w.AddPeer(i)
	}
	X, Y := peers[xi], peers[1-xi]
	Y.Ctr = 4000
	Y.Announce(tree)
	ymc := Y.Subscribe(rig.FA(Y.Addr, []uint{1}, 1), f.Address(), model.FeatureTypeTypeLoadControl)
	if res := rig.Classify(Y.Tap.Take(), ymc); res.Success != 1 {
		c.Inconclusive("setup: subscription of the bystander not granted (%s)", res)
		return
	}
	Y.Tap.Take()

	type pw struct {
		mc   model.MsgCounterType
		elem int
		val  int64
		ack  bool
	}
	const ctr0 = 5000 // both connections of X count from here
	nW := 1 + r.Intn(2)
	acks := []bool{r.Intn(2) == 0, r.Intn(2) == 0}
	connect := func(what string, valBase int64) (writes []pw, ok bool) {
		X.Ctr = ctr0
		X.Announce(tree)
		mc := X.Bind(rig.FA(X.Addr, []uint{1}, 1), f.Address(), model.FeatureTypeTypeLoadControl)
		if res := rig.Classify(X.Tap.Take(), mc); res.Success != 1 || res.Errors != 0 {
			fail(what+"-binding-not-granted", "%s binds [1]/1 -> the server feature: %s", X.Addr, res)
			return nil, false
		}
		trace = append(trace, fmt.Sprintf("%s (%s): announces, binds the server feature", X.Addr, what))
		for i := 0; i < nW; i++ {
			wr := pw{elem: 1 + i, val: valBase + int64(i), ack: acks[i]}
			wr.mc = X.Send(model.CmdClassifierTypeWrite, rig.FA(X.Addr, []uint{1}, 1), f.Address(), wr.ack, nil, c12WriteCmd(wr.elem, wr.val))
			writes = append(writes, wr)
			trace = append(trace, fmt.Sprintf("%s (%s): writes element %d := %d with counter %d (ack=%v): presented to %d callbacks", X.Addr, what, wr.elem, wr.val, wr.mc, wr.ack, k))
		}
		return writes, true
	}
	waitCaptured := func(rd api.DeviceRemoteInterface, ws []pw) bool {
		return rig.WaitFor(10*time.Second, func() bool {
			for _, wr := range ws {
				for cb := 0; cb < k; cb++ {
					if msgOf(cb, rd, wr.mc) == nil {
						return false
					}
				}
			}
			return true
		})
	}
	obs := func(tap *rig.Tap, wr pw) (rig.Resp, bool) {
		return rig.Classify(tap.Peek(), wr.mc), value(wr.elem) == wr.val
	}

	// ---- first connection: the writes collect some approvals and time out
	baseline := runtime.NumGoroutine()
	oldWrites, ok := connect("first connection", 1000)
	if !ok {
		return
	}
	oldRD, oldTap := X.RD, X.Tap
	if !waitCaptured(oldRD, oldWrites) {
		if rig.WaitQuiet(baseline, 10*time.Second) {
			fail("callback-not-invoked", "a write of the first connection was not presented to all %d callbacks", k)
		} else {
			c.Inconclusive("approval callbacks were not invoked within 10s")
		}
		return
	}
	j := k - 1
	if r.Intn(4) == 0 {
		j = 1 + r.Intn(k-1)
	}
	order := r.Perm(k)
	approve := model.ErrorType{ErrorNumber: 0}
	deliver := func(msg *api.Message, et model.ErrorType) bool {
		okA, p := rig.Guard(30*time.Second, func() { f.ApproveOrDenyWrite(msg, et) })
		if p != "" {
			fail("verdict-panic", "%s", p)
		} else if !okA {
			c.Inconclusive("ApproveOrDenyWrite did not return within 30s")
		}
		return okA && p == ""
	}
	inTime := 0 // approvals of the first write that returned before its time-out result was on the tap (evidence: they were counted)
	for n := 0; n < j; n++ {
		cb := order[n]
		if !deliver(msgOf(cb, oldRD, oldWrites[0].mc), approve) {
			return
		}
		if res, _ := obs(oldTap, oldWrites[0]); len(res.All) == 0 {
			inTime++
		}
		trace = append(trace, fmt.Sprintf("callback %d approves write %d of the first connection (%d of %d approvals)", cb, oldWrites[0].mc, n+1, k))
	}
	// a second old write may collect approvals as well
	j2 := 0
	if nW == 2 {
		j2 = r.Intn(k)
		for n := 0; n < j2; n++ {
			cb := order[k-1-n]
			if !deliver(msgOf(cb, oldRD, oldWrites[1].mc), approve) {
				return
			}
			trace = append(trace, fmt.Sprintf("callback %d approves write %d of the first connection (%d of %d approvals)", cb, oldWrites[1].mc, n+1, k))
		}
	}
	timedOut := rig.WaitFor(20*time.Second, func() bool {
		for _, wr := range oldWrites {
			if res, _ := obs(oldTap, wr); len(res.All) == 0 {
				return false
			}
		}
		p, _ := pendingOf(X.Ski)
		return p == 0
	})
	if !timedOut || !rig.WaitQuiet(baseline, 10*time.Second) {
		c.Inconclusive("the writes of the first connection did not time out within the watchdog")
		return
	}
	for _, wr := range oldWrites {
		c.Events(1)
		if res, applied := obs(oldTap, wr); res.Errors != 1 || res.Success != 0 || len(res.All) != 1 || applied {
			fail("partly-approved-write-not-timed-out-once", "write %d of the first connection had fewer than %d approvals and a timeout of %v: %s, applied=%v", wr.mc, k, T, res, applied)
			return
		}
	}
	trace = append(trace, fmt.Sprintf("every write of the first connection has timed out (timeout %v): one error result each, nothing pending", T))

	// ---- removal and reconnect with the same SKI
	w.Core.Take()
	w.Local.RemoveRemoteDeviceConnection(X.Ski)
	seqReturn := rig.Seq()
	trace = append(trace, "connection of "+X.Addr+" removed")
	if stateOracle {
		c.Events(1)
		if pend, recv := pendingOf(X.Ski); pend != 0 || recv != 0 {
			fail("approval-state-of-removed-device-survives", "after RemoveRemoteDeviceConnection returned the stack still holds %d pending timers and %d counted approvals for %s", pend, recv, X.Ski)
		}
	}
	f.SetWriteApprovalTimeout(long) // quiescent point: nothing is pending, no message is being handled
	X.Tap = &rig.Tap{}
	w.Local.SetupRemoteDevice(X.Ski, X.Tap)
	X.RD = w.Local.RemoteDeviceForSki(X.Ski)
	newWrites, ok := connect("second connection, same SKI", 2000)
	if !ok {
		return
	}
	for i := range newWrites {
		if newWrites[i].mc != oldWrites[i].mc {
			c.Inconclusive("harness: the second connection did not reproduce the counters of the first")
			return
		}
	}
	if !waitCaptured(X.RD, newWrites) {
		if rig.WaitQuiet(baseline, 10*time.Second) {
			fail("callback-not-invoked", "a write of the second connection was not presented to all %d callbacks", k)
		} else {
			c.Inconclusive("approval callbacks were not invoked within 10s")
		}
		return
	}

	// ---- verdicts for the new writes, one call at a time
	type del struct {
		wi, cb int
		deny   bool
	}
	var plan []del
	var planDesc []string
	for wi := range newWrites {
		ord := r.Perm(k)
		denyAt := -1
		if r.Intn(3) == 0 {
			denyAt = 1 + r.Intn(k-1) // after at least one approval
		}
		for n, cb := range ord {
			plan = append(plan, del{wi, cb, n == denyAt})
		}
		planDesc = append(planDesc, fmt.Sprintf("w%d:deny@%d", wi, denyAt))
	}
	mixed := nW == 2 && r.Intn(2) == 0
	if mixed { // interleave the verdicts of the two writes, keeping each write's own order
		var a, b, mix []del
		for _, d := range plan {
			if d.wi == 0 {
				a = append(a, d)
			} else {
				b = append(b, d)
			}
		}
		for len(a)+len(b) > 0 {
			if len(b) == 0 || (len(a) > 0 && r.Intn(2) == 0) {
				mix, a = append(mix, a[0]), a[1:]
			} else {
				mix, b = append(mix, b[0]), b[1:]
			}
		}
		plan = mix
	}
	nApp := make([]int, nW)
	denied := make([]bool, nW)
	judge := func(when string) {
		for wi, wr := range newWrites {
			res, applied := obs(X.Tap, wr)
			c.Events(2)
			ackN := 0
			if wr.ack {
				ackN = 1
			}
			switch {
			case denied[wi]:
				if applied || res.Success > 0 {
					fail("denied-write-applied", "%s: write %d of the second connection was denied by a callback (approvals delivered: %d of %d): applied=%v %s", when, wr.mc, nApp[wi], k, applied, res)
				} else if res.Errors != 1 || len(res.All) != 1 {
					fail("denied-without-exactly-one-error-result", "%s: write %d of the second connection was denied: %s", when, wr.mc, res)
				}
			case nApp[wi] < k:
				if applied || res.Success > 0 {
					fail("applied-before-all-approved", "%s: write %d of the second connection has %d of %d approvals and no denial, its timeout is %v away, but it is applied (element %d = %d, applied=%v) / acknowledged (%s). "+
						"The write with the same counter on the FIRST connection had collected %d approvals before it timed out", when, wr.mc, nApp[wi], k, long, wr.elem, value(wr.elem), applied, res, map[int]int{0: j, 1: j2}[wi])
				} else if len(res.All) != 0 {
					fail("answered-while-pending", "%s: write %d of the second connection has %d of %d approvals and no denial but received %s", when, wr.mc, nApp[wi], k, res)
				}
			default:
				if !applied || res.Errors != 0 || res.Success != ackN || len(res.All) != ackN {
					fail("unanimous-approval-not-applied", "%s: write %d of the second connection was approved by all %d callbacks: applied=%v %s (ack requested: %v)", when, wr.mc, k, applied, res, wr.ack)
				}
			}
		}
	}
	judge("before any verdict")
	w.Core.Take()
	Y.Tap.Take()
	for _, d := range plan {
		if hard {
			break
		}
		wr := newWrites[d.wi]
		verdict := approve
		if d.deny {
			verdict = *model.NewErrorTypeFromString("denied by the application")
		}
		if !deliver(msgOf(d.cb, X.RD, wr.mc), verdict) {
			return
		}
		if d.deny {
			denied[d.wi] = true
		} else if !denied[d.wi] {
			nApp[d.wi]++
		}
		trace = append(trace, fmt.Sprintf("callback %d decides write %d of the second connection: deny=%v (approvals so far %d of %d)", d.cb, wr.mc, d.deny, nApp[d.wi], k))
		judge(fmt.Sprintf("at the return of the verdict of callback %d for write %d", d.cb, wr.mc))
	}
	if hard {
		return
	}
	if !rig.WaitQuiet(baseline, 10*time.Second) {
		c.Inconclusive("goroutines did not finish within the watchdog")
		return
	}
	judge("at the end")
	wantApplied := 0
	for wi := range newWrites {
		if !denied[wi] {
			wantApplied++
		}
	}
	c.Events(4)
	nEv := 0
	for _, ev := range w.Core.Take() {
		if ev.P.EventType == api.EventTypeDataChange && ev.P.Ski == X.Ski && ev.P.CmdClassifier != nil && *ev.P.CmdClassifier == model.CmdClassifierTypeWrite {
			nEv++
		}
	}
	if nEv != wantApplied && !hard {
		fail("writes-executed-differ-from-verdicts", "%d writes of the second connection were approved unanimously, %d data change events for writes were published", wantApplied, nEv)
	}
	nNot := 0
	for _, d := range Y.Tap.Take() {
		if d.Header.CmdClassifier != nil && *d.Header.CmdClassifier == model.CmdClassifierTypeNotify && d.Header.AddressSource != nil && d.Header.AddressSource.Feature != nil && *d.Header.AddressSource.Feature != 0 {
			nNot++
		}
	}
	if nNot != wantApplied && !hard {
		fail("writes-executed-differ-from-verdicts", "%d writes of the second connection were approved unanimously, the subscriber %s received %d notifications", wantApplied, Y.Addr, nNot)
	}
	if pend, _ := pendingOf(X.Ski); pend != 0 {
		fail("decided-write-still-pending", "%d pending approvals left for %s", pend, X.Ski)
	}
	for _, o := range oldTap.TakeOut() {
		if o.Seq > seqReturn {
			fail("datagram-written-to-removed-connection", "written to the OLD connection of %s after RemoveRemoteDeviceConnection had returned: %s", X.Addr, rig.JS(o.D))
			break
		}
	}
	c.Count("stale_approval_histories", 1)
	c.Count(fmt.Sprintf("stale_approval_histories:k=%d,old_write_had_%d_approvals", k, j), 1)
	c.Shape(fmt.Sprintf("stale k=%d j=%d j2=%d nW=%d acks=%v %s mixed=%v", k, j, j2, nW, acks[:nW], strings.Join(planDesc, ","), mixed))
	if inTime == j {
		c.Count("stale_approval_histories:all_approvals_of_the_first_connection_in_before_its_timeout", 1)
	}
	c.NonTrivial(inTime == j)
	c.Sample(map[string]any{"history": trace, "callbacks": k, "timeout_first_connection": T.String(), "approvals_of_first_connection_in_before_timeout": inTime})
}
