package checks

import (
	"fmt"
	"hash/fnv"
	"sort"
	"strings"
	"sync"
	"time"

	"github.com/enbility/spine-go/api"
	"github.com/enbility/spine-go/model"
	"github.com/enbility/spine-go/spine"
	"github.com/enbility/spine-go/util"

	"verifharness/rig"
)

// C06 — the remote device tree converges to what the peer announced.
//
// One case = one World with three identically numbered peers. Every peer sends a history of 4-10
// announcements (detailed discovery reply, partial notify with added/removed entries, full notify),
// the histories are interleaved, and between announcements the peers subscribe/bind to local server
// features from the entities that come and go while local client features SubscribeToRemote /
// BindToRemote to them. A reference tree per peer is updated in message order exactly as the statement
// says; after EVERY message the trees of all three peers read through the API, the entity/device
// events published during that message and the registries + client-side bookkeeping of all three
// peers are compared with the reference.

var c06Types = []model.FeatureTypeType{model.FeatureTypeTypeLoadControl, model.FeatureTypeTypeMeasurement, model.FeatureTypeTypeSetpoint,
	model.FeatureTypeTypeDeviceDiagnosis, model.FeatureTypeTypeElectricalConnection, model.FeatureTypeTypeDeviceConfiguration}

var c06Dom = [][]uint{{1}, {2}, {1, 1}, {1, 2}}

func init() {
	rig.Register(&rig.Check{
		ID:    "C06",
		Floor: 130,
		Rule: "case = 3 peers with identical numbering, each with a seeded history of 4-10 announcements (first a reply - for one peer in five a partial notification; then reply | partial notify with 0-3 added and 0-2 removed entries in shuffled order, one in four naming one address twice (added+removed, folded in list order) | full notify) over the entity domain " +
			"{[0],[1],[2],[1,1],[1,2]} with 1-3 features per entity from 6 feature types (operations with their partial sub-flags; one feature in four announces a function from outside the stack's table for its type), interleaved with subscribe/bind calls of the peers and SubscribeToRemote/BindToRemote of local client features. " +
			"The optional elements of the announcement are varied as well: entities listed by a reply or a full notification (new and known ones) carry lastStateChange absent | added | modified, features and the device description likewise; one partial notification in three has an entry 'modified' that restates a known entity as it is; " +
			"an entry (listed, 'added' or 'modified') about an entity that is known when the entry is applied leaves the optional element entityType out one time in three (the type is needed to create an entity, not to tell about a known one); " +
			"label, minimumTrustLevel, specificUsage, featureGroup, maxResponseDelay are filled in at random, a notification may leave deviceInformation out once the device address is known, a full notification is sent with or without the function element. None of these changes the announced tree. " +
			"One case in three ends with a full notification that restates known entities with other descriptions/features/operations (the reference is the tree of the message). Entity events are also judged at publication time by a core-level handler (published object = resolved object, entity complete; removed address does not resolve). " +
			"A case is non-trivial if at least one entity appeared through a notification, one disappeared, one multi-entity notification was sent and at least one removal cascaded over a registry entry or bookkeeping flag. " +
			"distinct = distinct sequences of message shapes (kind, #created, #refreshed, #removed-known, #removed-unknown, nested, entry without entityType) over the whole case.",
		Assumptions: []string{
			"events are observed at the core level (synchronous with HandleSpineMesssage), so the trace of a message is complete when the call returns",
			"only device-consistent announcements; [0] with NodeManagement is never announced away (D28 belongs to C05); an address is named at most once as added per notification (the feature list of a message is flat); entity types are a function of the address, so a refresh never changes the type; an entry that leaves entityType out is only generated for an entity that is known (and has been listed once) when the entry is applied in list order: applied to the previous tree it leaves the type as it was and replaces the rest as any other entry. What an entry without entityType means for an unknown entity is not fixed by the statement and is not generated",
			"a full notification announces the complete tree: applying it yields the entities of the message with the content of the message. Inside a history full notifications restate known entities identically; the redrawn one is the last message of its case, so a deviation there does not take the reference away from the steps before it",
			"lastStateChange in a reply or a full notification tells the history of an entry, it is not a command: an entity (feature) that such a message lists with no value, 'added' or 'modified' is part of the announced tree. 'removed' on a listed entry contradicts itself and is not generated; a partial entry 'modified' is only generated with the content the entity already has (what it would mean otherwise is not fixed by the statement), a partial entry without lastStateChange not at all",
			"which device part the API shows for an entity (and its features) that no announcement has listed yet is not fixed by the statement: replies list [0] until it has been listed once, and no full notification is sent before that",
			"the registry content after a subscribe/bind call is adopted as observed (its exactness is C08/C09); C06 judges only what a discovery message does to it",
		},
		Parts: []rig.Part{{
			Name:  "histories",
			Cases: func(t rig.Tier) int { return map[rig.Tier]int{rig.Quick: 2400, rig.Thorough: 8000}[t] },
			Run:   c06Case,
			Procs: 2,
		}},
	})
}

// ---- reference tree

type c06Op struct {
	fn     model.FunctionType
	r, w   bool
	rp, wp bool // partial sub-flags (they exist on the wire only below read / write)
}

type c06F struct {
	id   uint
	typ  model.FeatureTypeType
	role model.RoleType
	desc *string
	ops  []c06Op
}

type c06E struct {
	addr  []uint
	typ   model.EntityTypeType
	desc  *string
	feats []c06F
	dev   string // device part of the address as the API must report it ("" = not yet known)
}

type c06Tree struct {
	ents    map[string]*c06E
	devAddr string
	devType *model.DeviceTypeType
	fset    *model.NetworkManagementFeatureSetType
}

func c06Key(a []uint) string {
	s := make([]string, len(a))
	for i, x := range a {
		s[i] = fmt.Sprint(x)
	}
	return "[" + strings.Join(s, ",") + "]"
}

func c06KeyM(a []model.AddressEntityType) string {
	s := make([]string, len(a))
	for i, x := range a {
		s[i] = fmt.Sprint(uint(x))
	}
	return "[" + strings.Join(s, ",") + "]"
}

func c06P(s *string) string {
	if s == nil {
		return "<nil>"
	}
	return fmt.Sprintf("%q", *s)
}

func c06FeatLine(dev, ek string, id uint, typ model.FeatureTypeType, role model.RoleType, desc string, ops []string) string {
	sort.Strings(ops)
	return fmt.Sprintf("F %s|%s/%d type=%s role=%s desc=%s ops={%s}", dev, ek, id, typ, role, desc, strings.Join(ops, ","))
}

// c06OpStr (read/write only) is what C07 compares; C06 compares the partial sub-flags as well (c06OpStrP).
func c06OpStr(fn model.FunctionType, r, w bool) string {
	return fmt.Sprintf("%s:r=%v,w=%v", fn, r, w)
}

func c06OpStrP(fn model.FunctionType, r, w, rp, wp bool) string {
	return fmt.Sprintf("%s:r=%v,w=%v,rp=%v,wp=%v", fn, r, w, rp, wp)
}

func (o c06Op) String() string { return c06OpStrP(o.fn, o.r, o.w, o.r && o.rp, o.w && o.wp) }

func (t *c06Tree) lines() []string {
	var ls []string
	ls = append(ls, fmt.Sprintf("D addr=%s type=%s featureSet=%s", t.devAddr, c06PT(t.devType), c06PT(t.fset)))
	for k, e := range t.ents {
		dev := e.dev
		if dev == "" {
			dev = "<nil>"
		}
		ls = append(ls, fmt.Sprintf("E %s|%s type=%s desc=%s", dev, k, e.typ, c06P(e.desc)))
		for _, f := range e.feats {
			var ops []string
			for _, o := range f.ops {
				ops = append(ops, o.String())
			}
			ls = append(ls, c06FeatLine(dev, k, f.id, f.typ, f.role, c06P(f.desc), ops))
		}
	}
	sort.Strings(ls)
	return ls
}

func c06PT[T ~string](p *T) string {
	if p == nil {
		return "<nil>"
	}
	return string(*p)
}

// c06Observe renders the tree of one remote device as read through Entities/Features/Operations and
// cross-checks Entity() and FeatureByAddress(); problems of the cross-check are returned separately.
func c06Observe(rd api.DeviceRemoteInterface) (ls []string, cross []string) {
	devA := "<nil>"
	if a := rd.Address(); a != nil {
		devA = string(*a)
	}
	if devA == "<nil>" {
		devA = ""
	}
	ls = append(ls, fmt.Sprintf("D addr=%s type=%s featureSet=%s", devA, c06PT(rd.DeviceType()), c06PT(rd.FeatureSet())))
	seenE := map[string]bool{}
	for _, e := range rd.Entities() {
		a := e.Address()
		if a == nil {
			cross = append(cross, "entity without address")
			continue
		}
		dev := "<nil>"
		if a.Device != nil {
			dev = string(*a.Device)
		}
		k := c06KeyM(a.Entity)
		var d *string
		if e.Description() != nil {
			d = util.Ptr(string(*e.Description()))
		}
		ls = append(ls, fmt.Sprintf("E %s|%s type=%s desc=%s", dev, k, e.EntityType(), c06P(d)))
		if !seenE[k] {
			seenE[k] = true
			if got := rd.Entity(a.Entity); got != e {
				cross = append(cross, fmt.Sprintf("Entity(%s) does not return the entity listed by Entities()", k))
			}
		}
		seenF := map[uint]bool{}
		for _, f := range e.Features() {
			fa := f.Address()
			if fa == nil || fa.Feature == nil {
				cross = append(cross, "feature without address in "+k)
				continue
			}
			fdev := "<nil>"
			if fa.Device != nil {
				fdev = string(*fa.Device)
			}
			var fd *string
			if f.Description() != nil {
				fd = util.Ptr(string(*f.Description()))
			}
			var ops []string
			for fn, o := range f.Operations() {
				ops = append(ops, c06OpStrP(fn, o.Read(), o.Write(), o.ReadPartial(), o.WritePartial()))
			}
			id := uint(*fa.Feature)
			ls = append(ls, c06FeatLine(fdev, c06KeyM(fa.Entity), id, f.Type(), f.Role(), c06P(fd), ops))
			if !seenF[id] {
				seenF[id] = true
				if got := rd.FeatureByAddress(fa); got != f {
					cross = append(cross, fmt.Sprintf("FeatureByAddress(%s/%d) does not return the feature listed by Features()", k, id))
				}
				if got := e.FeatureOfAddress(fa.Feature); got != f {
					cross = append(cross, fmt.Sprintf("FeatureOfAddress(%s/%d) does not return the feature listed by Features()", k, id))
				}
			}
			if f.Entity() != e || f.Device() != rd {
				cross = append(cross, fmt.Sprintf("feature %s/%d is not linked to its entity/device", k, id))
			}
		}
		// feature numbers that are not announced must not resolve
		for id := uint(0); id <= 5; id++ {
			if !seenF[id] {
				if got := rd.FeatureByAddress(rig.FA(dev, c06U(a.Entity), id)); !rig.IsNil(got) {
					cross = append(cross, fmt.Sprintf("FeatureByAddress(%s/%d) resolves although no such feature is listed", k, id))
				}
			}
		}
	}
	for _, d := range append([][]uint{{0}}, c06Dom...) {
		if !seenE[c06Key(d)] {
			if got := rd.Entity(spine.NewAddressEntityType(d)); !rig.IsNil(got) {
				cross = append(cross, fmt.Sprintf("Entity(%s) resolves although Entities() does not list it", c06Key(d)))
			}
		}
	}
	sort.Strings(ls)
	return ls, cross
}

func c06U(a []model.AddressEntityType) []uint {
	r := make([]uint, len(a))
	for i, x := range a {
		r[i] = uint(x)
	}
	return r
}

func c06Diff(want, got []string) string {
	w, g := map[string]int{}, map[string]int{}
	for _, x := range want {
		w[x]++
	}
	for _, x := range got {
		g[x]++
	}
	var out []string
	for x, n := range w {
		if g[x] < n {
			out = append(out, fmt.Sprintf("  missing  (x%d) %s", n-g[x], x))
		}
	}
	for x, n := range g {
		if w[x] < n {
			out = append(out, fmt.Sprintf("  surplus  (x%d) %s", n-w[x], x))
		}
	}
	sort.Strings(out)
	return strings.Join(out, "\n")
}

// c06RefEntity: the lines of one entity of the reference (E line and F lines, sorted).
func c06RefEntity(k string, e *c06E) []string {
	t := &c06Tree{ents: map[string]*c06E{k: e}}
	var ls []string
	for _, l := range t.lines() {
		if !strings.HasPrefix(l, "D ") {
			ls = append(ls, l)
		}
	}
	return ls
}

// c06ObsEntity: the same lines read from an entity object.
func c06ObsEntity(e api.EntityRemoteInterface) []string {
	var ls []string
	a := e.Address()
	if a == nil {
		return []string{"entity without address"}
	}
	dev := "<nil>"
	if a.Device != nil {
		dev = string(*a.Device)
	}
	var d *string
	if e.Description() != nil {
		d = util.Ptr(string(*e.Description()))
	}
	ls = append(ls, fmt.Sprintf("E %s|%s type=%s desc=%s", dev, c06KeyM(a.Entity), e.EntityType(), c06P(d)))
	for _, f := range e.Features() {
		fa := f.Address()
		if fa == nil || fa.Feature == nil {
			ls = append(ls, "feature without address")
			continue
		}
		fdev := "<nil>"
		if fa.Device != nil {
			fdev = string(*fa.Device)
		}
		var fd *string
		if f.Description() != nil {
			fd = util.Ptr(string(*f.Description()))
		}
		var ops []string
		for fn, o := range f.Operations() {
			ops = append(ops, c06OpStrP(fn, o.Read(), o.Write(), o.ReadPartial(), o.WritePartial()))
		}
		ls = append(ls, c06FeatLine(fdev, c06KeyM(fa.Entity), uint(*fa.Feature), f.Type(), f.Role(), c06P(fd), ops))
	}
	sort.Strings(ls)
	return ls
}

// c06Pub is subscribed at the core level: it runs synchronously inside Events.Publish, i.e. at the moment an
// entity event is published, and looks at the tree the API shows at that moment.
//   - entity added:   the published object is the one the device resolves for that address, and it already
//     shows the description and features that were announced for it
//   - entity removed: the address does not resolve any more
type c06Pub struct {
	mu       sync.Mutex
	ski      string
	rd       api.DeviceRemoteInterface
	expect   map[string][]string // entity -> lines it must show when its add event is published
	problems [][2]string         // deviation, detail
	judged   int
}

func (h *c06Pub) arm(ski string, rd api.DeviceRemoteInterface, expect map[string][]string) {
	h.mu.Lock()
	defer h.mu.Unlock()
	h.ski, h.rd, h.expect, h.problems = ski, rd, expect, nil
}

func (h *c06Pub) disarm() [][2]string {
	h.mu.Lock()
	defer h.mu.Unlock()
	h.rd = nil
	return h.problems
}

func (h *c06Pub) HandleEvent(p api.EventPayload) {
	h.mu.Lock()
	defer h.mu.Unlock()
	if h.rd == nil || p.EventType != api.EventTypeEntityChange || p.Ski != h.ski {
		return
	}
	if rig.IsNil(p.Entity) || p.Entity.Address() == nil {
		h.problems = append(h.problems, [2]string{"event-without-entity", "an entity event carries no entity"})
		return
	}
	h.judged++
	k := c06KeyM(p.Entity.Address().Entity)
	cur := h.rd.Entity(p.Entity.Address().Entity)
	if p.Device != h.rd {
		h.problems = append(h.problems, [2]string{"event-device-is-not-the-remote-device", "the event for " + k + " carries another device object"})
	}
	switch p.ChangeType {
	case api.ElementChangeAdd:
		if cur != p.Entity {
			h.problems = append(h.problems, [2]string{"add-event-entity-is-not-the-tree-entity", fmt.Sprintf("when the add event for %s is published, Entity(%s) does not return the published object (resolves: %v)", k, k, !rig.IsNil(cur))})
		}
		if want, ok := h.expect[k]; ok {
			if got := c06ObsEntity(p.Entity); strings.Join(got, "\n") != strings.Join(want, "\n") {
				h.problems = append(h.problems, [2]string{"add-event-before-entity-is-complete", fmt.Sprintf("when the add event for %s is published the entity shows\n    %s\n  announced:\n    %s", k, strings.Join(got, "\n    "), strings.Join(want, "\n    "))})
			}
		}
	case api.ElementChangeRemove:
		if !rig.IsNil(cur) {
			h.problems = append(h.problems, [2]string{"remove-event-while-entity-still-resolves", fmt.Sprintf("when the remove event for %s is published, Entity(%s) still resolves", k, k)})
		}
	}
}

// ---- messages

type c06EntMsg struct {
	addr    []uint
	state   string // "" (listed by a reply / full notification), "added", "removed", "same" (partial entry 'modified' that restates a known entity as it is)
	lsc     string // state "": the optional element lastStateChange as sent ("" = left out, "added", "modified")
	desc    *string
	feats   []c06F
	omitDev bool
	// omitType: the entry leaves the optional element entityType out. Only set on an entry whose entity is known
	// (and has been listed before) at the moment the entry is applied: the type is needed to create an entity, an
	// entry that tells about a known one has nothing new to say about it.
	omitType bool
}

// wire: the value of entityInformation.description.lastStateChange of the entry ("" = element left out)
func (m c06EntMsg) wire() string {
	switch m.state {
	case "":
		return m.lsc
	case "same":
		return "modified"
	}
	return m.state
}

// c06LSC: what a reply or a full notification may say in lastStateChange about an entity (or feature) it lists.
// "removed" is not generated there: an entry that is listed as part of the tree and called removed contradicts itself.
var c06LSC = []string{"", "", "added", "modified", "modified"}

func (m c06EntMsg) String() string {
	s := m.state
	if s == "" {
		s = "listed"
		if m.lsc != "" {
			s = "listed(lastStateChange=" + m.lsc + ")"
		}
	}
	if s == "same" {
		s = "modified(restated as it is)"
	}
	if m.state == "removed" {
		return "removed " + c06Key(m.addr)
	}
	var fs []string
	for _, f := range m.feats {
		var ops []string
		for _, o := range f.ops {
			ops = append(ops, o.String())
		}
		fs = append(fs, fmt.Sprintf("%d:%s/%s/%s{%s}", f.id, f.typ, f.role, c06P(f.desc), strings.Join(ops, ",")))
	}
	if m.omitType {
		s += "(no entityType)"
	}
	return fmt.Sprintf("%s %s desc=%s feats[%s]", s, c06Key(m.addr), c06P(m.desc), strings.Join(fs, " "))
}

// c06Build renders one announcement. Besides the elements the reference tree is made of it fills, at random, the
// optional elements of the three description types that the API does not report (lastStateChange of device,
// entity and feature, label, minimumTrustLevel, specificUsage, featureGroup, maxResponseDelay); a notification of a
// peer whose device address is known may leave deviceInformation out. None of them changes what is announced;
// extras names what was filled in (for the history of a witness).
func c06Build(c *rig.Ctx, p *rig.Peer, devType *model.DeviceTypeType, fset *model.NetworkManagementFeatureSetType, ents []c06EntMsg, mayOmitDevInfo bool) (d *model.NodeManagementDetailedDiscoveryDataType, extras []string) {
	r := c.Rand
	lscOf := func(v string) *model.NetworkManagementStateChangeType {
		if v == "" {
			return nil
		}
		return util.Ptr(model.NetworkManagementStateChangeType(v))
	}
	note := func(class, detail string) {
		extras = append(extras, detail)
		c.Count("optional_elements_sent:"+class, 1)
	}
	d = &model.NodeManagementDetailedDiscoveryDataType{
		SpecificationVersionList: &model.NodeManagementSpecificationVersionListType{SpecificationVersion: []model.SpecificationVersionDataType{"1.3.0"}},
		DeviceInformation: &model.NodeManagementDetailedDiscoveryDeviceInformationType{Description: &model.NetworkManagementDeviceDescriptionDataType{
			DeviceAddress: &model.DeviceAddressType{Device: util.Ptr(model.AddressDeviceType(p.Addr))}, DeviceType: devType, NetworkFeatureSet: fset}}}
	if mayOmitDevInfo && r.Intn(4) == 0 {
		d.DeviceInformation = nil
		note("notification_without_deviceInformation", "no deviceInformation")
	} else {
		dd := d.DeviceInformation.Description
		if v := c06LSC[r.Intn(len(c06LSC))]; v != "" {
			dd.LastStateChange = lscOf(v)
			note("device.lastStateChange="+v, "device lastStateChange="+v)
		}
		if r.Intn(4) == 0 {
			dd.Label = util.Ptr(model.LabelType(fmt.Sprintf("dl%d", r.Intn(100))))
			dd.Description = util.Ptr(model.DescriptionType(fmt.Sprintf("dd%d", r.Intn(100))))
			dd.MinimumTrustLevel = util.Ptr(model.NetworkManagementMinimumTrustLevelType("2"))
			note("device.label+description+minimumTrustLevel", "device label/description/minimumTrustLevel")
		}
	}
	for _, e := range ents {
		dev := p.Addr
		if e.omitDev {
			dev = ""
		}
		desc := &model.NetworkManagementEntityDescriptionDataType{EntityAddress: rig.EA(dev, e.addr), LastStateChange: lscOf(e.wire())}
		if e.state != "removed" {
			if !e.omitType {
				et := rig.EntityTypeFor(e.addr)
				desc.EntityType = &et
			}
			if e.desc != nil {
				desc.Description = util.Ptr(model.DescriptionType(*e.desc))
			}
			if r.Intn(4) == 0 {
				desc.Label = util.Ptr(model.LabelType(fmt.Sprintf("el%d", r.Intn(100))))
				note("entity.label", c06Key(e.addr)+" label")
			}
			if r.Intn(6) == 0 {
				desc.MinimumTrustLevel = util.Ptr(model.NetworkManagementMinimumTrustLevelType("8"))
				note("entity.minimumTrustLevel", c06Key(e.addr)+" minimumTrustLevel")
			}
			for _, f := range e.feats {
				ft, ro := f.typ, f.role
				fdev := p.Addr
				if r.Intn(3) == 0 {
					fdev = ""
				}
				fd := &model.NetworkManagementFeatureDescriptionDataType{FeatureAddress: rig.FA(fdev, e.addr, f.id), FeatureType: &ft, Role: &ro}
				if f.desc != nil {
					fd.Description = util.Ptr(model.DescriptionType(*f.desc))
				}
				// what the entry says about the history of the feature: of a feature of an entity called removed nothing
				// is sent; otherwise nothing, added or modified
				if v := c06LSC[r.Intn(len(c06LSC))]; v != "" {
					fd.LastStateChange = lscOf(v)
					note("feature.lastStateChange="+v, fmt.Sprintf("%s/%d lastStateChange=%s", c06Key(e.addr), f.id, v))
				}
				if r.Intn(5) == 0 {
					fd.Label = util.Ptr(model.LabelType(fmt.Sprintf("fl%d", r.Intn(100))))
					fd.MinimumTrustLevel = util.Ptr(model.NetworkManagementMinimumTrustLevelType("4"))
					note("feature.label+minimumTrustLevel", fmt.Sprintf("%s/%d label/minimumTrustLevel", c06Key(e.addr), f.id))
				}
				if r.Intn(5) == 0 {
					fd.SpecificUsage = []model.FeatureSpecificUsageType{model.FeatureSpecificUsageType("Electrical")}
					fd.FeatureGroup = util.Ptr(model.FeatureGroupType(fmt.Sprintf("g%d", r.Intn(3))))
					note("feature.specificUsage+featureGroup", fmt.Sprintf("%s/%d specificUsage/featureGroup", c06Key(e.addr), f.id))
				}
				if r.Intn(5) == 0 {
					fd.MaxResponseDelay = util.Ptr(model.MaxResponseDelayType("PT10S"))
					note("feature.maxResponseDelay", fmt.Sprintf("%s/%d maxResponseDelay", c06Key(e.addr), f.id))
				}
				for _, o := range f.ops {
					fp := model.FunctionPropertyType{Function: util.Ptr(o.fn), PossibleOperations: &model.PossibleOperationsType{}}
					if o.r {
						fp.PossibleOperations.Read = &model.PossibleOperationsReadType{}
						if o.rp {
							fp.PossibleOperations.Read.Partial = &model.ElementTagType{}
						}
					}
					if o.w {
						fp.PossibleOperations.Write = &model.PossibleOperationsWriteType{}
						if o.wp {
							fp.PossibleOperations.Write.Partial = &model.ElementTagType{}
						}
					}
					fd.SupportedFunction = append(fd.SupportedFunction, fp)
				}
				d.FeatureInformation = append(d.FeatureInformation, model.NodeManagementDetailedDiscoveryFeatureInformationType{Description: fd})
			}
		}
		d.EntityInformation = append(d.EntityInformation, model.NodeManagementDetailedDiscoveryEntityInformationType{Description: desc})
	}
	// the order of the feature entries carries no meaning
	r.Shuffle(len(d.FeatureInformation), func(i, j int) {
		d.FeatureInformation[i], d.FeatureInformation[j] = d.FeatureInformation[j], d.FeatureInformation[i]
	})
	return d, extras
}

var c06Fns = map[model.FeatureTypeType][]rig.FnInfo{}

func c06FnsOf(t model.FeatureTypeType) []rig.FnInfo {
	if f, ok := c06Fns[t]; ok {
		return f
	}
	f := rig.FunctionsOf(t)
	c06Fns[t] = f
	return f
}

func c06RandDesc(c *rig.Ctx, pfx string) *string {
	if c.Rand.Intn(10) < 3 {
		return nil
	}
	return util.Ptr(fmt.Sprintf("%s%d", pfx, c.Rand.Intn(1000)))
}

func c06RandFeats(c *rig.Ctx) []c06F {
	r := c.Rand
	n := 1 + r.Intn(3)
	ids := r.Perm(4)[:n]
	var fs []c06F
	for _, id := range ids {
		t := c06Types[r.Intn(len(c06Types))]
		role := model.RoleTypeClient
		if r.Intn(2) == 0 {
			role = model.RoleTypeServer
		}
		f := c06F{id: uint(id + 1), typ: t, role: role, desc: c06RandDesc(c, "f")}
		fns := c06FnsOf(t)
		if len(fns) > 0 {
			for _, i := range r.Perm(len(fns)) {
				if len(f.ops) >= r.Intn(4) {
					break
				}
				f.ops = append(f.ops, c06Op{fn: fns[i].Fn, r: r.Intn(3) > 0, w: r.Intn(2) == 0, rp: r.Intn(3) == 0, wp: r.Intn(3) == 0})
			}
		}
		// one feature in four also announces a function the stack's table does not hold for this feature type:
		// a function of another feature type or a name the data model does not know at all
		if r.Intn(4) == 0 {
			fn := model.FunctionType(fmt.Sprintf("vendorSpecific%dListData", r.Intn(3)))
			if r.Intn(2) == 0 {
				if other := c06FnsOf(c06Types[r.Intn(len(c06Types))]); len(other) > 0 {
					fn = other[r.Intn(len(other))].Fn
				}
			}
			own := false
			for _, x := range fns {
				if x.Fn == fn {
					own = true
				}
			}
			if !own {
				f.ops = append(f.ops, c06Op{fn: fn, r: r.Intn(3) > 0, w: r.Intn(2) == 0, rp: r.Intn(3) == 0, wp: r.Intn(3) == 0})
				c.Count("functions_announced_from_outside_the_feature_types_table", 1)
			}
		}
		fs = append(fs, f)
	}
	return fs
}

func c06NMFeats(c *rig.Ctx) []c06F {
	fs := []c06F{{id: 0, typ: model.FeatureTypeTypeNodeManagement, role: model.RoleTypeSpecial,
		ops: []c06Op{{fn: model.FunctionTypeNodeManagementDetailedDiscoveryData, r: true}, {fn: model.FunctionTypeNodeManagementUseCaseData, r: true}}}}
	if c.Rand.Intn(2) == 0 {
		fs = append(fs, c06F{id: 1, typ: model.FeatureTypeTypeDeviceClassification, role: model.RoleTypeServer, desc: c06RandDesc(c, "dc"),
			ops: []c06Op{{fn: model.FunctionTypeDeviceClassificationManufacturerData, r: true}}})
	}
	return fs
}

// ---- the case

type c06Peer struct {
	p           *rig.Peer
	idx         int
	tree        *c06Tree
	left        int  // announcements left
	begun       bool // has announced something
	notifyFirst bool // the first announcement is a notification, not the reply
	nMsgs       int
	lastDT      *model.DeviceTypeType
	lastFS      *model.NetworkManagementFeatureSetType
}

type c06Reg struct {
	peer int
	ent  string
	n    int
}

type c06Flag struct {
	kind   string // sub | bind
	local  api.FeatureLocalInterface
	remote *model.FeatureAddressType
	peer   int
	ent    string
}

func (f c06Flag) key() string {
	return fmt.Sprintf("%s local=%s remote=%s", f.kind, f.local.Address().String(), f.remote.String())
}

func c06Case(c *rig.Ctx) {
	r := c.Rand
	w := rig.NewWorld(c.Tag())
	defer w.Close()

	// local device: two entities, each with a server and a client feature of every type
	srv := map[string]api.FeatureLocalInterface{}
	cli := map[string]api.FeatureLocalInterface{}
	for _, ea := range [][]uint{{1}, {2}} {
		e := w.AddEntity(model.EntityTypeTypeCEM, ea, 4*time.Second)
		for _, t := range c06Types {
			srv[c06Key(ea)+string(t)] = e.GetOrAddFeature(t, model.RoleTypeServer)
			cli[c06Key(ea)+string(t)] = e.GetOrAddFeature(t, model.RoleTypeClient)
		}
	}
	var peers []*c06Peer
	for i := 0; i < 3; i++ {
		p := w.AddPeer(i)
		p.Ctr = uint64(i+1) * 100000
		peers = append(peers, &c06Peer{p: p, idx: i, left: 4 + r.Intn(7), notifyFirst: r.Intn(5) == 0,
			tree: &c06Tree{ents: map[string]*c06E{"[0]": {addr: []uint{0}, typ: model.EntityTypeTypeDeviceInformation,
				feats: []c06F{{id: 0, typ: model.FeatureTypeTypeNodeManagement, role: model.RoleTypeSpecial}}}}}})
		p.Tap.Take()
	}
	w.Core.Take()
	pub := &c06Pub{}
	_ = spine.VerifSubscribeCore(pub)
	defer func() { _ = spine.VerifUnsubscribeCore(pub) }()

	var trace []string
	var shapes []string
	fail := func(sig, format string, a ...any) {
		c.Violate(sig, "%s\n history so far (last is the failing step):\n   %s", fmt.Sprintf(format, a...), strings.Join(trace, "\n   "))
		c.Witness(map[string]any{"history": trace})
	}

	// registries and bookkeeping as last read from the stack
	var flags []c06Flag
	flagVal := map[string]bool{}
	readRegs := func() map[string]*c06Reg {
		m := map[string]*c06Reg{}
		add := func(kind string, q *c06Peer, cf api.FeatureRemoteInterface, sf api.FeatureLocalInterface) {
			ent := "?"
			if !rig.IsNil(cf) && cf.Address() != nil {
				ent = c06KeyM(cf.Address().Entity)
			}
			k := fmt.Sprintf("%s peer%d client=%s server=%s", kind, q.idx, cf.Address().String(), sf.Address().String())
			if m[k] == nil {
				m[k] = &c06Reg{peer: q.idx, ent: ent}
			}
			m[k].n++
		}
		for _, q := range peers {
			for _, s := range w.Local.SubscriptionManager().Subscriptions(q.p.RD) {
				add("sub ", q, s.ClientFeature, s.ServerFeature)
			}
			for _, b := range w.Local.BindingManager().Bindings(q.p.RD) {
				add("bind", q, b.ClientFeature, b.ServerFeature)
			}
		}
		return m
	}
	readFlags := func() map[string]bool {
		m := map[string]bool{}
		for _, f := range flags {
			if f.kind == "sub" {
				m[f.key()] = f.local.HasSubscriptionToRemote(f.remote)
			} else {
				m[f.key()] = f.local.HasBindingToRemote(f.remote)
			}
		}
		return m
	}
	regs := readRegs()

	// one registry operation on a peer that has announced itself
	registryOp := func() {
		var cand []*c06Peer
		for _, q := range peers {
			if q.begun {
				cand = append(cand, q)
			}
		}
		if len(cand) == 0 {
			return
		}
		q := cand[r.Intn(len(cand))]
		// collect the announced client and server features of q (not on [0])
		type rf struct {
			ent string
			ea  []uint
			f   c06F
		}
		var clients, servers []rf
		var keys []string
		for k := range q.tree.ents {
			keys = append(keys, k)
		}
		sort.Strings(keys)
		for _, k := range keys {
			if k == "[0]" {
				continue
			}
			for _, f := range q.tree.ents[k].feats {
				if f.role == model.RoleTypeClient {
					clients = append(clients, rf{k, q.tree.ents[k].addr, f})
				} else {
					servers = append(servers, rf{k, q.tree.ents[k].addr, f})
				}
			}
		}
		le := c06Key([][]uint{{1}, {2}}[r.Intn(2)])
		switch op := r.Intn(4); {
		case op == 0 && len(clients) > 0: // remote subscribe
			x := clients[r.Intn(len(clients))]
			ca, sa := rig.FA(q.p.Addr, x.ea, x.f.id), srv[le+string(x.f.typ)].Address()
			if regs[fmt.Sprintf("sub  peer%d client=%s server=%s", q.idx, ca.String(), sa.String())] != nil {
				return
			}
			q.p.Subscribe(ca, sa, x.f.typ)
			trace = append(trace, fmt.Sprintf("peer%d subscribes %s/%d -> local %s", q.idx, x.ent, x.f.id, sa.String()))
		case op == 1 && len(clients) > 0: // remote bind
			x := clients[r.Intn(len(clients))]
			ca, sa := rig.FA(q.p.Addr, x.ea, x.f.id), srv[le+string(x.f.typ)].Address()
			if len(w.Local.BindingManager().BindingsOnFeature(*sa)) > 0 {
				return
			}
			q.p.Bind(ca, sa, x.f.typ)
			trace = append(trace, fmt.Sprintf("peer%d binds %s/%d -> local %s", q.idx, x.ent, x.f.id, sa.String()))
		case op >= 2:
			// local client feature subscribes/binds to a remote server feature; one time in ten to an
			// address of the domain that is not announced at the moment
			var ea []uint
			var id uint
			var typ model.FeatureTypeType
			if len(servers) > 0 && r.Intn(10) > 0 {
				x := servers[r.Intn(len(servers))]
				ea, id, typ = x.ea, x.f.id, x.f.typ
			} else {
				ea, id, typ = c06Dom[r.Intn(len(c06Dom))], uint(1+r.Intn(4)), c06Types[r.Intn(len(c06Types))]
			}
			lf := cli[le+string(typ)]
			ra := rig.FA(q.p.Addr, ea, id)
			fl := c06Flag{kind: "sub", local: lf, remote: ra, peer: q.idx, ent: c06Key(ea)}
			var err *model.ErrorType
			if op == 2 {
				_, err = lf.SubscribeToRemote(ra)
			} else {
				fl.kind = "bind"
				_, err = lf.BindToRemote(ra)
			}
			trace = append(trace, fmt.Sprintf("local %s %s to peer%d %s/%d (err=%v)", lf.Address().String(), map[string]string{"sub": "SubscribeToRemote", "bind": "BindToRemote"}[fl.kind], q.idx, c06Key(ea), id, err != nil))
			if err == nil {
				if _, known := flagVal[fl.key()]; !known {
					flags = append(flags, fl)
				}
			}
		default:
			return
		}
		regs = readRegs()
		flagVal = readFlags()
		c.Count("registry_ops", 1)
	}

	var appearedByNotify, disappeared, multi, cascaded int
	steps := 0
	wantRedraw, redrawDone := r.Intn(3) == 0, false
	for {
		var cand []*c06Peer
		for _, q := range peers {
			if q.left > 0 {
				cand = append(cand, q)
			}
		}
		redraw := false
		if len(cand) == 0 {
			// one case in three ends with a full notification that restates known entities with OTHER content
			if redrawDone || !wantRedraw {
				break
			}
			redrawDone = true
			for _, qq := range peers {
				if qq.tree.ents["[0]"].dev != "" {
					cand = append(cand, qq)
				}
			}
			if len(cand) == 0 {
				break
			}
			redraw = true
		}
		for k := r.Intn(4); k > 0; k-- {
			registryOp()
		}
		q := cand[r.Intn(len(cand))]
		q.left--
		q.nMsgs++
		steps++
		p := q.p
		t := q.tree

		// ---- generate one announcement and apply it to the reference
		var appeared, gone []string
		var created, refreshed, remKnown, remUnknown, redrawn, restated int
		var unrefreshed []string             // the tree if a full notification left known entities as they were
		expectAtAdd := map[string][]string{} // entity -> what it must show when its add event is published
		nested := false
		noType := 0
		knownBefore := map[string]bool{} // entities that are known and have been listed by an announcement
		for k, e := range t.ents {
			if e.dev != "" {
				knownBefore[k] = true
			}
		}
		var ents []c06EntMsg
		kind := ""
		listed := func(a []uint, state string) c06EntMsg {
			m := c06EntMsg{addr: a, state: state, desc: c06RandDesc(c, "e"), omitDev: r.Intn(2) == 0}
			if state == "" {
				m.lsc = c06LSC[r.Intn(len(c06LSC))]
			}
			if a[0] == 0 {
				m.feats = c06NMFeats(c)
			} else {
				m.feats = c06RandFeats(c)
			}
			return m
		}
		applyListed := func(m c06EntMsg) {
			k := c06Key(m.addr)
			e := t.ents[k]
			if e == nil {
				e = &c06E{addr: m.addr, typ: rig.EntityTypeFor(m.addr), dev: p.Addr}
				t.ents[k] = e
				appeared = append(appeared, k)
				created++
			} else {
				refreshed++
			}
			if e.dev == "" {
				e.dev = p.Addr
			}
			e.desc = m.desc
			e.feats = append([]c06F(nil), m.feats...)
			if len(m.addr) > 1 {
				nested = true
			}
			cp := *e
			expectAtAdd[k] = c06RefEntity(k, &cp)
		}
		applyRemoved := func(a []uint) {
			k := c06Key(a)
			if _, ok := t.ents[k]; ok {
				delete(t.ents, k)
				gone = append(gone, k)
				remKnown++
			} else {
				remUnknown++
			}
			if len(a) > 1 {
				nested = true
			}
		}
		x := r.Intn(10)
		switch {
		case redraw:
			kind = "full"
			var keys []string
			for k := range t.ents {
				keys = append(keys, k)
			}
			sort.Strings(keys)
			var known []string
			for _, k := range keys {
				if k != "[0]" {
					known = append(known, k)
				}
			}
			must := -1
			if len(known) > 0 {
				must = r.Intn(len(known))
			}
			var again []c06EntMsg
			for _, k := range keys {
				e := t.ents[k]
				m := c06EntMsg{addr: e.addr, desc: e.desc, feats: append([]c06F(nil), e.feats...), omitDev: r.Intn(2) == 0, lsc: c06LSC[r.Intn(len(c06LSC))]}
				if k != "[0]" && ((must >= 0 && known[must] == k) || r.Intn(2) == 0) {
					m = listed(e.addr, "")
					again = append(again, m)
					redrawn++
				}
				ents = append(ents, m)
			}
			r.Shuffle(len(ents), func(i, j int) { ents[i], ents[j] = ents[j], ents[i] })
			unrefreshed = t.lines()
			for _, m := range again {
				applyListed(m)
			}
			c.Count("full_notifications_redrawing_known_entities", 1)
			c.Count("known_entities_redrawn", int64(redrawn))
		case (!q.begun && !q.notifyFirst) || x == 0: // reply
			kind = "reply"
			// a reply lists [0] until [0] has been listed once (which device part the API shows for an entity
			// and its features that no announcement has listed yet is not fixed by the statement), later mostly
			if t.ents["[0]"].dev == "" || r.Intn(10) > 0 {
				ents = append(ents, listed([]uint{0}, ""))
			}
			for _, a := range c06Dom {
				if r.Intn(2) == 0 {
					ents = append(ents, listed(a, ""))
				}
			}
			if len(ents) == 0 {
				ents = append(ents, listed([]uint{0}, ""))
			}
			r.Shuffle(len(ents), func(i, j int) { ents[i], ents[j] = ents[j], ents[i] })
			q.lastDT = util.Ptr([]model.DeviceTypeType{model.DeviceTypeTypeChargingStation, model.DeviceTypeTypeHVACController, model.DeviceTypeTypeInverter}[r.Intn(3)])
			q.lastFS = nil
			if r.Intn(2) == 0 {
				q.lastFS = util.Ptr([]model.NetworkManagementFeatureSetType{model.NetworkManagementFeatureSetTypeSmart, model.NetworkManagementFeatureSetTypeSimple}[r.Intn(2)])
			}
			for _, m := range ents {
				applyListed(m)
			}
			t.devAddr = p.Addr
			t.devType = q.lastDT
			if q.lastFS != nil {
				t.fset = q.lastFS
			}
		case x <= 6 || t.ents["[0]"].dev == "": // partial notify (no full notification before [0] has been listed once, see the reply)
			kind = "partial"
			perm := r.Perm(len(c06Dom))
			nAdd, nRem := r.Intn(4), r.Intn(3)
			if nAdd+nRem == 0 {
				nAdd = 1
			}
			if nAdd+nRem > len(c06Dom) {
				nRem = len(c06Dom) - nAdd
			}
			for _, i := range perm[:nAdd] {
				ents = append(ents, listed(c06Dom[i], "added"))
			}
			for _, i := range perm[nAdd : nAdd+nRem] {
				ents = append(ents, c06EntMsg{addr: c06Dom[i], state: "removed", omitDev: r.Intn(2) == 0})
			}
			// one notification in four names one address twice: once as added, once as removed, in either order
			// (the entries are folded in list order). Two "added" entries for one address are not generated: the
			// feature list of a message is flat, so their features could not be told apart.
			if r.Intn(4) == 0 {
				if m := ents[r.Intn(len(ents))]; m.state == "added" {
					ents = append(ents, c06EntMsg{addr: m.addr, state: "removed", omitDev: r.Intn(2) == 0})
				} else {
					ents = append(ents, listed(m.addr, "added"))
				}
				c.Count("notifications_naming_one_address_twice", 1)
			}
			if r.Intn(10) == 0 { // [0] re-announced as added, complete with its NodeManagement
				ents = append(ents, listed([]uint{0}, "added"))
			}
			// one notification in three also carries an entry with lastStateChange 'modified' that restates an entity
			// which is known, and not named otherwise by this notification, exactly as it is (same description, same
			// features): whatever 'modified' is taken to mean, nothing appears, disappears or changes
			if r.Intn(3) == 0 {
				named := map[string]bool{}
				for _, m := range ents {
					named[c06Key(m.addr)] = true
				}
				var keys []string
				for k, e := range t.ents {
					if !named[k] && e.dev != "" {
						keys = append(keys, k)
					}
				}
				sort.Strings(keys)
				if len(keys) > 0 {
					e := t.ents[keys[r.Intn(len(keys))]]
					ents = append(ents, c06EntMsg{addr: e.addr, state: "same", desc: e.desc, feats: append([]c06F(nil), e.feats...), omitDev: r.Intn(2) == 0})
				}
			}
			r.Shuffle(len(ents), func(i, j int) { ents[i], ents[j] = ents[j], ents[i] })
			for _, m := range ents {
				switch m.state {
				case "added":
					applyListed(m)
				case "same":
					restated++
					if len(m.addr) > 1 {
						nested = true
					}
				default:
					applyRemoved(m.addr)
				}
			}
		default: // full notify: known entities restated identically, some dropped, some new
			kind = "full"
			var keys []string
			for k := range t.ents {
				keys = append(keys, k)
			}
			sort.Strings(keys)
			drop := map[string]bool{}
			for _, k := range keys {
				e := t.ents[k]
				if k != "[0]" && r.Intn(3) == 0 {
					drop[k] = true
					continue
				}
				ents = append(ents, c06EntMsg{addr: e.addr, desc: e.desc, feats: append([]c06F(nil), e.feats...), omitDev: r.Intn(2) == 0, lsc: c06LSC[r.Intn(len(c06LSC))]})
			}
			var fresh []c06EntMsg
			for _, a := range c06Dom {
				if _, ok := t.ents[c06Key(a)]; !ok && r.Intn(3) == 0 {
					fresh = append(fresh, listed(a, ""))
				}
			}
			ents = append(ents, fresh...)
			r.Shuffle(len(ents), func(i, j int) { ents[i], ents[j] = ents[j], ents[i] })
			for _, m := range fresh {
				applyListed(m)
			}
			for _, k := range keys {
				if drop[k] {
					applyRemoved(t.ents[k].addr)
				}
			}
		}
		if !q.begun && kind != "reply" {
			c.Count("peers_whose_first_announcement_is_a_notification", 1)
		}
		q.begun = true
		// the optional element entityType: one entry in three that tells about an entity which is known (and has been
		// listed before) at the moment the entry is applied leaves it out - entries are walked in list order, so an
		// address that is removed and added again by one notification is unknown again at its second entry. The type is
		// needed to create an entity; said again or not about a known one, the announced tree is the same.
		{
			cur := map[string]bool{}
			for k := range knownBefore {
				cur[k] = true
			}
			for i := range ents {
				k := c06Key(ents[i].addr)
				if ents[i].state == "removed" {
					delete(cur, k)
					continue
				}
				st := ents[i].state
				if st == "" {
					st = "listed"
				}
				if cur[k] {
					c.Count("entries_about_known_entities:"+kind+":"+st, 1)
					if r.Intn(3) == 0 {
						ents[i].omitType = true
						noType++
						c.Count("entries_about_known_entities_without_entityType:"+kind+":"+st, 1)
						c.Seen("entries_without_entityType", kind+":"+st)
					}
				}
				cur[k] = true
			}
		}
		var ms []string
		appearedSet := map[string]bool{}
		for _, k := range appeared {
			appearedSet[k] = true
		}
		lscShape := map[string]bool{}
		for _, m := range ents {
			ms = append(ms, m.String())
			if m.state == "" { // measured: what a reply / full notification says in lastStateChange about new and known entities
				v, what := m.lsc, "known"
				if v == "" {
					v = "absent"
				}
				if appearedSet[c06Key(m.addr)] {
					what = "new"
				}
				c.Count(fmt.Sprintf("listed_entities:%s:%s:lastStateChange=%s", kind, what, v), 1)
				c.Seen("lastStateChange_of_listed_entities", kind+":"+what+":"+v)
				if m.lsc != "" {
					lscShape[what[:1]+m.lsc[:1]] = true
				}
			}
		}
		// a full notification is sent with or without the function element (without a filter it is full either way);
		// a notification may leave deviceInformation out once the reply has made the device address known
		fullWithFunction := kind == "full" && r.Intn(2) == 0
		d, extras := c06Build(c, p, q.lastDT, q.lastFS, ents, kind != "reply" && t.devAddr != "")
		line := fmt.Sprintf("peer%d %s: %s", q.idx, kind, strings.Join(ms, " ; "))
		if fullWithFunction {
			line += " ; cmd carries the function element"
			c.Count("full_notifications_with_function_element", 1)
		}
		if len(extras) > 0 {
			line += " ; optional elements: " + strings.Join(extras, ", ")
		}
		trace = append(trace, line)
		shape := fmt.Sprintf("%s+%d~%d-%d?%d", kind[:1], created, refreshed, remKnown, remUnknown)
		if nested {
			shape += "n"
		}
		if restated > 0 {
			shape += "="
			c.Count("partial_entries_modified_restating_a_known_entity", int64(restated))
		}
		if len(lscShape) > 0 {
			var ks []string
			for k := range lscShape {
				ks = append(ks, k)
			}
			sort.Strings(ks)
			shape += "L" + strings.Join(ks, "")
		}
		if redrawn > 0 {
			shape += fmt.Sprintf("R%d", redrawn)
		}
		if noType > 0 {
			shape += "T"
		}
		shapes = append(shapes, shape)
		c.Count("messages:"+kind, 1)
		c.Seen("message_shapes", shape)
		if kind != "reply" {
			appearedByNotify += len(appeared)
			if len(ents) > 1 {
				multi++
				c.Count("multi_entity_notifications", 1)
			}
			if created+refreshed > 0 && remKnown+remUnknown > 0 {
				c.Count("notifications_with_add_and_remove", 1)
			}
		}
		disappeared += len(gone)
		c.Count("entities_appeared", int64(len(appeared)))
		c.Count("entities_disappeared", int64(len(gone)))
		c.Count("repeated_adds", int64(refreshed))
		c.Count("removals_of_unknown_entities", int64(remUnknown))

		// expected registries and bookkeeping after the message
		goneSet := map[string]bool{}
		for _, k := range gone {
			goneSet[k] = true
		}
		wantRegs := map[string]int{}
		nCasc, nCascFlags, nSameNumber := 0, 0, 0
		for k, e := range regs {
			if e.peer == q.idx && goneSet[e.ent] {
				nCasc += e.n
			} else {
				wantRegs[k] = e.n
				if goneSet[e.ent] {
					nSameNumber += e.n // entry of another peer on an entity with the same number: must survive
				}
			}
		}
		wantFlags := map[string]bool{}
		for _, f := range flags {
			v := flagVal[f.key()]
			if v && f.peer == q.idx && goneSet[f.ent] {
				v = false
				nCascFlags++
			} else if v && goneSet[f.ent] {
				nSameNumber++
			}
			wantFlags[f.key()] = v
		}

		// ---- deliver
		for _, qq := range peers {
			qq.p.Tap.Take()
		}
		w.Core.Take()
		pub.arm(p.Ski, p.RD, expectAtAdd)
		switch kind {
		case "reply":
			p.Send(model.CmdClassifierTypeReply, p.NM(), rig.LNM, false, util.Ptr(model.MsgCounterType(1)), model.CmdType{NodeManagementDetailedDiscoveryData: d})
		case "partial":
			p.NotifyDiscovery(true, d)
		default:
			cmd := model.CmdType{NodeManagementDetailedDiscoveryData: d}
			if fullWithFunction {
				cmd.Function = util.Ptr(model.FunctionTypeNodeManagementDetailedDiscoveryData)
			}
			p.Send(model.CmdClassifierTypeNotify, p.NM(), rig.LNM, false, nil, cmd)
		}
		atPublication := pub.disarm()
		c.Events(1)
		if n := p.PanicCount(); n > 0 {
			fail("panic/"+kind, "panic while handling the message: %s", p.Panics[n-1])
			return
		}

		// ---- (1) trees of all peers
		for _, qq := range peers {
			got, cross := c06Observe(qq.p.RD)
			want := qq.tree.lines()
			c.Events(int64(len(got)))
			if strings.Join(got, "\n") != strings.Join(want, "\n") {
				who := "sender"
				if qq != q {
					who = "other-peer"
				}
				if qq == q && redrawn > 0 {
					if strings.Join(got, "\n") == strings.Join(unrefreshed, "\n") {
						fail("tree/full/known-entity-not-refreshed", "peer%d sent a full notification that restates %d known entities with other descriptions/features/operations; the tree still shows them as they were before:\n%s", q.idx, redrawn, c06Diff(want, got))
						return
					}
					kind = "full-redrawn"
				}
				fail(fmt.Sprintf("tree/%s/%s/%s", kind, who, c06DiffClass(want, got)), "after %s of peer%d the tree of peer%d differs from the reference:\n%s", kind, q.idx, qq.idx, c06Diff(want, got))
				return // the reference is lost for the rest of the case
			}
			for _, x := range cross {
				fail("tree/"+kind+"/lookup-inconsistent", "after %s of peer%d, peer%d: %s", kind, q.idx, qq.idx, x)
			}
		}

		// ---- (2) events
		for _, pr := range atPublication {
			fail("events/"+kind+"/"+pr[0], "%s of peer%d: %s", kind, q.idx, pr[1])
		}
		evs := w.Core.Take()
		var gotAdd, gotRem []string
		devAdd, otherEv := 0, 0
		for _, ev := range evs {
			switch ev.P.EventType {
			case api.EventTypeEntityChange:
				k := "?"
				if !rig.IsNil(ev.P.Entity) && ev.P.Entity.Address() != nil {
					k = c06KeyM(ev.P.Entity.Address().Entity)
				}
				if ev.P.Ski != p.Ski {
					k = "OTHER-SKI:" + k
				}
				if ev.P.ChangeType == api.ElementChangeAdd {
					gotAdd = append(gotAdd, k)
				} else if ev.P.ChangeType == api.ElementChangeRemove {
					gotRem = append(gotRem, k)
				} else {
					otherEv++
				}
			case api.EventTypeDeviceChange:
				if ev.P.ChangeType == api.ElementChangeAdd && ev.P.Ski == p.Ski {
					devAdd++
				} else {
					otherEv++
				}
			}
		}
		c.Events(int64(len(evs)))
		sort.Strings(gotAdd)
		sort.Strings(gotRem)
		sort.Strings(appeared)
		sort.Strings(gone)
		if fmt.Sprint(gotAdd) != fmt.Sprint(appeared) {
			fail("events/"+kind+"/entity-add-events!=appeared", "after %s of peer%d: EntityChange/add events %v, entities that appeared %v", kind, q.idx, gotAdd, appeared)
		}
		if fmt.Sprint(gotRem) != fmt.Sprint(gone) {
			fail("events/"+kind+"/entity-remove-events!=disappeared", "after %s of peer%d: EntityChange/remove events %v, entities that disappeared %v", kind, q.idx, gotRem, gone)
		}
		wantDev := 0
		if kind == "reply" {
			wantDev = 1
		}
		if devAdd != wantDev || otherEv != 0 {
			fail("events/"+kind+"/device-events", "after %s of peer%d: %d DeviceChange/add events (want %d), %d unexpected device/entity events", kind, q.idx, devAdd, wantDev, otherEv)
		}

		// ---- (3) registries and client-side bookkeeping of all peers
		gotRegs := readRegs()
		gotFlags := readFlags()
		c.Events(int64(len(gotRegs) + len(gotFlags)))
		for k, e := range regs {
			gotN := 0
			if g := gotRegs[k]; g != nil {
				gotN = g.n
			}
			if gotN == wantRegs[k] {
				continue
			}
			if wantRegs[k] == 0 {
				fail("cascade/"+kind+"/registry-entry-of-removed-entity-survives", "after %s of peer%d removed %v: entry still present: %s", kind, q.idx, gone, k)
			} else if e.peer == q.idx {
				fail("cascade/"+kind+"/registry-entry-of-other-entity-lost", "after %s of peer%d removed %v: entry of another entity of the same peer lost: %s", kind, q.idx, gone, k)
			} else {
				fail("cascade/"+kind+"/registry-entry-of-other-peer-lost", "after %s of peer%d removed %v: entry of another peer lost: %s", kind, q.idx, gone, k)
			}
		}
		for k := range gotRegs {
			if _, ok := regs[k]; !ok {
				fail("cascade/"+kind+"/registry-entry-appeared", "after %s of peer%d: entry appeared: %s", kind, q.idx, k)
			}
		}
		for _, f := range flags {
			k := f.key()
			if gotFlags[k] == wantFlags[k] {
				continue
			}
			switch {
			case gotFlags[k]:
				fail("cascade/"+kind+"/bookkeeping-of-removed-entity-survives", "after %s of peer%d removed %v: %s still reported", kind, q.idx, gone, k)
			case f.peer == q.idx:
				fail("cascade/"+kind+"/bookkeeping-of-other-entity-lost", "after %s of peer%d removed %v: %s lost", kind, q.idx, gone, k)
			default:
				fail("cascade/"+kind+"/bookkeeping-of-other-peer-lost", "after %s of peer%d removed %v: %s (peer%d) lost", kind, q.idx, gone, k, f.peer)
			}
		}
		if nCasc+nCascFlags > 0 {
			cascaded++
			c.Count("removals_cascading_over_entries", 1)
			c.Count("cascaded_registry_entries", int64(nCasc))
			c.Count("cascaded_bookkeeping_flags", int64(nCascFlags))
		}
		c.Count("entries_of_other_peers_on_the_same_entity_number_that_must_survive", int64(nSameNumber))
		regs, flagVal = gotRegs, gotFlags
		if c.Failed() {
			return
		}
	}

	h := fnv.New64a()
	h.Write([]byte(strings.Join(shapes, ";")))
	c.Shape(fmt.Sprintf("%x", h.Sum64()))
	c.NonTrivial(appearedByNotify > 0 && disappeared > 0 && multi > 0 && cascaded > 0)
	c.Count("announcements", int64(steps))
	c.Count("entity_events_judged_at_publication_time", int64(pub.judged))
	if len(trace) > 14 {
		trace = trace[:14]
	}
	c.Sample(map[string]any{"first_steps": trace, "announcements": steps, "shapes": shapes, "entities_disappeared": disappeared, "cascading_removals": cascaded})
}

// c06DiffClass names the kind of difference without payload values.
func c06DiffClass(want, got []string) string {
	w, g := map[string]int{}, map[string]int{}
	for _, x := range want {
		w[x]++
	}
	for _, x := range got {
		g[x]++
	}
	head := func(s string) string { // "E dev|[1]" / "F dev|[1]/2"
		if i := strings.Index(s, " type="); i > 0 {
			return s[:i]
		}
		return s
	}
	missing, surplus := map[string]string{}, map[string]string{}
	for x, n := range w {
		if g[x] < n {
			missing[head(x)] = x
		}
	}
	for x, n := range g {
		if w[x] < n {
			surplus[head(x)] = x
		}
	}
	cls := map[string]bool{}
	for h, x := range missing {
		if y, ok := surplus[h]; ok {
			switch {
			case h[0] == 'D':
				cls["device-description"] = true
			case h[0] == 'E':
				cls["entity-attributes"] = true
			default:
				// which attribute differs?
				switch {
				case c06Field(x, " ops=") != c06Field(y, " ops="):
					cls["feature-operations"] = true
				case c06Field(x, " desc=") != c06Field(y, " desc="):
					cls["feature-description"] = true
				default:
					cls["feature-type-or-role"] = true
				}
			}
		} else if h[0] == 'E' {
			cls["entity-missing"] = true
		} else if h[0] == 'F' {
			cls["feature-missing"] = true
		} else {
			cls["device-description"] = true
		}
	}
	for h := range surplus {
		if _, ok := missing[h]; !ok {
			if h[0] == 'E' {
				cls["entity-surplus"] = true
			} else {
				cls["feature-surplus"] = true
			}
		}
	}
	// one dominant class keeps the signature stable: structural differences first
	for _, k := range []string{"entity-missing", "entity-surplus", "feature-missing", "feature-surplus", "entity-attributes", "feature-type-or-role", "feature-operations", "feature-description", "device-description"} {
		if cls[k] {
			return k
		}
	}
	return "other"
}

func c06Field(line, tag string) string {
	i := strings.Index(line, tag)
	if i < 0 {
		return ""
	}
	rest := line[i+len(tag):]
	if j := strings.Index(rest, " "); j >= 0 && tag != " ops=" {
		return rest[:j]
	}
	return rest
}
