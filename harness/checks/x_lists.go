package checks

import (
	"encoding/json"
	"fmt"
	"hash/fnv"
	"reflect"
	"strings"
	"time"

	"github.com/enbility/spine-go/api"
	"github.com/enbility/spine-go/model"
	"github.com/enbility/spine-go/util"

	"verifharness/rig"
)

// Shared by C02, C04 and C11: one World around one list function.
//
//	local device:  [1]/1 server feature of type T holding fn (the local data store; written by a bound peer),
//	               [1]/2 client feature of type T (destination of reply/notify datagrams)
//	peer dev0:     [0]/0 node management, [1]/1 client of type T (bound to the local server, source of writes),
//	               [1]/2 server of type T (the remote data store; source of reply/notify datagrams)
//
// For the one list function registered on NodeManagement the stores are the two node management
// features themselves and there are no remote writes (the function is announced read-only).
type listWorld struct {
	w  *rig.World
	p  *rig.Peer
	li *rig.ListInfo
	T  model.FeatureTypeType

	remote     api.FeatureRemoteInterface // peer's feature holding fn
	remoteAddr *model.FeatureAddressType
	local      api.FeatureLocalInterface // local feature holding fn
	localCli   api.FeatureLocalInterface // local client feature, destination of reply/notify
	peerCli    *model.FeatureAddressType // peer's client feature, source of writes
	bound      bool

	// optional second peer dev1 with the same numbering (addPeer2)
	p2          *rig.Peer
	remote2     api.FeatureRemoteInterface
	remote2Addr *model.FeatureAddressType
}

// addPeer2 connects a second peer that announces exactly the same entity and feature numbers.
func (lw *listWorld) addPeer2() error {
	p := lw.w.AddPeer(1)
	p.Ctr = 200000
	p.Announce(listFeats(lw.T))
	lw.remote2Addr = rig.FA(p.Addr, []uint{1}, 2)
	if lw.li != nil && lw.li.FeatureType == model.FeatureTypeTypeNodeManagement {
		lw.remote2Addr = p.NM()
	}
	lw.remote2 = p.RD.FeatureByAddress(lw.remote2Addr)
	if lw.remote2 == nil || rig.IsNil(lw.remote2) {
		return fmt.Errorf("announced feature %s of the second peer does not resolve", lw.remote2Addr)
	}
	lw.p2 = p
	p.Tap.Take()
	lw.w.Core.Take()
	return nil
}

func listFeats(T model.FeatureTypeType) []rig.FS {
	return []rig.FS{rig.NMFS, {Ent: []uint{1}, Id: 1, Typ: T, Role: model.RoleTypeClient}, {Ent: []uint{1}, Id: 2, Typ: T, Role: model.RoleTypeServer}}
}

// newListWorld builds the world. T is the type of the data features (Generic holds every function).
// With bind the peer's client feature is bound to the local server feature and fn is announced writable.
func newListWorld(tag string, li *rig.ListInfo, T model.FeatureTypeType, bind bool) (*listWorld, error) {
	lw := &listWorld{w: rig.NewWorld(tag), li: li, T: T}
	e := lw.w.AddEntity(model.EntityTypeTypeCEM, []uint{1}, 4*time.Second)
	srv := e.GetOrAddFeature(T, model.RoleTypeServer) // [1]/1
	lw.localCli = e.GetOrAddFeature(T, model.RoleTypeClient)
	lw.p = lw.w.AddPeer(0)
	lw.p.Ctr = 100000
	lw.p.Announce(listFeats(T))
	lw.peerCli = rig.FA(lw.p.Addr, []uint{1}, 1)
	if li != nil && li.FeatureType == model.FeatureTypeTypeNodeManagement {
		lw.local = lw.w.Local.NodeManagement()
		lw.remoteAddr = lw.p.NM()
	} else {
		lw.local = srv
		if li != nil {
			srv.AddFunctionType(li.Fn, true, true)
		}
		lw.remoteAddr = rig.FA(lw.p.Addr, []uint{1}, 2)
	}
	lw.remote = lw.p.RD.FeatureByAddress(lw.remoteAddr)
	if lw.remote == nil || rig.IsNil(lw.remote) {
		lw.w.Close()
		return nil, fmt.Errorf("announced feature %s does not resolve", lw.remoteAddr)
	}
	if bind && lw.local == srv {
		mc := lw.p.Bind(lw.peerCli, srv.Address(), T)
		if res := rig.Classify(lw.p.Tap.Take(), mc); res.Success != 1 {
			lw.w.Close()
			return nil, fmt.Errorf("bind was not granted: %s", res)
		}
		lw.bound = true
	}
	lw.p.Tap.Take()
	lw.w.Core.Take()
	return lw, nil
}

// wire builds the datagram delivering update u with the given classifier and returns the bytes together
// with the update as a receiver decodes it (items after the JSON round trip: fidelity of the encoding is
// C18's subject and must not leak into the fold comparison).
func (lw *listWorld) wire(u rig.Update, cl model.CmdClassifierType, src, dst *model.FeatureAddressType, ack bool) ([]byte, rig.Update, model.MsgCounterType, error) {
	return lw.wireFrom(lw.p, u, cl, src, dst, ack)
}

func (lw *listWorld) wireFrom(p *rig.Peer, u rig.Update, cl model.CmdClassifierType, src, dst *model.FeatureAddressType, ack bool) ([]byte, rig.Update, model.MsgCounterType, error) {
	mc := p.NextCounter()
	// the order of the two filters of one command carries no meaning. It is drawn from the update's content and
	// not from the parity of the counter: histories that deliver every update twice (idempotence) would otherwise
	// always send the first delivery delete-first and only the repeat partial-first
	h := fnv.New32a()
	h.Write([]byte(u.String()))
	u.PartialFirst = (h.Sum32()^uint32(mc>>1))&1 == 1
	var ref *model.MsgCounterType
	if cl == model.CmdClassifierTypeReply {
		ref = util.Ptr(model.MsgCounterType(77))
	}
	b, err := json.Marshal(rig.Datagram(cl, src, dst, mc, ack, ref, lw.li.Cmd(u)))
	if err != nil {
		return nil, u, mc, err
	}
	var d model.Datagram
	if err := json.Unmarshal(b, &d); err != nil {
		return nil, u, mc, err
	}
	if len(d.Datagram.Payload.Cmd) != 1 {
		return nil, u, mc, fmt.Errorf("datagram decodes to %d commands", len(d.Datagram.Payload.Cmd))
	}
	cd, err := d.Datagram.Payload.Cmd[0].Data()
	if err != nil {
		return nil, u, mc, err
	}
	if reflect.TypeOf(cd.Value) != lw.li.PtrT {
		return nil, u, mc, fmt.Errorf("payload decodes to %T", cd.Value)
	}
	u2 := u
	u2.Items = rig.CloneItems(lw.li.Items(cd.Value))
	return b, u2, mc, nil
}

func (lw *listWorld) close() { lw.w.Close() }

// typedNil is "no data" for the function: (*XxxListDataType)(nil).
func typedNil(li *rig.ListInfo) any { return reflect.Zero(li.PtrT).Interface() }

func isUintKind(k reflect.Kind) bool {
	switch k {
	case reflect.Uint, reflect.Uint8, reflect.Uint16, reflect.Uint32, reflect.Uint64:
		return true
	}
	return false
}

// orderedByNumericId: consecutive items are non-decreasing in the leading numeric key fields
// (lexicographic; the order among items that agree on them, and behind a non-numeric key, is not fixed).
func orderedByNumericId(li *rig.ListInfo, items []reflect.Value) bool {
	for i := 1; i < len(items); i++ {
		a, b := items[i-1], items[i]
	keys:
		for _, k := range li.Keys {
			fa, fb := a.Field(k), b.Field(k)
			if fa.IsNil() || fb.IsNil() || !isUintKind(fa.Elem().Kind()) {
				break keys
			}
			x, y := fa.Elem().Uint(), fb.Elem().Uint()
			switch {
			case x < y:
				break keys
			case x > y:
				return false
			}
		}
	}
	return true
}

// duplicateId returns an identifier carried by two items ("" if none).
func duplicateId(li *rig.ListInfo, items []reflect.Value) string {
	if len(li.Keys) == 0 {
		return ""
	}
	seen := map[string]bool{}
	for _, it := range items {
		k, ok := li.KeyOf(it)
		if !ok {
			continue
		}
		if seen[k] {
			return k
		}
		seen[k] = true
	}
	return ""
}

func renderItems(items []reflect.Value) string {
	if len(items) == 0 {
		return "(empty)"
	}
	var ss []string
	for _, it := range items {
		ss = append(ss, rig.Canon(it))
	}
	return strings.Join(ss, " ; ")
}

// shapeAllowed: shapes whose meaning the statement fixes for this list type. A list type without key
// fields has no identifiers: only "replace" and "clear the named fields" are defined for it.
func shapeAllowed(li *rig.ListInfo, shape int) bool {
	if len(li.Keys) == 0 {
		return shape == 0 || shape == 5
	}
	return true
}

// genUpdate draws an update of a random applicable shape.
func genUpdate(c *rig.Ctx, li *rig.ListInfo, dom int) (rig.Update, bool) {
	for try := 0; try < 40; try++ {
		shape := c.Rand.Intn(rig.NumUpdateShapes)
		if !shapeAllowed(li, shape) {
			continue
		}
		if u, ok := li.GenUpdate(c.Rand, shape, dom); ok {
			return u, true
		}
	}
	return rig.Update{}, false
}

// featureTypeOf finds the specific (non-generic) feature type that registers fn.
func featureTypeOf(fn model.FunctionType) model.FeatureTypeType {
	for _, ft := range rig.FeatureTypes() {
		if ft == model.FeatureTypeTypeGeneric {
			continue
		}
		for _, f := range rig.FunctionsOf(ft) {
			if f.Fn == fn {
				return ft
			}
		}
	}
	return model.FeatureTypeTypeGeneric
}
