package checks

import (
	"fmt"
	"reflect"

	"github.com/enbility/spine-go/model"

	"verifharness/rig"
)

// C04, two further input dimensions of "all write shapes a peer can send" and of "histories".
//
// 1. The BARE delete filter: {cmdControl:{delete:{}}} with neither a selector nor elements (optionally with a
//    filterId). It can stand alone next to an empty function element, next to data without a partial filter, and
//    next to every kind of partial part (identifiers, identifier-less, selector). What such a filter addresses is
//    not said by the statement (nothing / all data of the function are both defensible), so the write counts as
//    addressing every element — (c) and (d) are then not demanded — and (f) accepts both readings: the fold of the
//    rest of the write on the list as it was, or on the emptied list. (a) protected elements stay, (b) flags stay,
//    (e) error result => exactly unchanged are demanded as for any other write.
//
// 2. IDENTIFIERS IN THE DATA OF A SELECTOR WRITE (shape selector+ids): the item of a selector write carries the
//    identifiers of another element, of the selected element or of no element. The write addresses the selected
//    element and the one whose identifiers it names. What an accepted write of this kind leaves behind is not
//    fixed by the statement ((f) is applied only if the item names the selected element itself); the stack renumbers
//    the selected element, so that the list afterwards may hold SEVERAL ELEMENTS WITH THE SAME IDENTIFIERS. The
//    history goes on from that state (it is extended by one write whenever the list holds such elements): the
//    element-level clauses are therefore judged on a matching of the elements before and after a write that does
//    not assume unique identifiers (c04Match), and (f) is not applied when the write addresses an element whose
//    identifiers are not unique (which of them a partial write means is not said).

// c04GenBare draws a write with a bare delete filter.
func c04GenBare(c *rig.Ctx, li *rig.ListInfo, shape string, old []reflect.Value, ids []int) (w c04Write, ok bool) {
	r := c.Rand
	w = c04Write{shape: shape, addressed: map[int]bool{}, u: rig.Update{SelKey: -1, DelSel: -1}, selIds: -1, bare: true, all: true}
	subset := func() []int {
		k := 1 + r.Intn(len(ids))
		s := append([]int(nil), ids...)
		r.Shuffle(len(s), func(a, b int) { s[a], s[b] = s[b], s[a] })
		return s[:k]
	}
	switch shape {
	case "delete-bare":
		w.u.Kind = "delete-bare" // no partial filter, empty function element
	case "delete-bare+data":
		w.u.Kind = "delete-bare" // no partial filter, data with identifiers
		for _, id := range subset() {
			w.u.Items = append(w.u.Items, c04Item(c, li, id))
		}
	case "delete-bare+partial-ids":
		w.u.Kind = "del+partial"
		for _, id := range subset() {
			w.u.Items = append(w.u.Items, c04Item(c, li, id))
		}
	case "delete-bare+noid":
		w.u.Kind = "del+noid"
		w.u.Items = []reflect.Value{c04Item(c, li, -1)}
	case "delete-bare+selector":
		if !li.SelCoversKeys {
			return w, false
		}
		w.u.Kind, w.u.SelKey = "del+sel", ids[r.Intn(len(ids))]
		w.u.Items = []reflect.Value{c04Item(c, li, -1)}
	default:
		return w, false
	}
	fp, fd, fok := li.Filters(w.u)
	if !fok || fd != nil || (fp != nil) != (w.u.Kind != "delete-bare") {
		return w, false
	}
	return w, true
}

// c04AddBareDelete puts the bare delete filter onto the command built for the rest of the write.
func c04AddBareDelete(li *rig.ListInfo, cmd *model.CmdType, partialFirst bool) {
	fn := li.Fn
	cmd.Function = &fn
	bare := model.FilterType{CmdControl: &model.CmdControlType{Delete: &model.ElementTagType{}}}
	if partialFirst { // the content-derived bit of c04Wire doubles as "the filter carries a filterId"
		id := model.FilterIdType(1)
		bare.FilterId = &id
	}
	if partialFirst {
		cmd.Filter = append(cmd.Filter, bare)
	} else {
		cmd.Filter = append([]model.FilterType{bare}, cmd.Filter...)
	}
}

// c04CheckBareDecoded: the receiver decodes a delete filter that names no selector and no elements.
func c04CheckBareDecoded(cmd *model.CmdType) error {
	_, fd := cmd.ExtractFilter()
	if fd == nil {
		return fmt.Errorf("the bare delete filter does not arrive as a delete filter")
	}
	v := reflect.ValueOf(fd).Elem()
	for i := 0; i < v.NumField(); i++ {
		n := v.Type().Field(i).Name
		if n == "CmdControl" || n == "FilterId" {
			continue
		}
		if f := v.Field(i); f.Kind() == reflect.Ptr && !f.IsNil() {
			return fmt.Errorf("the bare delete filter arrives with %s", n)
		}
	}
	return nil
}

// c04BareFolds: the states the statement allows after an accepted write with a bare delete filter.
func c04BareFolds(li *rig.ListInfo, pre []reflect.Value, ur rig.Update) [][]reflect.Value {
	rest := ur
	if rest.Kind == "delete-bare" {
		if len(rest.Items) == 0 {
			return [][]reflect.Value{pre, nil}
		}
		rest.Kind = "partial"
	}
	return c04Dedup(li, [][]reflect.Value{li.RefApply(pre, rest), li.RefApply(nil, rest)})
}

// c04Match pairs every element of pre with an element of got that has the same identifiers (-1: none left), without
// assuming that identifiers are unique: within a group of equal identifiers elements that are found unchanged are
// paired first, then those that differ in the flag only, then the rest; protected elements choose first in every
// round (so that a deviation is reported only if no pairing avoids it). With unique identifiers this is the
// pairing by identifier.
func c04Match(li *rig.ListInfo, pre, got []reflect.Value) []int {
	m := make([]int, len(pre))
	for i := range m {
		m[i] = -1
	}
	used := make([]bool, len(got))
	order := make([]int, 0, len(pre))
	for i, o := range pre {
		if !c04Changeable(li, o) {
			order = append(order, i)
		}
	}
	for i, o := range pre {
		if c04Changeable(li, o) {
			order = append(order, i)
		}
	}
	noFlag := func(v reflect.Value) string { return rig.Canon(c04NoFlag(li, []reflect.Value{v})[0]) }
	for round := 0; round < 3; round++ {
		for _, i := range order {
			if m[i] >= 0 {
				continue
			}
			o := pre[i]
			for j, g := range got {
				if used[j] || c04Key(li, g) != c04Key(li, o) {
					continue
				}
				if (round == 0 && rig.Canon(g) != rig.Canon(o)) || (round == 1 && noFlag(g) != noFlag(o)) {
					continue
				}
				m[i], used[j] = j, true
				break
			}
		}
	}
	return m
}

// c04DupKeys: the identifiers (rendered) carried by more than one element of the list.
func c04DupKeys(li *rig.ListInfo, items []reflect.Value) map[string]bool {
	n := map[string]int{}
	for _, it := range items {
		n[c04Key(li, it)]++
	}
	d := map[string]bool{}
	for k, c := range n {
		if c > 1 {
			d[k] = true
		}
	}
	return d
}

// c04AddressesDup: the write addresses an element of pre whose identifiers are not unique.
func c04AddressesDup(li *rig.ListInfo, w *c04Write, pre []reflect.Value) bool {
	d := c04DupKeys(li, pre)
	if len(d) == 0 {
		return false
	}
	for _, it := range pre {
		if d[c04Key(li, it)] && w.addresses(li, it) {
			return true
		}
	}
	return false
}
