package checks

import (
	"encoding/json"
	"fmt"
	"reflect"
	"runtime"
	"sort"
	"strings"
	"sync"
	"sync/atomic"
	"time"

	"github.com/enbility/spine-go/api"
	"github.com/enbility/spine-go/model"
	"github.com/enbility/spine-go/spine"
	"github.com/enbility/spine-go/util"

	"verifharness/rig"
)

// C14 — response and result callbacks fire exactly once for the right message.
//
// One case = one World (local client features A: Measurement [1]/1 and B: ElectricalConnection [1]/2,
// server feature S: Measurement [1]/3, NodeManagement; two identically numbered peers) and a seeded
// history of callback registrations, result-callback registrations and arriving replies/results.
// Every registered callback is a closure with its own registration id that logs
// (registration, MsgCounterReference, FeatureLocal, FeatureRemote address + SKI, fingerprint of Data).
//
// Reference (written from the statement): per local feature a map counter -> pending registrations,
// consumed by the first ACCEPTED reply (function belongs to the type of the source feature) or result
// with an error number that references the counter and arrives at that feature, from whichever peer;
// per feature a list of result callbacks, each due once per referenced result arriving there. After
// every arrival the process is awaited quiet (goroutine count) and the new invocations are compared,
// as multisets, with what the reference says is due for that arrival.
//
// Received data. A reply may carry a restricted data set (cmd.function + filter): a partial list, a partial
// item for a selector, a delete selector. Once the cache of the answering remote feature holds a full list
// (2-3 items from an earlier accepted reply), half of the accepted replies are of these kinds; the callback
// must see exactly the data set of THAT reply, not what the cache holds after merging it.
//
// Unchanged data. A request may be answered with exactly what the stack has cached already (polling): every
// third acceptable reply for a peer feature whose last accepted reply was a full one repeats that reply's content
// verbatim for a fresh counter with registered callbacks. The reply is accepted like any other, so the callbacks
// are due exactly once, with that data (all other replies carry a unique payload number and never repeat content).
//
// Other peers. A third, bystander peer (announced, same numbering) never answers anything; it is
// disconnected (RemoveRemoteDeviceConnection) and reconnected at drawn points of the history, between
// registrations and arrivals and (racing cases) concurrently with them; now and then it announces the removal
// of its entity and adds it again. What the statement promises for a
// counter does not depend on what other peers do: every registration still fires exactly once.
//
// Other kinds of messages. A notify, read, write or call message may carry a msgCounterReference as well (7% of the
// steps, mostly the counter of a pending registration of its destination): it is neither a reply nor a result, so
// nothing fires and nothing is consumed. Replies also reach the server feature S (from the peer's client feature).
// An ANSWERING peer may announce its entity anew before it answers: the callback must be handed the feature (and
// entity) object the device holds at that moment (checked inside the callback through the entity tree).
// Overlapping arrivals (c14Storm, racing cases): both peers deliver matching messages for the same counters at the same
// time while other counters and result callbacks are being registered. Re-entrant callbacks: part "reentrant" below.
//
// "Different function" means a different function literal: the stack compares code pointers, so two
// closures of ONE literal count as the same function (see the report); the harness therefore keeps four
// literals and never registers two closures of one literal for one counter on one feature, except as
// the deliberate duplicate that must be refused.

func init() {
	pick := func(q, t int) func(rig.Tier) int {
		return func(tier rig.Tier) int {
			if tier == rig.Thorough {
				return t
			}
			return q
		}
	}
	rig.Register(&rig.Check{
		ID:    "C14",
		Floor: 100,
		Rule: "case = seeded history of 14-40 steps over 4 local features x 1-4 counters x 4 callback functions x 2 peers: the counters are obtained at the start in a drawn way {made-up number; local feature X (A, B or S) reads through RequestRemoteData from peer0 AND peer1 in drawn order - identical numbering of the two connections, both requests return the same counter; X reads from one peer and another local feature from the other one; X reads from one peer only}; register (every third callback is a method value of a handler object, the others closures; 15% deliberate duplicates: the same func value, or - every second one - the same callback as a func value that came about anew: the method value of the same object evaluated again / the same literal over the same captured state built again), register result callback, arrival {reply|result} x {matching, non-matching, repeated, missing reference} x " +
			"{own, foreign function} x {wire, direct HandleMessage for the missing reference}; accepted replies carry a full list of 1-3 items or, once the cache of the answering feature holds 2-3 items, every second time a restricted data set (partial list, partial item + selector, delete selector) and the callback must see the data set of that reply; every third acceptable reply for a feature whose cache holds a known full data set REPEATS that data set verbatim (same function, same items; polling unchanged data) for a counter with 1-2 registered callbacks, which must fire exactly once with that data; " +
			"a third, bystander peer is disconnected/reconnected (or announces the removal of its entity and adds it again) at 8% of the steps (and is disconnected concurrently with every third racing arrival); every third case additionally races registrations against the arrival of a matching message (each followed by a second matching message) and registers 2-6 callbacks for one counter concurrently (different functions and one function value from several goroutines, followed by a matching and a repeated message). " +
			"A case is non-trivial if at least one callback invocation, one refused duplicate registration (or one concurrent registration duel) and one arrival that must not fire anything were judged; distinct = distinct step-shape sequences (hash; payload values excluded). " +
			"Other classifiers: 7% of the steps deliver a notify / read / write / call message from peer0 or peer1 to A, B, S or NodeManagement that carries a msgCounterReference (four times out of five that of a pending registration of the destination feature): nothing may be invoked, the registration stays due. Replies also go to the server feature S (one in five; answered by the peer's client feature [1]/3); at 2% of the steps an ANSWERING peer announces the removal of its entity and adds it again (new entity and feature objects): pending registrations stay due and the callback must be handed the feature object the device holds then, with its entity. " +
			"Racing cases end with a storm of overlapping arrivals: peer0 and peer1 each deliver one matching message (reply or result) for the same 10 fresh counters (2-3 registrations each) at the same time (spinning start line, re-aligned per counter) while a third goroutine registers 2 callbacks each for 10 other counters and 3 goroutines add 4 result callbacks each; every registration exactly once with one of its two messages, earlier result callbacks once per result, concurrently added ones at most once per result; then one matching result per other counter: each registration made meanwhile once, every result callback (the 12 concurrent ones included) once per result. " +
			"reentrant: case = 1-3 callbacks for counter N on one feature of which 1-2 call back into the stack when invoked (drawn plans: AddResponseCallback for another counter on the own feature with a callback that itself registers a third counter, for the SAME counter, on another feature; AddResultCallback on the own / another feature; every second case a result callback that registers a response callback), then matching messages for N, for the counters registered from inside, N again, and a final sweep; every registration made from inside a callback must be accepted and fire exactly once with the next matching message; a delivery that does not return or a process that does not become quiet is a violation only if goroutine dumps show a standstill (every goroutine of the stack waits for a lock), otherwise inconclusive. Non-trivial if at least one registration was made from inside a callback and one invocation was judged. " +
			"blocked: case = 1-3 callbacks for counter N on one feature of which 1-2 do not return (they park on a harness gate), registered in a drawn order, plus callbacks for N on another feature and for another counter; a first matching reply/result; then, while the callbacks are parked, a drawn window of 1-7 operations {second message referencing N (result after reply, reply after result, same kind; same or other identically numbered peer), registration of a further function for N, message for another counter/feature with pending callbacks, unregistered reference}, each judged when the process is quiet except for the parked callbacks; the gate is opened at the logical end, then optionally the reference once more and one matching result for every pending registration. Non-trivial if a callback was parked, at least one window operation was judged and at least one invocation was judged.",
		Assumptions: []string{
			"acceptance of a reply is predicted as in C01: the function belongs to the type of the source feature and the payload is a plain full list",
			"callbacks are keyed by local feature and counter only (the statement names no peer): a message of either peer referencing the counter consumes the registration, and the callback must then see that peer's feature",
			"the same callback = the same func value, the same method of the same object (method value evaluated anew for each registration) or the same function literal over the same captured variables (closure built anew by the same code): all three denote one callback and a second registration for the counter must be refused (the unchanged stack compares code pointers and refuses all three). Two closures of one literal over DIFFERENT state are never registered for one counter (the statement does not say whether they are 'the same')",
			"where a counter comes from (made up, returned by a request of this feature to one or to both identically numbered peers, returned by a request of another feature) changes nothing in what the statement promises for a registration: the first accepted reply / result referencing the counter that arrives at the feature serves it, with that message's data and remote feature",
			"a result without error number is not generated (malformed; the statement is silent)",
			"'the received data' of a reply is the data set that reply carries (as decoded), also when the reply carries a partial or delete filter: not the content of the cache after the reply was merged into it",
			"the statement names no disconnects: what it promises for a counter holds whatever other peers do, so the disconnect of a bystander peer (one that was sent no request) must not cancel any registration",
			"for a racing registration both 'invoked by the racing message' and 'left pending, invoked by the follow-up message' are accepted; never twice, never not at all",
			"a notify, read, write or call message is neither 'an accepted reply' nor 'a result', whatever msgCounterReference its header carries: it invokes nothing and consumes nothing",
			"a reply that arrives at a local SERVER feature (S) from the peer's client feature of the same type is accepted like any other (the function belongs to the type of the source feature): the statement speaks of 'a local feature', not of a role. NodeManagement is sent results only",
			"overlapping arrivals: when two matching messages for one counter are processed at the same time either may serve a registration (all registrations of the counter need not be served by the same one); a result callback added while a result message is being dispatched may or may not be invoked for that message (at most once) and must be invoked for every later one",
			"reentrant part: a registration made from inside a callback for the counter whose message is being served is a new registration (the earlier one was consumed by the arrival that invoked the callback): due with the NEXT matching message, never with the current one",
			"quiescence = goroutine count back at the idle baseline (callbacks run on goroutines spawned by the stack); watchdog expiry is inconclusive",
			"blocked part: what the statement promises does not depend on callbacks returning. While a callback invoked for counter N is parked (it returns only when the harness opens its gate at the logical end of the window): a further message referencing N must not invoke it or its siblings again (the registration was consumed by the first arrival); a function registered for N in that window is a new registration - it must not be refused (different function), is never invoked with the message that arrived before it was registered and is invoked exactly once with the next message referencing N; callbacks due with ANOTHER message (another counter, another feature, or a later message for N that serves a registration made during the window) are due when that message arrives and must have been invoked once the process is quiet (goroutine count = baseline + parked callbacks) or at a standstill (a goroutine dump shows every goroutine of the stack waiting for a lock and the rest parked in the gate, three times in a row: nothing can happen before the gate is opened): they must not wait for the parked callback to return",
			"blocked part, not judged: WHEN the siblings of a parked callback (the other callbacks of the same message) are invoked - an implementation may invoke the callbacks of one message one after the other; they are owed and must have been invoked exactly once when the gate has been opened and the process is quiet. Registering the parked callback's own function value again during the window is not generated (the statement does not say whether a consumed registration still counts for 'twice'). If the delivery itself does not return while a callback is parked the case is inconclusive (the statement does not demand asynchronous invocation)",
		},
		Parts: []rig.Part{
			{Name: "histories", Cases: pick(300, 6000), Run: c14Case, Procs: 8},
			{Name: "histories-race", Race: true, Cases: pick(45, 500), Run: func(c *rig.Ctx) { c14Run(c, true) }, Quiet: 120 * time.Second, Procs: 8},
			{Name: "blocked", Cases: pick(120, 1500), Run: c14BlockedCase, Quiet: 120 * time.Second, Procs: 8},
			{Name: "reentrant", Cases: pick(90, 1200), Run: c14ReentrantCase, Quiet: 120 * time.Second, Procs: 8},
		},
	})
}

// four different function literals (different code pointers); each closure carries its registration
func c14F0(l *c14Log, reg int) func(api.ResponseMessage) {
	return func(m api.ResponseMessage) { l.rec(reg, 0, m) }
}
func c14F1(l *c14Log, reg int) func(api.ResponseMessage) {
	return func(m api.ResponseMessage) { l.rec(reg, 1, m) }
}
func c14F2(l *c14Log, reg int) func(api.ResponseMessage) {
	return func(m api.ResponseMessage) { l.rec(reg, 2, m) }
}
func c14F3(l *c14Log, reg int) func(api.ResponseMessage) {
	return func(m api.ResponseMessage) { l.rec(reg, 3, m) }
}
func c14FR(l *c14Log, reg int) func(api.ResponseMessage) {
	return func(m api.ResponseMessage) { l.rec(reg, 9, m) }
}

var c14Fns = []func(*c14Log, int) func(api.ResponseMessage){c14F0, c14F1, c14F2, c14F3}

type c14Inv struct {
	reg  int
	what string // "ref=<n> local=<addr> from=<ski>/<addr> data=<json>"
}

type c14Log struct {
	mu   sync.Mutex
	invs []c14Inv
}

func (l *c14Log) rec(reg, fn int, m api.ResponseMessage) {
	from, local := "?", "?"
	if m.FeatureRemote != nil && m.FeatureRemote.Device() != nil {
		from = m.FeatureRemote.Device().Ski() + "/" + m.FeatureRemote.Address().String()
	}
	if m.DeviceRemote != nil && m.FeatureRemote != nil && m.FeatureRemote.Device() != nil && m.DeviceRemote.Ski() != m.FeatureRemote.Device().Ski() {
		from += "(DeviceRemote=" + m.DeviceRemote.Ski() + ")"
	}
	if m.FeatureLocal != nil {
		local = m.FeatureLocal.Address().String()
	}
	// "the originating remote feature": the feature object the device holds at that address NOW (an answering peer may
	// have announced its entity anew before it answered), together with its entity
	if m.FeatureRemote != nil && m.FeatureRemote.Device() != nil {
		// looked up through the entity tree, not through the accessor the stack itself uses to resolve a source address
		var cur api.FeatureRemoteInterface
		var curEnt api.EntityRemoteInterface
		if fa := m.FeatureRemote.Address(); fa != nil {
			if curEnt = m.FeatureRemote.Device().Entity(fa.Entity); curEnt != nil {
				cur = curEnt.FeatureOfAddress(fa.Feature)
			}
		}
		if cur != m.FeatureRemote {
			from += "(FeatureRemote is NOT the feature object the device holds at this address)"
		}
		if m.EntityRemote != nil && curEnt != nil && m.EntityRemote != curEnt {
			from += "(EntityRemote is NOT the entity object the device holds at this address)"
		}
		switch {
		case m.EntityRemote == nil:
			from += "(EntityRemote=nil)"
		case m.EntityRemote != m.FeatureRemote.Entity():
			from += "(EntityRemote=" + m.EntityRemote.Address().String() + " is NOT the entity of FeatureRemote)"
		}
	}
	s := fmt.Sprintf("ref=%d local=%s from=%s data=%s", m.MsgCounterReference, local, from, rig.JS(m.Data))
	l.mu.Lock()
	l.invs = append(l.invs, c14Inv{reg, s})
	l.mu.Unlock()
}

func (l *c14Log) take() []c14Inv {
	l.mu.Lock()
	defer l.mu.Unlock()
	r := l.invs
	l.invs = nil
	return r
}

type c14Reg struct {
	id, feat, fn int
	ctr          model.MsgCounterType
	f            func(api.ResponseMessage)
	h            *c14H // set if the callback is a method value of a handler object
	racing       bool
	acrossDrop   bool // was pending when the bystander peer was disconnected
}

type c14World struct {
	c        *rig.Ctx
	w        *rig.World
	feats    []api.FeatureLocalInterface // A, B, S, NM
	names    []string
	log      *c14Log
	baseline int
	pending  []map[model.MsgCounterType][]*c14Reg // per feature
	consumed []map[model.MsgCounterType]bool      // counters that had registrations consumed (for "repeated")
	results  [][]int                              // per feature: registration ids of result callbacks
	nextReg  int
	trace    []string
	shape    []string
	nArr     int
	duels    int

	// lower bound of the number of items (ids 1..n) the cache of a peer's feature holds for a function,
	// keyed by peer/source feature/function (maintained from the accepted replies injected so far)
	cached map[string]int
	// (payload number, items) of the full data set the cache of a peer's feature holds exactly, as far as the
	// harness knows: the last accepted reply for that key was a full one (same keys as cached)
	lastFull map[string][2]int
	repeats  int
	// the bystander peer
	by       *rig.Peer
	byUp     bool
	byDrops  int
	partials int
	optional map[string]int // see settle
	// where the counters of the history come from (x_c14req.go)
	prov map[model.MsgCounterType]*c14Prov
}

func c14PeerFeats() []rig.FS {
	return []rig.FS{rig.NMFS,
		{Ent: []uint{1}, Id: 1, Typ: model.FeatureTypeTypeMeasurement, Role: model.RoleTypeServer},
		{Ent: []uint{1}, Id: 2, Typ: model.FeatureTypeTypeElectricalConnection, Role: model.RoleTypeServer},
		{Ent: []uint{1}, Id: 3, Typ: model.FeatureTypeTypeMeasurement, Role: model.RoleTypeClient}}
}

func c14Settle() int {
	last, same := runtime.NumGoroutine(), 0
	for i := 0; i < 2000 && same < 5; i++ {
		time.Sleep(200 * time.Microsecond)
		n := runtime.NumGoroutine()
		if n == last {
			same++
		} else {
			last, same = n, 0
		}
	}
	return last
}

func newC14World(c *rig.Ctx) *c14World {
	cw := &c14World{c: c, w: rig.NewWorld(c.Tag()), log: &c14Log{}}
	e := cw.w.AddEntity(model.EntityTypeTypeCEM, []uint{1}, 4*time.Second)
	a := e.GetOrAddFeature(model.FeatureTypeTypeMeasurement, model.RoleTypeClient)
	b := e.GetOrAddFeature(model.FeatureTypeTypeElectricalConnection, model.RoleTypeClient)
	s := e.GetOrAddFeature(model.FeatureTypeTypeMeasurement, model.RoleTypeServer)
	s.AddFunctionType(model.FunctionTypeMeasurementListData, true, false)
	cw.feats = []api.FeatureLocalInterface{a, b, s, cw.w.Local.NodeManagement()}
	cw.names = []string{"A", "B", "S", "NM"}
	for range cw.feats {
		cw.pending = append(cw.pending, map[model.MsgCounterType][]*c14Reg{})
		cw.consumed = append(cw.consumed, map[model.MsgCounterType]bool{})
		cw.results = append(cw.results, nil)
	}
	for i := 0; i < 3; i++ {
		p := cw.w.AddPeer(i)
		p.Ctr = uint64(100000 * (i + 1))
		p.Announce(c14PeerFeats())
		p.Tap.Take()
	}
	cw.by, cw.byUp = cw.w.Peers[2], true
	cw.cached = map[string]int{}
	cw.lastFull = map[string][2]int{}
	cw.baseline = c14Settle()
	return cw
}

// byConnect sets up a new connection for the bystander peer and announces its features (so that the
// device has an address when it is disconnected the next time).
func (cw *c14World) byConnect() {
	p := cw.by
	p.Tap = &rig.Tap{}
	cw.w.Local.SetupRemoteDevice(p.Ski, p.Tap)
	p.RD = cw.w.Local.RemoteDeviceForSki(p.Ski)
	p.Announce(c14PeerFeats())
	p.Tap.Take()
}

// bystander disconnects the bystander peer, reconnects it, or both ("flap"). Called at quiet points.
func (cw *c14World) bystander(op string) {
	drop := func() {
		cw.w.Local.RemoveRemoteDeviceConnection(cw.by.Ski)
		cw.byUp = false
		cw.byDrops++
		n := 0
		for f := range cw.pending {
			for _, rgs := range cw.pending[f] {
				for _, rg := range rgs {
					rg.acrossDrop = true
					n++
				}
			}
		}
		cw.c.Count("bystander-disconnects", 1)
		if n > 0 {
			cw.c.Count("bystander-disconnects-with-pending-callbacks", 1)
		}
		cw.logf("bystander peer %s disconnected (%d registrations pending)", cw.by.Addr, n)
	}
	connect := func() {
		cw.byConnect()
		cw.byUp = true
		cw.c.Count("bystander-reconnects", 1)
		cw.logf("bystander peer %s reconnected and announced", cw.by.Addr)
	}
	switch {
	case op == "entity" && cw.byUp:
		// the connected bystander announces that its entity [1] was removed, and then announces it again
		n := 0
		for f := range cw.pending {
			for _, rgs := range cw.pending[f] {
				n += len(rgs)
			}
		}
		cw.by.NotifyDiscovery(true, cw.by.Discovery(nil, nil, [][]uint{{1}}))
		gone := cw.by.RD.Entity(rig.EA("", []uint{1}).Entity) == nil
		cw.by.NotifyDiscovery(true, cw.by.Discovery(c14PeerFeats()[1:], map[string]model.NetworkManagementStateChangeType{"[1]": model.NetworkManagementStateChangeTypeAdded}, nil))
		cw.by.Tap.Take()
		if gone {
			cw.c.Count("bystander-entity-removals", 1)
		}
		cw.logf("bystander peer %s announced the removal of its entity [1] (removed=%v, %d registrations pending) and added it again", cw.by.Addr, gone, n)
	case op == "flap" && cw.byUp:
		drop()
		connect()
	case cw.byUp:
		drop()
	default:
		connect()
	}
	cw.c.Events(1)
	cw.baseline = c14Settle()
}

func (cw *c14World) logf(f string, a ...any) {
	if len(cw.trace) < 300 {
		cw.trace = append(cw.trace, fmt.Sprintf(f, a...))
	}
}

func (cw *c14World) viol(sig, f string, a ...any) {
	cw.c.Violate(sig, "%s\nhistory:\n%s", fmt.Sprintf(f, a...), strings.Join(cw.trace, "\n"))
}

// register adds a response callback and judges the return value.
func (cw *c14World) register(feat int, ctr model.MsgCounterType, fn int) (dup bool) {
	for _, rg := range cw.pending[feat][ctr] {
		if rg.fn == fn {
			dup = true
		}
	}
	cw.nextReg++
	rg := &c14Reg{id: cw.nextReg, feat: feat, fn: fn, ctr: ctr}
	how := "closure"
	if cw.c.Rand.Intn(3) == 0 {
		// a method value of a handler object
		rg.h = &c14H{l: cw.log, reg: rg.id}
		rg.f = rg.h.fn(fn)
		how = "method-value"
	} else {
		rg.f = c14Fns[fn](cw.log, rg.id)
	}
	if dup {
		// the SAME callback again: the same func value, or - as code that registers a method of an object or builds its
		// closure where it registers it does - a func value that came about anew for the same callback (same method of the
		// same object / same function literal over the same captured state)
		for _, old := range cw.pending[feat][ctr] {
			if old.fn == fn {
				rg.f, rg.h = old.f, old.h
				how = "same-func-value"
				if cw.c.Rand.Intn(2) == 0 {
					if old.h != nil {
						rg.f = old.h.fn(fn)
						how = "method-value-of-the-same-object-evaluated-anew"
					} else {
						rg.f = c14Fns[fn](cw.log, old.id)
						how = "closure-built-anew-by-the-same-code-over-the-same-state"
					}
				}
				break
			}
		}
		cw.c.Count("duplicate-registrations:"+how, 1)
		cw.c.Seen("duplicate_kinds", how)
	} else {
		cw.c.Count("registrations:"+how, 1)
	}
	err := cw.feats[feat].AddResponseCallback(ctr, rg.f)
	cw.c.Events(1)
	cw.logf("register #%d on %s counter %d function F%d as %s (duplicate=%v) -> err=%v", rg.id, cw.names[feat], ctr, fn, how, dup, err)
	switch {
	case dup && err == nil:
		cw.viol("register/same-callback-twice-accepted", "the same callback (%s) was registered twice on %s for counter %d without an error", how, cw.names[feat], ctr)
		cw.pending[feat][ctr] = append(cw.pending[feat][ctr], rg) // the stack holds it twice now
	case !dup && err != nil:
		cw.viol("register/different-callback-refused", "registration of F%d on %s for counter %d was refused (%v); pending there: %s", fn, cw.names[feat], ctr, err, cw.pendingStr(feat, ctr))
	case !dup:
		cw.pending[feat][ctr] = append(cw.pending[feat][ctr], rg)
	}
	if dup {
		cw.c.Count("refused-duplicates-judged", 1)
	}
	return dup
}

func (cw *c14World) pendingStr(feat int, ctr model.MsgCounterType) string {
	var s []string
	for _, rg := range cw.pending[feat][ctr] {
		s = append(s, fmt.Sprintf("#%d:F%d", rg.id, rg.fn))
	}
	return "[" + strings.Join(s, " ") + "]"
}

func (cw *c14World) registerResult(feat int) {
	cw.nextReg++
	id := cw.nextReg
	cw.feats[feat].AddResultCallback(c14FR(cw.log, id))
	cw.results[feat] = append(cw.results[feat], id)
	cw.logf("register result callback #%d on %s", id, cw.names[feat])
}

// reannounce: the ANSWERING peer pi announces the removal of its entity [1] and adds it again (at a quiet point). The
// device then holds new entity and feature objects (with empty caches) at the same addresses; registrations are keyed by
// local feature and counter, so every pending registration stays due, and a later answer of this peer must be handed
// over with the feature object the device holds then.
func (cw *c14World) reannounce(pi int) {
	p := cw.w.Peers[pi]
	before := p.RD.FeatureByAddress(rig.FA(p.Addr, []uint{1}, 1))
	p.NotifyDiscovery(true, p.Discovery(nil, nil, [][]uint{{1}}))
	gone := p.RD.Entity(rig.EA("", []uint{1}).Entity) == nil
	p.NotifyDiscovery(true, p.Discovery(c14PeerFeats()[1:], map[string]model.NetworkManagementStateChangeType{"[1]": model.NetworkManagementStateChangeTypeAdded}, nil))
	p.Tap.Take()
	after := p.RD.FeatureByAddress(rig.FA(p.Addr, []uint{1}, 1))
	n := 0
	for f := range cw.pending {
		for _, rgs := range cw.pending[f] {
			n += len(rgs)
		}
	}
	for k := range cw.cached {
		if strings.HasPrefix(k, fmt.Sprintf("%d/", pi)) {
			delete(cw.cached, k)
		}
	}
	for k := range cw.lastFull {
		if strings.HasPrefix(k, fmt.Sprintf("%d/", pi)) {
			delete(cw.lastFull, k)
		}
	}
	cw.c.Events(1)
	if gone && after != nil && after != before {
		cw.c.Count("answering-peer-announced-its-entity-anew(new-feature-objects)", 1)
		if n > 0 {
			cw.c.Count("answering-peer-announced-its-entity-anew-with-pending-callbacks", 1)
		}
	}
	cw.logf("answering peer%d announced the removal of its entity [1] (removed=%v) and added it again (new feature objects=%v, %d registrations pending)", pi, gone, after != nil && after != before, n)
	cw.baseline = c14Settle()
}

// otherClassifier delivers a notify / read / write / call message that carries a msgCounterReference - mostly that
// of a pending registration of the destination feature. The statement names "an accepted reply or a result referencing
// that counter": no other kind of message fires (or consumes) anything, whatever its header references; the
// registration stays due with the next matching reply or result (the model keeps it pending, so the later arrivals
// and the final sweep of the case demand it).
func (cw *c14World) otherClassifier(ctrs []model.MsgCounterType) bool {
	r := cw.c.Rand
	type slot struct {
		f  int
		ct model.MsgCounterType
	}
	var pend []slot
	for f := range cw.feats {
		for _, ct := range ctrs {
			if len(cw.pending[f][ct]) > 0 {
				pend = append(pend, slot{f, ct})
			}
		}
	}
	f, ct, refKind := r.Intn(4), ctrs[r.Intn(len(ctrs))], "any"
	if len(pend) > 0 && r.Intn(5) > 0 {
		sl := pend[r.Intn(len(pend))]
		f, ct, refKind = sl.f, sl.ct, "pending"
	} else if len(cw.pending[f][ct]) > 0 {
		refKind = "pending"
	}
	cl := []model.CmdClassifierType{model.CmdClassifierTypeNotify, model.CmdClassifierTypeNotify, model.CmdClassifierTypeRead, model.CmdClassifierTypeWrite, model.CmdClassifierTypeCall}[r.Intn(5)]
	pi := r.Intn(2)
	p := cw.w.Peers[pi]
	src := p.NM()
	if f < 3 {
		src = rig.FA(p.Addr, []uint{1}, uint(f+1))
	}
	cw.nArr++
	n := 1000*cw.nArr + r.Intn(1000)
	var cmd model.CmdType
	switch {
	case f == 3 && cl == model.CmdClassifierTypeCall:
		cmd = model.CmdType{NodeManagementSubscriptionRequestCall: &model.NodeManagementSubscriptionRequestCallType{SubscriptionRequest: &model.SubscriptionManagementRequestCallType{
			ClientAddress: rig.FA(p.Addr, []uint{1}, 3), ServerAddress: cw.feats[2].Address(), ServerFeatureType: util.Ptr(model.FeatureTypeTypeMeasurement)}}}
	case f == 3:
		cmd = model.CmdType{NodeManagementUseCaseData: &model.NodeManagementUseCaseDataType{}}
	case cl == model.CmdClassifierTypeRead || (f == 2 && cl == model.CmdClassifierTypeWrite):
		cmd = model.CmdType{MeasurementListData: &model.MeasurementListDataType{}}
		if f == 1 {
			cmd = model.CmdType{ElectricalConnectionDescriptionListData: &model.ElectricalConnectionDescriptionListDataType{}}
		}
	case f == 1:
		// a function of the source feature's type that no reply of this check carries: the caches the replies work on stay as they are
		cmd = model.CmdType{ElectricalConnectionParameterDescriptionListData: &model.ElectricalConnectionParameterDescriptionListDataType{
			ElectricalConnectionParameterDescriptionData: []model.ElectricalConnectionParameterDescriptionDataType{{ElectricalConnectionId: util.Ptr(model.ElectricalConnectionIdType(1)), ParameterId: util.Ptr(model.ElectricalConnectionParameterIdType(n % 50))}}}}
	default:
		cmd = model.CmdType{MeasurementDescriptionListData: &model.MeasurementDescriptionListDataType{
			MeasurementDescriptionData: []model.MeasurementDescriptionDataType{{MeasurementId: util.Ptr(model.MeasurementIdType(1)), Label: util.Ptr(model.LabelType(fmt.Sprintf("n%d", n)))}}}}
	}
	ack := r.Intn(3) == 0
	cw.shape = append(cw.shape, fmt.Sprintf("oc-%s%d%s%v", cl, f, refKind[:3], ack))
	cw.c.Seen("other_classifier_classes", fmt.Sprintf("%s/to=%s/reference=%s", cl, cw.names[f], refKind))
	cw.logf("arrival of a %s from peer%d %s to %s carrying msgCounterReference %d (%s; pending there: %s) -> nothing is due", cl, pi, src, cw.names[f], ct, refKind, cw.pendingStr(f, ct))
	p.Send(cl, src, cw.feats[f].Address(), ack, util.Ptr(ct), cmd)
	p.Tap.Take()
	if refKind == "pending" {
		cw.c.Count("other-classifier-messages-referencing-a-pending-registration", 1)
	}
	return cw.settle(fmt.Sprintf("after a %s to %s carrying msgCounterReference %d (%s)", cl, cw.names[f], ct, refKind), "arrival-"+string(cl)+"-with-reference", nil)
}

type c14Arrival struct {
	peer    int
	kind    string // reply | result
	feat    int    // destination local feature
	srcFeat uint   // peer feature id in entity [1]; 0 with NM = node management
	ref     *model.MsgCounterType
	foreign bool // reply carrying a function foreign to the source feature's type
	direct  bool // handed to FeatureLocal.HandleMessage instead of the wire (missing reference only)
	errNo   int
	desc    int // results only: resultData.description 0 = present, 1 = absent, 2 = present and empty (the element is optional)
	n       int // unique payload number
	// replies only: number of items of a full data set (ids 1..k); variant "" = full data set, or the reply
	// carries a restricted one: "partial" (one item with identifier id), "partial-sel" (selector id + one item
	// without identifier), "delete-sel" (delete selector id, no items)
	k       int
	variant string
	id      int
	// repeat: the reply carries, for a fresh reference, verbatim the content (same function, same items) of the
	// previous accepted full reply of that peer's feature: what the stack has cached already
	repeat bool
}

func (cw *c14World) srcAddr(a c14Arrival) *model.FeatureAddressType {
	p := cw.w.Peers[a.peer]
	if a.feat == 3 {
		return p.NM()
	}
	return rig.FA(p.Addr, []uint{1}, a.srcFeat)
}

func (cw *c14World) cmdOf(a c14Arrival) (model.CmdType, any, bool) {
	if a.kind == "result" {
		rd := &model.ResultDataType{ErrorNumber: util.Ptr(model.ErrorNumberType(a.errNo))}
		switch a.desc {
		case 0:
			rd.Description = util.Ptr(model.DescriptionType(fmt.Sprintf("result %d", a.n)))
		case 2:
			rd.Description = util.Ptr(model.DescriptionType(""))
		}
		return model.CmdType{ResultData: rd}, rd, true
	}
	// every item carries the unique payload number, so that the data of two messages never coincide
	useMeas := cw.useMeas(a)
	item := func(id int) reflect.Value {
		if useMeas {
			it := model.MeasurementDataType{Value: &model.ScaledNumberType{Number: util.Ptr(model.NumberType(a.n))}}
			if id >= 0 {
				it.MeasurementId = util.Ptr(model.MeasurementIdType(id))
			}
			return reflect.ValueOf(it)
		}
		it := model.ElectricalConnectionDescriptionDataType{Label: util.Ptr(model.LabelType(fmt.Sprintf("n%d", a.n)))}
		if id >= 0 {
			it.ElectricalConnectionId = util.Ptr(model.ElectricalConnectionIdType(id))
		}
		return reflect.ValueOf(it)
	}
	li := c14ListMeas
	if !useMeas {
		li = c14ListEC
	}
	u := rig.Update{Kind: "full", SelKey: -1, DelSel: -1}
	switch a.variant {
	case "partial":
		u.Kind, u.Items = "partial", []reflect.Value{item(a.id)}
	case "partial-sel":
		u.Kind, u.SelKey, u.Items = "partial-sel", a.id, []reflect.Value{item(-1)}
	case "delete-sel":
		u.Kind, u.DelSel = "delete-sel", a.id
	default:
		k := a.k
		if k < 1 {
			k = 1
		}
		for id := 1; id <= k; id++ {
			u.Items = append(u.Items, item(id))
		}
	}
	// what the receiver is handed: the data set of this message
	return li.Cmd(u), li.MkList(rig.CloneItems(u.Items)), !a.foreign
}

var (
	c14ListMeas = rig.ListByFn(model.FunctionTypeMeasurementListData)
	c14ListEC   = rig.ListByFn(model.FunctionTypeElectricalConnectionDescriptionListData)
)

func (cw *c14World) useMeas(a c14Arrival) bool {
	srcIsMeas := a.srcFeat == 1 || a.srcFeat == 3
	return srcIsMeas != a.foreign
}

func (cw *c14World) cacheKey(a c14Arrival) string {
	return fmt.Sprintf("%d/%d/%v", a.peer, a.srcFeat, cw.useMeas(a))
}

// shapeReply draws the data set of an acceptable reply: a full list of 1-3 items, or, when the cache of the
// answering feature is known to hold at least two items, every second time a restricted data set.
func (cw *c14World) shapeReply(a *c14Arrival) {
	r := cw.c.Rand
	a.k, a.variant, a.id = 1+r.Intn(3), "", 0
	if a.kind != "reply" || a.foreign {
		return
	}
	if r.Intn(3) > 0 {
		a.k = 2 + r.Intn(2)
	}
	if n := cw.cached[cw.cacheKey(*a)]; n >= 2 && r.Intn(2) == 0 {
		a.variant = []string{"partial", "partial", "partial-sel", "delete-sel"}[r.Intn(4)]
		a.id = 1 + r.Intn(n)
		if a.variant == "delete-sel" {
			a.id = n // the cache keeps ids 1..n-1
		}
	}
}

// shapeResult draws the shape of a result: errorNumber 0 (success), a general error number or 7 (command rejected),
// with a description, without one (the element is optional; the library itself sends error results without it, e.g.
// NewErrorTypeFromNumber) or with an empty one. Every shape is a result "referencing a request" like any other.
func (cw *c14World) shapeResult(a *c14Arrival) {
	r := cw.c.Rand
	a.errNo = []int{0, 0, 1, 2, 7, 7}[r.Intn(6)]
	a.desc = []int{0, 1, 1, 2}[r.Intn(4)]
}

// noteInjected maintains the lower bound of the cache content after an accepted reply was delivered.
func (cw *c14World) noteInjected(a c14Arrival) {
	if a.kind != "reply" || a.foreign {
		return
	}
	key := cw.cacheKey(a)
	if a.variant == "" && a.ref != nil && !a.direct {
		k := a.k
		if k < 1 {
			k = 1
		}
		cw.lastFull[key] = [2]int{a.n, k}
	} else {
		delete(cw.lastFull, key) // the cache no longer holds exactly one known full data set
	}
	switch a.variant {
	case "":
		cw.cached[key] = a.k
		if a.k < 1 {
			cw.cached[key] = 1
		}
	case "delete-sel":
		if cw.cached[key] > 0 {
			cw.cached[key]--
		}
	}
}

// due computes (and consumes in the reference) what must fire for a; racing registrations are handled by the caller.
func (cw *c14World) due(a c14Arrival) (want []c14Inv) {
	_, data, accepted := cw.cmdOf(a)
	if a.ref == nil || !accepted {
		return nil
	}
	p := cw.w.Peers[a.peer]
	what := fmt.Sprintf("ref=%d local=%s from=%s/%s data=%s", *a.ref, cw.feats[a.feat].Address().String(), p.Ski, cw.srcAddr(a).String(), rig.JS(data))
	if a.kind == "result" {
		due := "no-response-callback-due"
		if len(cw.pending[a.feat][*a.ref]) > 0 {
			due = "response-callbacks-due"
		}
		ds := []string{"present", "absent", "empty"}[a.desc%3]
		cw.c.Seen("result_shapes", fmt.Sprintf("error=%v/description=%s/to=%s/%s/result-callbacks-due=%v", a.errNo != 0, ds, cw.names[a.feat], due, len(cw.results[a.feat]) > 0))
		cw.c.Count(fmt.Sprintf("results-referencing-a-request:error=%v/description=%s", a.errNo != 0, ds), 1)
	}
	for _, rg := range cw.pending[a.feat][*a.ref] {
		want = append(want, c14Inv{rg.id, what})
		if rg.acrossDrop {
			cw.c.Count("callbacks-due-after-a-bystander-disconnect", 1)
		}
		if a.variant != "" {
			cw.partials++
			cw.c.Count("callbacks-due-with-restricted-reply:"+a.variant, 1)
		}
		if a.repeat {
			cw.repeats++
			cw.c.Count("callbacks-due-with-a-reply-repeating-the-cached-content", 1)
		}
	}
	if len(cw.pending[a.feat][*a.ref]) > 0 {
		cw.consumed[a.feat][*a.ref] = true
		cw.noteServed(a.feat, *a.ref, a.peer)
	}
	delete(cw.pending[a.feat], *a.ref)
	if a.kind == "result" {
		for _, id := range cw.results[a.feat] {
			want = append(want, c14Inv{id, what})
		}
	}
	return want
}

// whatOf renders what a callback invoked with a must log (the reference written from the statement: the reference
// counter, the local feature, the originating remote feature and the data set the message carries).
func (cw *c14World) whatOf(a c14Arrival) string {
	_, data, _ := cw.cmdOf(a)
	p := cw.w.Peers[a.peer]
	return fmt.Sprintf("ref=%d local=%s from=%s/%s data=%s", *a.ref, cw.feats[a.feat].Address().String(), p.Ski, cw.srcAddr(a).String(), rig.JS(data))
}

func (cw *c14World) inject(a c14Arrival) {
	cw.inject0(a)
	cw.noteInjected(a)
}

func (cw *c14World) inject0(a c14Arrival) {
	p := cw.w.Peers[a.peer]
	cmd, _, _ := cw.cmdOf(a)
	cl := model.CmdClassifierTypeReply
	if a.kind == "result" {
		cl = model.CmdClassifierTypeResult
	}
	src, dst := cw.srcAddr(a), cw.feats[a.feat].Address()
	if a.direct {
		// the exported entry of the feature itself, with the message the device layer would build
		rf := p.RD.FeatureByAddress(src)
		if rf == nil {
			return
		}
		mc := p.NextCounter()
		msg := &api.Message{RequestHeader: &model.HeaderType{AddressSource: src, AddressDestination: dst, MsgCounter: &mc, MsgCounterReference: a.ref, CmdClassifier: &cl},
			CmdClassifier: cl, Cmd: cmd, FeatureRemote: rf, EntityRemote: rf.Entity(), DeviceRemote: p.RD}
		ok, pan := rig.Guard(20*time.Second, func() { _ = cw.feats[a.feat].HandleMessage(msg) })
		if pan != "" {
			cw.viol("missing-reference/panic", "HandleMessage panicked for a %s without msgCounterReference: %s", a.kind, pan)
		} else if !ok {
			cw.c.Inconclusive("HandleMessage did not return within 20s")
		}
		return
	}
	// as rig.Peer.Send, but keeping what HandleSpineMesssage returns: the stack recovers panics raised while it
	// processes a message and reports them as the error "invalid spine message: ..." - for a well-formed datagram
	// (every one generated here that carries a msgCounterReference) that is a panic on the callback path: the
	// callbacks of the message are then not served
	bs, err := json.Marshal(rig.Datagram(cl, src, dst, p.NextCounter(), false, a.ref, cmd))
	if err != nil {
		panic("harness: cannot marshal datagram: " + err.Error())
	}
	var herr error
	pan := ""
	func() {
		defer func() {
			if r := recover(); r != nil {
				buf := make([]byte, 8<<10)
				buf = buf[:runtime.Stack(buf, false)]
				pan = fmt.Sprintf("%v @ %s\n%s", r, rig.InnermostSpineFrame(string(buf)), buf)
			}
		}()
		_, herr = p.RD.HandleSpineMesssage(bs)
	}()
	sig := "arrival"
	if a.ref == nil {
		sig = "missing-reference"
	}
	switch {
	case pan != "":
		cw.viol(sig+"/panic", "%s: %s", a, pan)
	case herr != nil && a.ref == nil:
		// a reply/result without msgCounterReference is malformed; the stack rejects it as a whole (D8: the recover in
		// HandleSpineMesssage turns the nil dereference in PrintMessageOverview into this error). Nothing is due.
		cw.c.Count("missing-reference:message-rejected-with-an-error", 1)
	case herr != nil:
		cw.viol(sig+"/panic-recovered-by-the-stack", "HandleSpineMesssage returned %q for the well-formed message %s\n%s", herr.Error(), a, bs)
	}
}

func (a c14Arrival) String() string {
	ref := "none"
	if a.ref != nil {
		ref = fmt.Sprint(*a.ref)
	}
	s := fmt.Sprintf("peer%d %s to %d from [1]/%d ref=%s foreign=%v direct=%v n=%d", a.peer, a.kind, a.feat, a.srcFeat, ref, a.foreign, a.direct, a.n)
	if a.kind == "result" {
		s += fmt.Sprintf(" errorNumber=%d description=%s", a.errNo, []string{"present", "ABSENT", "EMPTY"}[a.desc%3])
	}
	if a.kind == "reply" {
		if a.repeat {
			s += fmt.Sprintf(" full(%d items) REPEATING verbatim the content of the previous full reply of this feature", a.k)
		} else if a.variant == "" {
			s += fmt.Sprintf(" full(%d items)", a.k)
		} else {
			s += fmt.Sprintf(" %s(id %d)", a.variant, a.id)
		}
	}
	return s
}

func c14Multiset(l []c14Inv) []string {
	var s []string
	for _, x := range l {
		s = append(s, fmt.Sprintf("#%d %s", x.reg, x.what))
	}
	sort.Strings(s)
	return s
}

// settle waits for quiescence and compares the invocations since the last call with want.
// alt lists registrations that may have fired with one of several messages (racing): reg -> allowed "what" strings;
// exactly the ones in mustOnce must have fired exactly once among got (with an allowed what).
func (cw *c14World) settle(where, class string, want []c14Inv) bool {
	if !rig.WaitQuiet(cw.baseline, 20*time.Second) {
		cw.c.Inconclusive("process not quiet after %s", where)
		return false
	}
	got := cw.log.take()
	cw.c.Events(int64(len(got)) + 1)
	if len(cw.optional) > 0 {
		// invocations the statement leaves open (a result callback registered while the result message that is being
		// delivered is dispatched): at most once each
		var rest []c14Inv
		for _, x := range got {
			k := fmt.Sprintf("#%d %s", x.reg, x.what)
			if cw.optional[k] > 0 {
				cw.optional[k]--
				cw.c.Count("reentrant:result-callback-registered-during-the-dispatch-of-a-result-invoked-with-that-result(allowed)", 1)
				continue
			}
			rest = append(rest, x)
		}
		got = rest
	}
	g, w := c14Multiset(got), c14Multiset(want)
	if strings.Join(g, "\n") == strings.Join(w, "\n") {
		cw.c.Count("invocations-judged", int64(len(got)))
		if len(want) == 0 {
			cw.c.Count("arrivals-that-must-fire-nothing", 1)
		}
		return true
	}
	// name the deviation
	cnt := map[string]int{}
	for _, x := range g {
		cnt[x]++
	}
	for _, x := range w {
		cnt[x]--
	}
	gotRegs, wantRegs := map[int]int{}, map[int]int{}
	for _, x := range got {
		gotRegs[x.reg]++
	}
	for _, x := range want {
		wantRegs[x.reg]++
	}
	dev := "wrong-message-or-feature"
	for r, n := range gotRegs {
		if n > wantRegs[r] {
			if wantRegs[r] == 0 {
				dev = "callback-not-due-invoked"
			} else {
				dev = "callback-invoked-more-than-once"
			}
		}
	}
	if dev == "wrong-message-or-feature" {
		for r, n := range wantRegs {
			if gotRegs[r] < n {
				dev = "due-callback-not-invoked"
			}
		}
	}
	if dev == "wrong-message-or-feature" {
		// the right callbacks, each once: is it only the data that differs from what the message carried?
		head := func(l []string) string {
			var hs []string
			for _, x := range l {
				if i := strings.Index(x, " data="); i >= 0 {
					x = x[:i]
				}
				hs = append(hs, x)
			}
			return strings.Join(hs, "\n")
		}
		if head(g) == head(w) {
			dev = "data-is-not-the-received-data"
		}
	}
	cw.viol(class+"/"+dev, "%s:\n expected invocations (%d):\n  %s\n observed invocations (%d):\n  %s", where, len(w), strings.Join(w, "\n  "), len(g), strings.Join(g, "\n  "))
	return false
}

func c14Case(c *rig.Ctx) { c14Run(c, c.Index%3 == 2) }

func c14Run(c *rig.Ctx, racing bool) {
	cw := newC14World(c)
	defer func() {
		if !cw.byUp {
			cw.w.Peers = cw.w.Peers[:2] // the bystander's connection is gone already
		}
		cw.w.Close()
	}()
	r := c.Rand
	// the counters of the history: mostly what requests of the local features to the two peers returned (x_c14req.go)
	ctrs := cw.obtainCounters(1 + r.Intn(4))
	steps := 14 + r.Intn(c.Pick(20, 27))
	var fired int64
	defer func() {
		c.Shape(fmt.Sprintf("racing=%v/ctrs=%d/%s", racing, len(ctrs), c13Hash(cw.shape)))
		tr := cw.trace
		if len(tr) > 50 {
			tr = tr[:50]
		}
		c.Sample(map[string]any{"racing": racing, "counters": len(ctrs), "bystander_disconnects": cw.byDrops, "callbacks_due_with_restricted_replies": cw.partials, "callbacks_due_with_replies_repeating_cached_content": cw.repeats, "history": tr})
		if c.Failed() {
			c.Witness(map[string]any{"racing": racing, "history": cw.trace})
			c.Count("cases_with_violations", 1)
		}
	}()
	// one or two result callbacks are usually there from the start
	for f := range cw.feats {
		for k := r.Intn(3); k > 0; k-- {
			cw.registerResult(f)
		}
	}
	pickFeat := func(forReply bool) int {
		if forReply {
			// replies go to the client features A and B and (one in five) to the server feature S, answered by the peer's
			// client feature [1]/3: "a local feature", whatever its role
			return []int{0, 0, 1, 1, 2}[r.Intn(5)]
		}
		return []int{0, 0, 1, 1, 2, 3}[r.Intn(6)]
	}
	dups, nothing := 0, 0
	for st := 0; st < steps && !c.Failed(); st++ {
		x := r.Intn(100)
		switch {
		case x < 36: // registrations: 1-3 callbacks for one counter
			f := []int{0, 0, 0, 1, 1, 2, 3}[r.Intn(7)]
			ctr := ctrs[r.Intn(len(ctrs))]
			if racing && r.Intn(2) == 0 {
				if !c14Duel(cw, f, ctr) {
					return
				}
				continue
			}
			n := 1 + r.Intn(3)
			for k := 0; k < n; k++ {
				fn := r.Intn(len(c14Fns))
				if r.Intn(100) < 15 && len(cw.pending[f][ctr]) > 0 {
					fn = cw.pending[f][ctr][r.Intn(len(cw.pending[f][ctr]))].fn // deliberate duplicate
				} else {
					// a function not yet pending for this counter here, if there is one
					for try := 0; try < len(c14Fns); try++ {
						clash := false
						for _, rg := range cw.pending[f][ctr] {
							if rg.fn == fn {
								clash = true
							}
						}
						if !clash {
							break
						}
						fn = (fn + 1) % len(c14Fns)
					}
				}
				cw.shape = append(cw.shape, fmt.Sprintf("reg%d", f))
				if cw.register(f, ctr, fn) {
					dups++
				}
			}
			if r.Intn(4) == 0 { // the same counter on a second feature
				f2 := (f + 1 + r.Intn(3)) % 4
				cw.shape = append(cw.shape, fmt.Sprintf("reg%d", f2))
				if cw.register(f2, ctr, r.Intn(len(c14Fns))) {
					dups++
				}
			}
		case x < 42:
			f := pickFeat(false)
			cw.shape = append(cw.shape, fmt.Sprintf("rreg%d", f))
			cw.registerResult(f)
		case x < 50:
			op := []string{"toggle", "toggle", "flap", "flap", "entity", "answerer", "answerer"}[r.Intn(7)]
			if op == "answerer" {
				// an ANSWERING peer announces its entity anew; what it answers afterwards comes from the new feature objects
				pi := r.Intn(2)
				cw.shape = append(cw.shape, "reannounce")
				cw.reannounce(pi)
				continue
			}
			cw.shape = append(cw.shape, fmt.Sprintf("by-%s-%v", op, cw.byUp))
			cw.bystander(op)
		case x < 57:
			if !cw.otherClassifier(ctrs) {
				return
			}
			nothing++
		default:
			cw.nArr++
			a := c14Arrival{peer: r.Intn(2), kind: "reply", n: 1000*cw.nArr + r.Intn(1000), errNo: r.Intn(3)}
			if r.Intn(100) < 42 {
				a.kind = "result"
				cw.shapeResult(&a)
			}
			a.feat = pickFeat(a.kind == "reply")
			switch a.feat {
			case 0:
				a.srcFeat = 1
				if r.Intn(5) == 0 {
					a.srcFeat = 2 // the other server feature of the peer answers
				}
			case 1:
				a.srcFeat = 2
				if r.Intn(5) == 0 {
					a.srcFeat = 1
				}
			case 2:
				a.srcFeat = 3
			}
			if a.kind == "reply" && r.Intn(5) == 0 {
				a.foreign = true
			}
			cw.shapeReply(&a)
			// polling unchanged data: every third acceptable reply for a feature whose cache holds a known full data
			// set carries exactly that data set again (same function, same items), for a fresh reference
			if a.kind == "reply" && !a.foreign {
				if lf, ok := cw.lastFull[cw.cacheKey(a)]; ok && r.Intn(3) == 0 {
					a.n, a.k, a.variant, a.id, a.repeat = lf[0], lf[1], "", 0, true
				}
			}
			// the reference
			var withPending, consumedHere, elsewhere []model.MsgCounterType
			for _, ct := range ctrs {
				if len(cw.pending[a.feat][ct]) > 0 {
					withPending = append(withPending, ct)
				} else if cw.consumed[a.feat][ct] {
					consumedHere = append(consumedHere, ct)
				}
				for f2 := range cw.feats {
					if f2 != a.feat && len(cw.pending[f2][ct]) > 0 && len(cw.pending[a.feat][ct]) == 0 {
						elsewhere = append(elsewhere, ct)
					}
				}
			}
			refKind := "matching"
			if a.repeat && len(withPending) == 0 {
				// the request that is answered with unchanged data: a counter with 1-2 callbacks registered for it
				ct := ctrs[r.Intn(len(ctrs))]
				fn0 := r.Intn(len(c14Fns))
				for k, n := 0, 1+r.Intn(2); k < n; k++ {
					cw.shape = append(cw.shape, fmt.Sprintf("reg%d", a.feat))
					cw.register(a.feat, ct, (fn0+k)%len(c14Fns))
				}
				withPending = append(withPending, ct)
			}
			switch y := r.Intn(100); {
			case a.repeat:
				a.ref = util.Ptr(withPending[r.Intn(len(withPending))])
			case y < 50 && len(withPending) > 0:
				a.ref = util.Ptr(withPending[r.Intn(len(withPending))])
			case y < 65 && len(consumedHere) > 0:
				refKind = "repeated"
				a.ref = util.Ptr(consumedHere[r.Intn(len(consumedHere))])
			case y < 80:
				refKind = "non-matching"
				if len(elsewhere) > 0 && r.Intn(2) == 0 {
					a.ref = util.Ptr(elsewhere[r.Intn(len(elsewhere))]) // pending on another feature only
				} else {
					a.ref = util.Ptr(model.MsgCounterType(99))
				}
			case y < 92:
				refKind = "missing"
				a.direct = r.Intn(2) == 0
			default:
				refKind = "any"
				a.ref = util.Ptr(ctrs[r.Intn(len(ctrs))])
			}
			cw.shape = append(cw.shape, fmt.Sprintf("%s%d%s%v%v%s%v", a.kind[:3], a.feat, refKind[:3], a.foreign, a.direct, a.variant, a.repeat))
			if a.kind == "result" {
				cw.shape = append(cw.shape, fmt.Sprintf("e%vd%d", a.errNo != 0, a.desc))
			}
			if a.repeat {
				c.Count("replies-repeating-the-cached-content-delivered", 1)
				c.Seen("repeated_content_reply_classes", fmt.Sprintf("items=%d/to=%s/from=[1]/%d/peer%d", a.k, cw.names[a.feat], a.srcFeat, a.peer))
			}
			c.Seen("arrival_classes", fmt.Sprintf("%s/%s/foreign=%v/direct=%v/to=%s", a.kind, refKind, a.foreign, a.direct, cw.names[a.feat]))
			if a.variant != "" {
				c.Seen("restricted_reply_classes", fmt.Sprintf("%s/%s/to=%s", a.variant, refKind, cw.names[a.feat]))
				c.Count("restricted-replies-delivered:"+a.variant, 1)
			}

			if racing && refKind == "matching" && !a.foreign && r.Intn(2) == 0 {
				if !c14Race(cw, a) {
					return
				}
				continue
			}
			want := cw.due(a)
			cw.logf("arrival %s (%s) -> %d invocations due", a, refKind, len(want))
			cw.inject(a)
			class := "arrival-" + refKind
			if a.repeat {
				class = "arrival-matching-with-unchanged-content"
			}
			if !cw.settle("after "+a.String(), class, want) {
				return
			}
			fired += int64(len(want))
			if len(want) == 0 {
				nothing++
			}
		}
	}
	// racing cases: a burst of registration duels on fresh counters
	if racing && !c.Failed() {
		if !c14Burst(cw, []int{0, 0, 1, 2, 3}[r.Intn(5)]) {
			return
		}
	}
	// racing cases: overlapping arrivals from both peers, concurrent with registrations for other counters and with
	// result-callback registrations
	if racing && !c.Failed() {
		if !c14Storm(cw, []int{0, 0, 1, 2, 2, 3}[r.Intn(6)]) {
			return
		}
	}
	// at the end every still pending registration is settled by one matching message: exactly once each
	for f := range cw.feats {
		var cts []model.MsgCounterType
		for ct := range cw.pending[f] {
			cts = append(cts, ct)
		}
		sort.Slice(cts, func(i, j int) bool { return cts[i] < cts[j] })
		for _, ct := range cts {
			if c.Failed() {
				return
			}
			cw.nArr++
			a := c14Arrival{peer: r.Intn(2), kind: "result", feat: f, ref: util.Ptr(ct), n: 1000*cw.nArr + r.Intn(1000)}
			switch f {
			case 0:
				a.srcFeat = 1
			case 1:
				a.srcFeat = 2
			case 2:
				a.srcFeat = 3
			}
			cw.shapeResult(&a)
			want := cw.due(a)
			cw.logf("final arrival %s -> %d invocations due", a, len(want))
			cw.inject(a)
			if !cw.settle("after final "+a.String(), "final", want) {
				return
			}
			fired += int64(len(want))
		}
	}
	for _, p := range cw.w.Peers {
		if len(p.Tap.Broken) > 0 {
			cw.viol("tap/undecodable", "%v", p.Tap.Broken)
		}
	}
	c.NonTrivial(fired > 0 && (dups > 0 || cw.duels > 0) && nothing > 0)
}

// c14Race registers 1-2 callbacks concurrently with the arrival of a matching message and then sends a
// second matching message. The registrations that were pending before fire with the first message; each
// racing registration fires exactly once, with the first or with the second message.
func c14Race(cw *c14World, a c14Arrival) bool {
	c, r := cw.c, cw.c.Rand
	ctr := *a.ref
	// racing registrations use functions that are not pending for this counter
	used := map[int]bool{}
	for _, rg := range cw.pending[a.feat][ctr] {
		used[rg.fn] = true
	}
	var racers []*c14Reg
	for fn := 0; fn < len(c14Fns) && len(racers) < 1+r.Intn(2); fn++ {
		if !used[fn] {
			cw.nextReg++
			rg := &c14Reg{id: cw.nextReg, feat: a.feat, fn: fn, ctr: ctr, racing: true}
			rg.f = c14Fns[fn](cw.log, rg.id)
			racers = append(racers, rg)
		}
	}
	if len(racers) == 0 {
		want := cw.due(a)
		cw.inject(a)
		return cw.settle("after "+a.String(), "arrival-matching", want)
	}
	cw.shape = append(cw.shape, fmt.Sprintf("RACE%d", len(racers)))
	want1 := cw.due(a) // consumes the earlier registrations (and result callbacks)
	p := cw.w.Peers[a.peer]
	_, data1, _ := cw.cmdOf(a)
	what1 := fmt.Sprintf("ref=%d local=%s from=%s/%s data=%s", ctr, cw.feats[a.feat].Address().String(), p.Ski, cw.srcAddr(a).String(), rig.JS(data1))
	cw.logf("RACE: arrival %s concurrently with %d registrations for counter %d on %s", a, len(racers), ctr, cw.names[a.feat])
	start := make(chan struct{})
	yield := r.Intn(2) == 0
	// drawn head start of the message over the registrations (pacing of the workload only), so that both orders occur
	delays := make([]time.Duration, len(racers))
	for i := range delays {
		delays[i] = []time.Duration{0, 0, 5, 20, 40, 80, 150, 300}[r.Intn(8)] * time.Microsecond
	}
	var wg sync.WaitGroup
	errs := make([]error, len(racers))
	for i, rg := range racers {
		i, rg := i, rg
		wg.Add(1)
		go func() {
			defer wg.Done()
			<-start
			if delays[i] > 0 {
				time.Sleep(delays[i])
			}
			errs[i] = cw.feats[a.feat].AddResponseCallback(ctr, rg.f)
		}()
	}
	wg.Add(1)
	go func() {
		defer wg.Done()
		<-start
		if yield { // drawn perturbation of who goes first
			runtime.Gosched()
		}
		cw.inject(a)
	}()
	// every third race the bystander peer drops its connection (and comes back) at the same time
	flap := cw.byUp && r.Intn(3) == 0
	if flap {
		flapDelay := []time.Duration{0, 0, 5, 20, 80, 300}[r.Intn(6)] * time.Microsecond
		for f := range cw.pending {
			for _, rgs := range cw.pending[f] {
				for _, rg := range rgs {
					rg.acrossDrop = true
				}
			}
		}
		wg.Add(1)
		go func() {
			defer wg.Done()
			<-start
			if flapDelay > 0 {
				time.Sleep(flapDelay)
			}
			cw.w.Local.RemoveRemoteDeviceConnection(cw.by.Ski)
			cw.byConnect()
		}()
		cw.byDrops++
		c.Count("bystander-disconnects", 1)
		c.Count("bystander-disconnects-concurrent-with-an-arrival", 1)
		cw.logf("RACE: the bystander peer disconnects and reconnects concurrently")
	}
	close(start)
	done := make(chan struct{})
	go func() { wg.Wait(); close(done) }()
	select {
	case <-done:
	case <-time.After(30 * time.Second):
		c.Inconclusive("racing registration/arrival did not return within 30s")
		return false
	}
	for i, e := range errs {
		if e != nil {
			cw.viol("racing-registration/refused", "racing registration of F%d for counter %d on %s was refused: %v", racers[i].fn, ctr, cw.names[a.feat], e)
		}
	}
	if !rig.WaitQuiet(cw.baseline, 20*time.Second) {
		c.Inconclusive("process not quiet after the race")
		return false
	}
	got1 := cw.log.take()
	if flap {
		cw.baseline = c14Settle()
	}
	// follow-up matching message from the other or the same peer
	cw.nArr++
	b := a
	b.peer, b.n, b.repeat = r.Intn(2), 1000*cw.nArr+r.Intn(1000), false
	cw.shapeReply(&b)
	q := cw.w.Peers[b.peer]
	_, data2, _ := cw.cmdOf(b)
	what2 := fmt.Sprintf("ref=%d local=%s from=%s/%s data=%s", ctr, cw.feats[b.feat].Address().String(), q.Ski, cw.srcAddr(b).String(), rig.JS(data2))
	cw.logf("RACE follow-up: %s", b)
	cw.inject(b)
	if !rig.WaitQuiet(cw.baseline, 20*time.Second) {
		c.Inconclusive("process not quiet after the follow-up")
		return false
	}
	got2 := cw.log.take()
	c.Events(int64(len(got1)+len(got2)) + 2)
	// split off the racing registrations
	isRacer := map[int]*c14Reg{}
	for _, rg := range racers {
		isRacer[rg.id] = rg
	}
	var rest1, rest2 []c14Inv
	n1, n2 := map[int]int{}, map[int]int{}
	bad := ""
	for _, x := range got1 {
		if isRacer[x.reg] != nil {
			n1[x.reg]++
			if x.what != what1 {
				bad = fmt.Sprintf("racing registration #%d fired with %q, the racing message is %q", x.reg, x.what, what1)
			}
		} else {
			rest1 = append(rest1, x)
		}
	}
	for _, x := range got2 {
		if isRacer[x.reg] != nil {
			n2[x.reg]++
			if x.what != what2 {
				bad = fmt.Sprintf("racing registration #%d fired with %q, the follow-up message is %q", x.reg, x.what, what2)
			}
		} else {
			rest2 = append(rest2, x)
		}
	}
	if bad != "" {
		cw.viol("racing-registration/wrong-message", "%s", bad)
		return false
	}
	for _, rg := range racers {
		switch n := n1[rg.id] + n2[rg.id]; {
		case n == 0:
			cw.viol("racing-registration/never-invoked", "registration #%d raced the arrival of a matching message and a second matching message followed: it was never invoked", rg.id)
			return false
		case n > 1:
			cw.viol("racing-registration/invoked-more-than-once", "registration #%d was invoked %d times (with the racing message: %d, with the follow-up: %d)", rg.id, n, n1[rg.id], n2[rg.id])
			return false
		}
		if n1[rg.id] == 1 {
			c.Count("race:fired-with-racing-message", 1)
		} else {
			c.Count("race:left-pending-fired-with-follow-up", 1)
		}
	}
	// everything else is deterministic: earlier registrations with the first message, result callbacks with both
	var want2 []c14Inv
	if b.kind == "result" {
		for _, id := range cw.results[b.feat] {
			want2 = append(want2, c14Inv{id, what2})
		}
	}
	cw.consumed[a.feat][ctr] = true
	g1, w1 := c14Multiset(rest1), c14Multiset(want1)
	g2, w2 := c14Multiset(rest2), c14Multiset(want2)
	if strings.Join(g1, "\n") != strings.Join(w1, "\n") || strings.Join(g2, "\n") != strings.Join(w2, "\n") {
		cw.viol("racing-arrival/other-callbacks-deviate", "racing message: expected\n  %s\n observed\n  %s\nfollow-up: expected\n  %s\n observed\n  %s",
			strings.Join(w1, "\n  "), strings.Join(g1, "\n  "), strings.Join(w2, "\n  "), strings.Join(g2, "\n  "))
		return false
	}
	c.Count("invocations-judged", int64(len(got1)+len(got2)))
	c.Count("race:windows", 1)
	return true
}

// c14Duel registers several callbacks for ONE counter on ONE feature concurrently: 1-3 different functions
// and (two times out of three) one function value from 2-3 goroutines at once. Every different function must be
// accepted, the same value exactly once; a matching message sent right afterwards must fire each accepted
// registration exactly once, and a repeated reference after that nothing.
func c14Duel(cw *c14World, f int, ctr model.MsgCounterType) bool {
	c, r := cw.c, cw.c.Rand
	used := map[int]bool{}
	for _, rg := range cw.pending[f][ctr] {
		used[rg.fn] = true
	}
	var free []int
	for fn := range c14Fns {
		if !used[fn] {
			free = append(free, fn)
		}
	}
	r.Shuffle(len(free), func(i, j int) { free[i], free[j] = free[j], free[i] })
	if len(free) == 0 {
		return true
	}
	type job struct {
		rg    *c14Reg
		same  bool
		delay time.Duration
		err   error
	}
	var jobs []*job
	mk := func(fn int) *c14Reg {
		cw.nextReg++
		rg := &c14Reg{id: cw.nextReg, feat: f, fn: fn, ctr: ctr, racing: true}
		rg.f = c14Fns[fn](cw.log, rg.id)
		return rg
	}
	var same *c14Reg
	if r.Intn(3) > 0 {
		same = mk(free[0])
		free = free[1:]
		for k := 2 + r.Intn(2); k > 0; k-- {
			jobs = append(jobs, &job{rg: same, same: true})
		}
	}
	nDiff := 1 + r.Intn(3)
	if same == nil && nDiff < 2 {
		nDiff = 2
	}
	var diff []*c14Reg
	for k := 0; k < nDiff && k < len(free); k++ {
		rg := mk(free[k])
		diff = append(diff, rg)
		jobs = append(jobs, &job{rg: rg})
	}
	if len(jobs) < 2 {
		// not enough free functions for a duel: plain registrations
		for _, j := range jobs {
			cw.register(f, ctr, j.rg.fn)
		}
		return true
	}
	r.Shuffle(len(jobs), func(i, j int) { jobs[i], jobs[j] = jobs[j], jobs[i] })
	for _, j := range jobs {
		j.delay = []time.Duration{0, 0, 0, 0, 100, 200, 500, 1000, 3000}[r.Intn(9)] * time.Nanosecond
	}
	cw.duels++
	cw.shape = append(cw.shape, fmt.Sprintf("DUEL%d/%v/%d", len(diff), same != nil, f))
	cw.logf("DUEL on %s counter %d: %d different functions, same value concurrently: %v (pending before: %s)", cw.names[f], ctr, len(diff), same != nil, cw.pendingStr(f, ctr))
	// spinning start line: the calls begin within a fraction of a microsecond of each other
	var ready atomic.Int32
	var start atomic.Bool
	var wg sync.WaitGroup
	for _, j := range jobs {
		j := j
		wg.Add(1)
		go func() {
			defer wg.Done()
			ready.Add(1)
			for i := 0; !start.Load(); i++ {
				if i > 1<<14 { // never spin for good if the starter is starved
					runtime.Gosched()
				}
			}
			if j.delay > 0 {
				t0 := time.Now()
				for time.Since(t0) < j.delay {
				}
			}
			j.err = cw.feats[f].AddResponseCallback(ctr, j.rg.f)
		}()
	}
	for i := 0; int(ready.Load()) < len(jobs) && i < 1<<20; i++ {
		runtime.Gosched()
	}
	start.Store(true)
	done := make(chan struct{})
	go func() { wg.Wait(); close(done) }()
	select {
	case <-done:
	case <-time.After(30 * time.Second):
		c.Inconclusive("concurrent registrations did not return within 30s")
		return false
	}
	c.Events(int64(len(jobs)))
	c.Count("duel:concurrent-registrations", int64(len(jobs)))
	accepted := 0
	for _, j := range jobs {
		switch {
		case j.same && j.err == nil:
			accepted++
		case !j.same && j.err != nil:
			cw.viol("duel/different-callback-refused", "concurrent registration of F%d on %s for counter %d was refused: %v", j.rg.fn, cw.names[f], ctr, j.err)
		}
	}
	for _, rg := range diff {
		cw.pending[f][ctr] = append(cw.pending[f][ctr], rg)
	}
	if same != nil {
		switch {
		case accepted == 0:
			cw.viol("duel/same-callback-never-accepted", "the same function value was registered by several goroutines at once on %s for counter %d and every call was refused", cw.names[f], ctr)
		case accepted > 1:
			cw.viol("duel/same-callback-accepted-twice", "the same function value was registered by several goroutines at once on %s for counter %d and %d calls returned no error", cw.names[f], ctr, accepted)
		}
		cw.pending[f][ctr] = append(cw.pending[f][ctr], same)
		c.Count("refused-duplicates-judged", 1)
	}
	if c.Failed() {
		return false
	}
	// a matching message: every accepted registration exactly once
	mkArr := func() c14Arrival {
		cw.nArr++
		a := c14Arrival{peer: r.Intn(2), kind: "result", feat: f, ref: util.Ptr(ctr), n: 1000*cw.nArr + r.Intn(1000)}
		switch f {
		case 0:
			a.srcFeat = 1
		case 1:
			a.srcFeat = 2
		case 2:
			a.srcFeat = 3
		}
		if f < 3 && r.Intn(2) == 0 {
			a.kind = "reply"
		} else {
			cw.shapeResult(&a)
		}
		cw.shapeReply(&a)
		return a
	}
	a := mkArr()
	want := cw.due(a)
	cw.logf("DUEL settled by %s -> %d invocations due", a, len(want))
	cw.inject(a)
	if !cw.settle("after the message that follows concurrent registrations: "+a.String(), "duel", want) {
		return false
	}
	b := mkArr()
	want = cw.due(b)
	cw.logf("DUEL repeated reference %s -> %d invocations due", b, len(want))
	cw.inject(b)
	return cw.settle("after repeating the reference: "+b.String(), "duel-repeated", want)
}

// c14Burst: five goroutines register callbacks for the same 16 fresh counters of one feature, each walking the
// counters in the same order in a tight loop (so that calls for one counter keep overlapping even when the
// goroutines do not start together): three goroutines use their own function each, two register the SAME
// function value per counter. Then one matching result per counter arrives. Every different function must have
// been accepted, the shared value exactly once per counter, and every accepted registration fires exactly once.
func c14Burst(cw *c14World, f int) bool {
	c, r := cw.c, cw.c.Rand
	const M = 16
	base := model.MsgCounterType(40)
	type slot struct {
		diff [3]*c14Reg
		same *c14Reg
	}
	slots := make([]slot, M)
	for i := range slots {
		for d := 0; d < 3; d++ {
			cw.nextReg++
			rg := &c14Reg{id: cw.nextReg, feat: f, fn: d, ctr: base + model.MsgCounterType(i), racing: true}
			rg.f = c14Fns[d](cw.log, rg.id)
			slots[i].diff[d] = rg
		}
		cw.nextReg++
		rg := &c14Reg{id: cw.nextReg, feat: f, fn: 3, ctr: base + model.MsgCounterType(i), racing: true}
		rg.f = c14Fns[3](cw.log, rg.id)
		slots[i].same = rg
	}
	cw.shape = append(cw.shape, fmt.Sprintf("BURST%d", f))
	cw.logf("BURST on %s: 5 goroutines register for counters %d..%d concurrently (3 different functions + one shared value from two goroutines)", cw.names[f], base, int(base)+M-1)
	errs := make([][]error, 5)
	var ready atomic.Int32
	var start atomic.Bool
	var wg sync.WaitGroup
	for g := 0; g < 5; g++ {
		g := g
		errs[g] = make([]error, M)
		wg.Add(1)
		go func() {
			defer wg.Done()
			ready.Add(1)
			for i := 0; !start.Load(); i++ {
				if i > 1<<14 {
					runtime.Gosched()
				}
			}
			for i := 0; i < M; i++ {
				fn := slots[i].same.f
				if g < 3 {
					fn = slots[i].diff[g].f
				}
				errs[g][i] = cw.feats[f].AddResponseCallback(base+model.MsgCounterType(i), fn)
			}
		}()
	}
	for i := 0; int(ready.Load()) < 5 && i < 1<<20; i++ {
		runtime.Gosched()
	}
	start.Store(true)
	done := make(chan struct{})
	go func() { wg.Wait(); close(done) }()
	select {
	case <-done:
	case <-time.After(30 * time.Second):
		c.Inconclusive("concurrent registrations did not return within 30s")
		return false
	}
	c.Events(5 * M)
	c.Count("duel:concurrent-registrations", 5*M)
	for i := 0; i < M; i++ {
		ctr := base + model.MsgCounterType(i)
		for g := 0; g < 3; g++ {
			if errs[g][i] != nil {
				cw.viol("duel/different-callback-refused", "burst: registration of F%d on %s for counter %d was refused: %v", g, cw.names[f], ctr, errs[g][i])
			}
			cw.pending[f][ctr] = append(cw.pending[f][ctr], slots[i].diff[g])
		}
		acc := 0
		for g := 3; g < 5; g++ {
			if errs[g][i] == nil {
				acc++
			}
		}
		switch {
		case acc == 0:
			cw.viol("duel/same-callback-never-accepted", "burst: the same function value was registered by two goroutines at once on %s for counter %d and both calls were refused", cw.names[f], ctr)
		case acc > 1:
			cw.viol("duel/same-callback-accepted-twice", "burst: the same function value was registered by two goroutines at once on %s for counter %d and both calls returned no error", cw.names[f], ctr)
		}
		cw.pending[f][ctr] = append(cw.pending[f][ctr], slots[i].same)
	}
	c.Count("refused-duplicates-judged", M)
	cw.duels++
	if c.Failed() {
		return false
	}
	var want []c14Inv
	for i := 0; i < M; i++ {
		cw.nArr++
		a := c14Arrival{peer: r.Intn(2), kind: "result", feat: f, ref: util.Ptr(base + model.MsgCounterType(i)), n: 1000*cw.nArr + r.Intn(1000)}
		switch f {
		case 0:
			a.srcFeat = 1
		case 1:
			a.srcFeat = 2
		case 2:
			a.srcFeat = 3
		}
		cw.shapeResult(&a)
		want = append(want, cw.due(a)...)
		cw.inject(a)
	}
	cw.logf("BURST settled by one matching result per counter -> %d invocations due", len(want))
	return cw.settle("after one matching result for each of the concurrently registered counters", "duel", want)
}

// c14Storm: arrivals that OVERLAP each other. Ten fresh counters Y0..Y9 of one feature carry 2-3 registrations each.
// Two goroutines - the readers of the connections of peer0 and peer1, which are independent of each other in a real
// process - each deliver one matching message per counter (reply or result, drawn), walking the counters in the same
// order behind a spinning start line and re-aligning before every counter (pacing only), so that the two messages for
// one counter are processed at the same time. Concurrently a third goroutine registers two callbacks each for ten OTHER
// counters X0..X9 of the same feature, and three goroutines register four result callbacks each on it.
// From the statement: every registration for a Y counter is invoked exactly once, with one of the two messages that
// reference its counter; a result callback registered before is invoked once per result message; a registration for an
// X counter is not invoked by any Y message and is not lost; a result callback registered during the storm is invoked at
// most once per result message of the storm and, registered by then, exactly once by every later result. Afterwards
// one matching result per X counter arrives: each X registration fires exactly once, and every result callback -
// including the twelve registered concurrently - once per result.
func c14Storm(cw *c14World, f int) bool {
	c, r := cw.c, cw.c.Rand
	const M = 10
	baseY, baseX := model.MsgCounterType(60), model.MsgCounterType(80)
	srcFeat := []uint{1, 2, 3, 0}[f]
	for i := 0; i < M; i++ {
		fn0 := r.Intn(len(c14Fns))
		for k, n := 0, 2+r.Intn(2); k < n; k++ {
			cw.register(f, baseY+model.MsgCounterType(i), (fn0+k)%len(c14Fns))
		}
	}
	if c.Failed() {
		return false
	}
	var arr [2][]c14Arrival
	var whats [2][]string
	for pi := 0; pi < 2; pi++ {
		for i := 0; i < M; i++ {
			cw.nArr++
			a := c14Arrival{peer: pi, kind: "result", feat: f, srcFeat: srcFeat, ref: util.Ptr(baseY + model.MsgCounterType(i)), n: 1000*cw.nArr + r.Intn(1000)}
			if f < 3 && r.Intn(2) == 0 {
				a.kind, a.k = "reply", 1+r.Intn(3)
			} else {
				cw.shapeResult(&a)
			}
			arr[pi] = append(arr[pi], a)
			whats[pi] = append(whats[pi], cw.whatOf(a))
		}
	}
	// registrations made concurrently: response callbacks for the X counters, result callbacks
	xregs := make([][2]*c14Reg, M)
	xerrs := make([][2]error, M)
	for i := range xregs {
		fn0 := r.Intn(len(c14Fns))
		for k := 0; k < 2; k++ {
			cw.nextReg++
			rg := &c14Reg{id: cw.nextReg, feat: f, fn: (fn0 + k) % len(c14Fns), ctr: baseX + model.MsgCounterType(i), racing: true}
			rg.f = c14Fns[rg.fn](cw.log, rg.id)
			xregs[i][k] = rg
		}
	}
	const RG, RK = 3, 4
	var newRes [RG][RK]int
	var newResF [RG][RK]func(api.ResponseMessage)
	isNewRes := map[int]bool{}
	for g := 0; g < RG; g++ {
		for k := 0; k < RK; k++ {
			cw.nextReg++
			newRes[g][k] = cw.nextReg
			newResF[g][k] = c14FR(cw.log, cw.nextReg)
			isNewRes[cw.nextReg] = true
		}
	}
	oldRes := append([]int(nil), cw.results[f]...)
	cw.shape = append(cw.shape, fmt.Sprintf("STORM%d", f))
	cw.logf("STORM on %s: peer0 and peer1 each deliver one matching message for the counters %d..%d at the same time (registrations pending: 2-3 per counter); concurrently 2 callbacks each are registered for the counters %d..%d and %d result callbacks from %d goroutines", cw.names[f], baseY, int(baseY)+M-1, baseX, int(baseX)+M-1, RG*RK, RG)
	var ready atomic.Int32
	var start atomic.Bool
	var prog [2]atomic.Int32
	var wg sync.WaitGroup
	line := func() {
		ready.Add(1)
		for i := 0; !start.Load(); i++ {
			if i > 1<<14 {
				runtime.Gosched()
			}
		}
	}
	for pi := 0; pi < 2; pi++ {
		pi := pi
		wg.Add(1)
		go func() {
			defer wg.Done()
			line()
			for i := 0; i < M; i++ {
				prog[pi].Store(int32(i))
				for spin := 0; int(prog[1-pi].Load()) < i && spin < 1<<15; spin++ { // pacing only: both readers reach counter i together
				}
				cw.inject0(arr[pi][i])
			}
			prog[pi].Store(M)
		}()
	}
	wg.Add(1)
	go func() {
		defer wg.Done()
		line()
		for i := 0; i < M; i++ {
			for spin := 0; int(prog[0].Load()) < i && spin < 1<<15; spin++ { // pacing only: spread over the whole storm
			}
			for k := 0; k < 2; k++ {
				xerrs[i][k] = cw.feats[f].AddResponseCallback(baseX+model.MsgCounterType(i), xregs[i][k].f)
			}
		}
	}()
	for g := 0; g < RG; g++ {
		g := g
		wg.Add(1)
		go func() {
			defer wg.Done()
			line()
			for k := 0; k < RK; k++ {
				if g > 0 { // two of the three goroutines spread their calls over the storm (pacing only): registrations race results
					for spin := 0; int(prog[g-1].Load()) < (g+1)*k && spin < 1<<15; spin++ {
					}
				}
				cw.feats[f].AddResultCallback(newResF[g][k])
			}
		}()
	}
	for i := 0; int(ready.Load()) < 3+RG && i < 1<<20; i++ {
		runtime.Gosched()
	}
	start.Store(true)
	done := make(chan struct{})
	go func() { wg.Wait(); close(done) }()
	select {
	case <-done:
	case <-time.After(30 * time.Second):
		c.Inconclusive("overlapping arrivals / concurrent registrations did not return within 30s")
		return false
	}
	if !rig.WaitQuiet(cw.baseline, 20*time.Second) {
		c.Inconclusive("process not quiet after the overlapping arrivals")
		return false
	}
	got := cw.log.take()
	c.Events(int64(len(got)) + 2*M + 2*M + RG*RK)
	// the reference
	yIdx := map[int]int{} // registration -> counter index
	for i := 0; i < M; i++ {
		ct := baseY + model.MsgCounterType(i)
		for _, rg := range cw.pending[f][ct] {
			yIdx[rg.id] = i
		}
		cw.consumed[f][ct] = true
		delete(cw.pending[f], ct)
	}
	resultWhat := map[string]bool{}
	for pi := 0; pi < 2; pi++ {
		for i, a := range arr[pi] {
			if a.kind == "result" {
				resultWhat[whats[pi][i]] = true
			}
			cw.noteInjected(a)
		}
	}
	isOldRes := map[int]bool{}
	for _, id := range oldRes {
		isOldRes[id] = true
	}
	isX := map[int]bool{}
	for i := range xregs {
		for k := 0; k < 2; k++ {
			isX[xregs[i][k].id] = true
		}
	}
	nY := map[int]int{}
	nRes := map[string]int{} // "#id what" of result callbacks
	detail := func() string {
		return fmt.Sprintf("messages of peer0:\n  %s\nmessages of peer1:\n  %s\nobserved invocations (%d):\n  %s", strings.Join(whats[0], "\n  "), strings.Join(whats[1], "\n  "), len(got), strings.Join(c14Multiset(got), "\n  "))
	}
	for _, x := range got {
		switch i, isY := yIdx[x.reg]; {
		case isY:
			nY[x.reg]++
			if x.what != whats[0][i] && x.what != whats[1][i] {
				cw.viol("overlap/wrong-message-or-feature", "registration #%d for counter %d on %s was invoked with %q; the two messages referencing its counter are\n  %s\n  %s", x.reg, int(baseY)+i, cw.names[f], x.what, whats[0][i], whats[1][i])
				return false
			}
		case isOldRes[x.reg] || isNewRes[x.reg]:
			if !resultWhat[x.what] {
				cw.viol("overlap/result-callback-invoked-without-a-result", "result callback #%d was invoked with %q, which is none of the result messages delivered\n%s", x.reg, x.what, detail())
				return false
			}
			nRes[fmt.Sprintf("#%d %s", x.reg, x.what)]++
		case isX[x.reg]:
			cw.viol("overlap/callback-not-due-invoked", "registration #%d for a counter %d..%d nobody has referenced yet was invoked with %q\n%s", x.reg, baseX, int(baseX)+M-1, x.what, detail())
			return false
		default:
			cw.viol("overlap/callback-not-due-invoked", "registration #%d is not concerned by any of the messages and was invoked with %q\n%s", x.reg, x.what, detail())
			return false
		}
	}
	for id, i := range yIdx {
		switch n := nY[id]; {
		case n == 0:
			cw.viol("overlap/due-callback-not-invoked", "registration #%d for counter %d on %s: two matching messages (one per peer) arrived at the same time, it was never invoked\n%s", id, int(baseY)+i, cw.names[f], detail())
			return false
		case n > 1:
			cw.viol("overlap/callback-invoked-more-than-once", "registration #%d for counter %d on %s was invoked %d times: once by each of the two matching messages that arrived at the same time\n%s", id, int(baseY)+i, cw.names[f], n, detail())
			return false
		}
	}
	for w := range resultWhat {
		for _, id := range oldRes {
			switch n := nRes[fmt.Sprintf("#%d %s", id, w)]; {
			case n == 0:
				cw.viol("overlap/result-callback-not-invoked-for-a-result", "result callback #%d (registered before) was not invoked for the result %q\n%s", id, w, detail())
				return false
			case n > 1:
				cw.viol("overlap/result-callback-invoked-more-than-once-for-one-result", "result callback #%d was invoked %d times for the result %q\n%s", id, n, w, detail())
				return false
			}
		}
	}
	for k, n := range nRes {
		if n > 1 {
			cw.viol("overlap/result-callback-invoked-more-than-once-for-one-result", "%s: %d invocations\n%s", k, n, detail())
			return false
		}
	}
	for i := range xregs {
		for k := 0; k < 2; k++ {
			if xerrs[i][k] != nil {
				cw.viol("overlap/different-callback-refused", "registration of F%d for counter %d on %s, made while messages for other counters arrived, was refused: %v", xregs[i][k].fn, xregs[i][k].ctr, cw.names[f], xerrs[i][k])
				return false
			}
			cw.pending[f][xregs[i][k].ctr] = append(cw.pending[f][xregs[i][k].ctr], xregs[i][k])
		}
	}
	for g := 0; g < RG; g++ {
		for k := 0; k < RK; k++ {
			cw.results[f] = append(cw.results[f], newRes[g][k])
		}
	}
	c.Count("invocations-judged", int64(len(got)))
	c.Count("overlap:storms", 1)
	c.Count("overlap:counters-with-two-matching-messages-at-the-same-time", M)
	c.Count("overlap:registrations-made-while-messages-for-other-counters-arrive", 2*M)
	c.Count("overlap:result-callbacks-registered-concurrently", RG*RK)
	both := 0
	for i := 0; i < M; i++ {
		seen := map[string]bool{}
		for _, x := range got {
			if j, ok := yIdx[x.reg]; ok && j == i {
				seen[x.what] = true
			}
		}
		if len(seen) > 1 {
			both++
		}
	}
	c.Count("overlap:counters-whose-registrations-were-served-by-both-messages", int64(both))
	// one matching result per X counter: nothing registered concurrently was lost
	var want []c14Inv
	for i := 0; i < M; i++ {
		cw.nArr++
		a := c14Arrival{peer: r.Intn(2), kind: "result", feat: f, srcFeat: srcFeat, ref: util.Ptr(baseX + model.MsgCounterType(i)), n: 1000*cw.nArr + r.Intn(1000)}
		cw.shapeResult(&a)
		want = append(want, cw.due(a)...)
		cw.inject(a)
	}
	cw.logf("STORM follow-up: one matching result per counter %d..%d -> %d invocations due (each concurrently registered callback once, each of the %d result callbacks once per result)", baseX, int(baseX)+M-1, len(want), len(cw.results[f]))
	return cw.settle("after one matching result for each counter registered while other messages arrived (and for every result callback registered concurrently)", "overlap-follow-up", want)
}

// ---------------------------------------------------------------------------
// part blocked: callbacks that do not return
//
// A response callback is application code: it may take long, or wait for something (typically for the answer to
// another request). The statement does not make what it promises depend on callbacks returning. In this part 1-2 of
// the 1-3 callbacks registered for counter N on feature f park on a harness gate (eGate) that the case opens only at
// the LOGICAL end of its window; nothing is decided by a clock:
//
//   1. a matching message (reply or result) referencing N arrives at f; the process is awaited quiet "except for the
//      parked callbacks" (goroutine count = baseline + callbacks inside the gate). The parked callbacks have logged
//      their entry. Siblings (other callbacks of the SAME message) that have not been invoked yet are not judged
//      now - an implementation may invoke the callbacks of one message one after the other - they are owed and
//      must have been invoked exactly once when the gate has been opened.
//   2. window, while the callbacks are parked, 2-5 drawn operations, each awaited quiet and judged:
//      again     a second message referencing N arrives at f (a result following a reply, a reply following a
//                result, the same kind again; from the same peer or from the other, identically numbered one -
//                callbacks are keyed by feature and counter only, the existing expectation): the registration was
//                consumed by the first arrival, so neither the parked callback nor any sibling is invoked a second
//                time (result callbacks are due as always);
//      late-reg  AddResponseCallback(N, Y) with a function not registered for N before: must not be refused (it is a
//                different function); Y was registered after the first response had arrived, so it is never invoked
//                with THAT message and is due exactly once with the NEXT message referencing N at f (an "again" of
//                the window, or the final sweep after the gate was opened);
//      other-ref / other-feat  a message referencing another counter M at f, or N / M at another feature g, where
//                callbacks are pending: they are due with that message, and must have been invoked when the process
//                is quiet - a parked callback of another reference or feature must not hold them up (if the count does
//                not settle because goroutines of the stack wait for a lock that is held on behalf of the parked
//                callback, the standstill is recognised from goroutine dumps, eQuietOrStuck, and judged likewise);
//      nothing   a reference nobody registered for: nothing fires.
//   3. the gate is opened; at quiescence exactly the owed sibling invocations have happened, nothing else.
//   4. after that every still pending registration is settled by one matching result: exactly once each (a
//      registration accepted during the window that got lost shows up here).
//
// Delivery is guarded: if HandleSpineMesssage does not return while a callback is parked the case is inconclusive
// (the statement does not say that callbacks are invoked asynchronously).

func c14B0(l *c14Log, reg int, g *eGate) func(api.ResponseMessage) {
	return func(m api.ResponseMessage) { l.rec(reg, 10, m); g.wait() }
}
func c14B1(l *c14Log, reg int, g *eGate) func(api.ResponseMessage) {
	return func(m api.ResponseMessage) { l.rec(reg, 11, m); g.wait() }
}

var c14Blk = []func(*c14Log, int, *eGate) func(api.ResponseMessage){c14B0, c14B1}

type c14Blocked struct {
	cw    *c14World
	gate  *eGate
	owed  []c14Inv    // invocations due with the first message that had not happened when the process was quiet
	fired map[int]int // registration -> invocations seen so far
}

func (b *c14Blocked) registerBlocker(feat int, ctr model.MsgCounterType, bi int) {
	cw := b.cw
	cw.nextReg++
	rg := &c14Reg{id: cw.nextReg, feat: feat, fn: 10 + bi, ctr: ctr}
	rg.f = c14Blk[bi](cw.log, rg.id, b.gate)
	err := cw.feats[feat].AddResponseCallback(ctr, rg.f)
	cw.c.Events(1)
	cw.logf("register #%d on %s counter %d function B%d (does not return until the gate is opened) -> err=%v", rg.id, cw.names[feat], ctr, bi, err)
	if err != nil {
		cw.viol("register/different-callback-refused", "registration of B%d on %s for counter %d was refused (%v); pending there: %s", bi, cw.names[feat], ctr, err, cw.pendingStr(feat, ctr))
		return
	}
	cw.pending[feat][ctr] = append(cw.pending[feat][ctr], rg)
}

// deliver injects a under a watchdog. false: the delivery did not return (inconclusive, gate opened).
func (b *c14Blocked) deliver(a c14Arrival) bool {
	done := make(chan struct{})
	go func() { defer close(done); b.cw.inject(a) }()
	select {
	case <-done:
		return true
	case <-time.After(10 * time.Second):
		inside := b.gate.inside()
		b.gate.open()
		b.cw.c.Inconclusive("the delivery of %s did not return within 10s while %d callbacks were parked", a, inside)
		<-done
		return false
	}
}

// settle awaits the process quiet except for the parked callbacks and compares the invocations since the last
// call with want (+ anything still owed). lenient: invocations of want that have not happened are owed as long as
// a callback is parked (siblings of a parked callback, step 1); otherwise every due invocation must have happened.
func (b *c14Blocked) settle(where, class string, want []c14Inv, lenient bool) bool {
	cw := b.cw
	state, standstill := eQuietOrStuck(cw.baseline, b.gate.inside, 20*time.Second)
	if state == "" {
		cw.c.Inconclusive("process not quiet (goroutines %d, baseline %d, parked callbacks %d) after %s", runtime.NumGoroutine(), cw.baseline, b.gate.inside(), where)
		return false
	}
	if state == "stuck" {
		// not quiet by count, but at a standstill: every goroutine of the stack waits for a lock, the rest is parked in
		// the gate. Nothing more can happen before the gate is opened: as decidable as quiescence.
		cw.c.Count("blocked:judged-at-a-standstill(goroutines-of-the-stack-wait-for-locks-while-a-callback-is-parked)", 1)
		cw.logf("STANDSTILL after %s: %s", where, standstill)
	}
	got := cw.log.take()
	inside := b.gate.inside()
	cw.c.Events(int64(len(got)) + 1)
	key := func(x c14Inv) string { return fmt.Sprintf("#%d %s", x.reg, x.what) }
	wantLeft := append([]c14Inv(nil), want...)
	var unexpected []c14Inv
	seenNow := map[int]int{}
	for _, g := range got {
		matched := false
		for i, w := range wantLeft {
			if key(w) == key(g) {
				wantLeft = append(wantLeft[:i], wantLeft[i+1:]...)
				matched = true
				break
			}
		}
		if !matched {
			for i, w := range b.owed {
				if key(w) == key(g) {
					b.owed = append(b.owed[:i], b.owed[i+1:]...)
					matched = true
					cw.c.Count("blocked:owed-sibling-invocations-seen-later", 1)
					break
				}
			}
		}
		if !matched {
			unexpected = append(unexpected, g)
		}
		seenNow[g.reg]++
	}
	render := func(l []c14Inv) string { return strings.Join(c14Multiset(l), "\n  ") }
	detail := func() string {
		return fmt.Sprintf("%s (callbacks parked now: %d):\n expected invocations (%d):\n  %s\n still owed from the first message (%d):\n  %s\n observed invocations (%d):\n  %s",
			where, inside, len(want), render(want), len(b.owed), render(b.owed), len(got), render(got))
	}
	ok := true
	if len(unexpected) > 0 {
		x := unexpected[0]
		dev := "callback-not-due-invoked"
		if b.fired[x.reg] > 0 || seenNow[x.reg] > 1 {
			dev = "callback-invoked-more-than-once"
		} else {
			for _, w := range append(append([]c14Inv(nil), wantLeft...), b.owed...) {
				if w.reg == x.reg {
					dev = "wrong-message-or-feature"
					hw, hx := w.what, x.what
					if i := strings.Index(hw, " data="); i >= 0 {
						hw = hw[:i]
					}
					if i := strings.Index(hx, " data="); i >= 0 {
						hx = hx[:i]
					}
					if hw == hx {
						dev = "data-is-not-the-received-data"
					}
				}
			}
		}
		cw.viol(class+"/"+dev, "%s", detail())
		ok = false
	}
	for r, n := range seenNow {
		b.fired[r] += n
	}
	if len(wantLeft) > 0 && ok {
		switch {
		case lenient && inside > 0:
			b.owed = append(b.owed, wantLeft...)
			cw.c.Count("blocked:sibling-invocations-not-yet-made-while-a-callback-is-parked(owed)", int64(len(wantLeft)))
		case inside > 0:
			cw.viol(class+"/due-callback-not-invoked-while-another-callback-is-parked", "%s", detail())
			ok = false
		default:
			cw.viol(class+"/due-callback-not-invoked", "%s", detail())
			ok = false
		}
	}
	if ok {
		cw.c.Count("invocations-judged", int64(len(got)))
		if len(want) == 0 {
			cw.c.Count("arrivals-that-must-fire-nothing", 1)
		}
	}
	return ok
}

func c14BlockedCase(c *rig.Ctx) {
	cw := newC14World(c)
	b := &c14Blocked{cw: cw, gate: newEGate(90 * time.Second), fired: map[int]int{}}
	defer cw.w.Close()
	defer b.gate.open()
	r := c.Rand
	var windowOps []string
	var judgedInWindow, fired int64
	defer func() {
		c.Shape(fmt.Sprintf("blocked/%s", c13Hash(cw.shape)))
		tr := cw.trace
		if len(tr) > 60 {
			tr = tr[:60]
		}
		c.Sample(map[string]any{"part": "blocked", "window": windowOps, "history": tr})
		if n := b.gate.expiries(); n > 0 {
			c.Inconclusive("%d parked callbacks were not released within 90s", n)
		}
		if c.Failed() {
			c.Witness(map[string]any{"part": "blocked", "history": cw.trace})
			c.Count("cases_with_violations", 1)
		}
		c.NonTrivial(b.gate.everParked() > 0 && judgedInWindow > 0 && fired > 0)
	}()
	for f := range cw.feats {
		for k := r.Intn(3); k > 0; k-- {
			cw.registerResult(f)
		}
	}
	ctrs := []model.MsgCounterType{7, 8, 9, 10}
	r.Shuffle(len(ctrs), func(i, j int) { ctrs[i], ctrs[j] = ctrs[j], ctrs[i] })
	N, M := ctrs[0], ctrs[1]
	f := []int{0, 0, 0, 1, 1, 1, 2, 2, 3}[r.Intn(9)] // replies reach A, B and the server feature S; NodeManagement gets results
	srcOf := func(feat int) uint { return []uint{1, 2, 3, 0}[feat] }
	mk := func(kind string, feat int, ref model.MsgCounterType, peer int) c14Arrival {
		cw.nArr++
		if feat >= 3 {
			kind = "result"
		}
		a := c14Arrival{peer: peer, kind: kind, feat: feat, srcFeat: srcOf(feat), ref: util.Ptr(ref), n: 1000*cw.nArr + r.Intn(1000), errNo: r.Intn(3)}
		if kind == "result" {
			cw.shapeResult(&a)
		}
		cw.shapeReply(&a)
		return a
	}
	kindOf := func() string {
		if r.Intn(2) == 0 {
			return "result"
		}
		return "reply"
	}
	// the callbacks for (f, N): 1-3, of which 1-2 park; drawn order
	k := 1 + r.Intn(3)
	nb := 1
	if k > 1 && r.Intn(2) == 0 {
		nb = 2
	}
	order := r.Perm(k)
	usedFn := map[int]bool{}
	nextFn := r.Intn(len(c14Fns))
	freshFn := func() int {
		for usedFn[nextFn] {
			nextFn = (nextFn + 1) % len(c14Fns)
		}
		usedFn[nextFn] = true
		return nextFn
	}
	bi := 0
	for _, pos := range order {
		if pos < nb {
			cw.shape = append(cw.shape, fmt.Sprintf("regB%d", f))
			b.registerBlocker(f, N, bi)
			bi++
		} else {
			cw.shape = append(cw.shape, fmt.Sprintf("reg%d", f))
			cw.register(f, N, freshFn())
		}
	}
	// bystanders of the window: the same counter on another feature, another counter on f, another counter elsewhere
	g := (f + 1 + r.Intn(3)) % 4
	type slot struct {
		feat int
		ctr  model.MsgCounterType
	}
	var others []slot
	if r.Intn(3) > 0 {
		for n := 1 + r.Intn(2); n > 0; n-- {
			cw.register(f, M, (n+r.Intn(2)*2)%len(c14Fns))
		}
		others = append(others, slot{f, M})
		cw.shape = append(cw.shape, "otherref")
	}
	if r.Intn(2) == 0 {
		cw.register(g, N, r.Intn(len(c14Fns)))
		others = append(others, slot{g, N})
		cw.shape = append(cw.shape, fmt.Sprintf("samectr%d", g))
	}
	if r.Intn(3) == 0 {
		g2 := (f + 1 + r.Intn(3)) % 4
		if len(cw.pending[g2][M]) == 0 {
			cw.register(g2, M, r.Intn(len(c14Fns)))
			others = append(others, slot{g2, M})
			cw.shape = append(cw.shape, fmt.Sprintf("otherboth%d", g2))
		}
	}
	if c.Failed() {
		return
	}

	// 1. the first matching message: the parked callbacks enter and stay
	a1 := mk(kindOf(), f, N, r.Intn(2))
	want := cw.due(a1)
	cw.shape = append(cw.shape, "first-"+a1.kind)
	cw.logf("FIRST arrival %s -> %d invocations due, %d of the callbacks will not return before the gate is opened", a1, len(want), nb)
	if !b.deliver(a1) || !b.settle("after the first message "+a1.String(), "blocked-first-arrival", want, true) {
		return
	}
	fired += int64(len(want))
	if b.gate.inside() == 0 {
		cw.viol("blocked-first-arrival/no-callback-entered", "the process is quiet after %s and none of the %d parking callbacks registered for counter %d on %s is inside its invocation", a1, nb, N, cw.names[f])
		return
	}
	c.Count("blocked:windows(a-callback-is-parked)", 1)
	c.Count("blocked:callbacks-parked", int64(b.gate.inside()))

	// 2. the window
	ops := []string{"again", "late-reg"}
	if r.Intn(3) == 0 {
		ops = []string{ops[r.Intn(2)]} // only one of the two
	}
	for n := r.Intn(4); n > 0; n-- {
		ops = append(ops, []string{"again", "again", "late-reg", "other", "other", "nothing"}[r.Intn(6)])
	}
	for range others {
		if r.Intn(3) > 0 {
			ops = append(ops, "other")
		}
	}
	r.Shuffle(len(ops), func(i, j int) { ops[i], ops[j] = ops[j], ops[i] })
	lastKind := a1.kind
	for _, op := range ops {
		if c.Failed() {
			return
		}
		switch op {
		case "again":
			kind := kindOf()
			if r.Intn(2) == 0 && f < 3 { // a result following a reply, a reply following a result
				kind = map[string]string{"reply": "result", "result": "reply"}[lastKind]
			}
			peer := a1.peer
			cross := r.Intn(2) == 0
			if cross {
				peer = 1 - peer
			}
			a := mk(kind, f, N, peer)
			lastKind = a.kind
			want := cw.due(a)
			cw.shape = append(cw.shape, fmt.Sprintf("again-%s-%v-%d", a.kind, cross, len(want)))
			windowOps = append(windowOps, fmt.Sprintf("again(%s, other peer=%v)", a.kind, cross))
			cw.logf("WINDOW repeated reference: %s -> %d invocations due (%d callbacks parked)", a, len(want), b.gate.inside())
			lateDue := len(want)
			if a.kind == "result" {
				lateDue -= len(cw.results[f])
			}
			c.Seen("blocked_repeated_reference_classes", fmt.Sprintf("first=%s/second=%s/other-peer=%v/to=%s/late-registrations-due=%d", a1.kind, a.kind, cross, cw.names[f], lateDue))
			if !b.deliver(a) || !b.settle("after the repeated reference "+a.String(), "blocked-repeated-reference", want, false) {
				return
			}
			fired += int64(len(want))
			c.Count("blocked:repeated-references-judged-while-a-callback-is-parked", 1)
			judgedInWindow++
		case "late-reg":
			if len(usedFn) >= len(c14Fns) {
				continue
			}
			cw.shape = append(cw.shape, "late-reg")
			windowOps = append(windowOps, "late-reg")
			cw.logf("WINDOW registration for counter %d on %s while %d callbacks invoked for it are parked:", N, cw.names[f], b.gate.inside())
			cw.register(f, N, freshFn())
			c.Count("blocked:registrations-for-the-counter-while-its-callback-is-parked", 1)
			if !b.settle("after a registration during the window", "blocked-late-registration", nil, false) {
				return
			}
			judgedInWindow++
		case "other":
			if len(others) == 0 {
				continue
			}
			s := others[r.Intn(len(others))]
			if len(cw.pending[s.feat][s.ctr]) == 0 {
				continue
			}
			a := mk(kindOf(), s.feat, s.ctr, r.Intn(2))
			want := cw.due(a)
			cw.shape = append(cw.shape, fmt.Sprintf("other-%s-%v-%v", a.kind, s.feat == f, s.ctr == N))
			windowOps = append(windowOps, fmt.Sprintf("other(%s to %s counter %d)", a.kind, cw.names[s.feat], s.ctr))
			cw.logf("WINDOW other reference/feature: %s -> %d invocations due (%d callbacks parked)", a, len(want), b.gate.inside())
			c.Seen("blocked_other_classes", fmt.Sprintf("%s/same-feature=%v/same-counter=%v", a.kind, s.feat == f, s.ctr == N))
			if !b.deliver(a) || !b.settle("after "+a.String(), "blocked-other-reference", want, false) {
				return
			}
			fired += int64(len(want))
			c.Count("blocked:callbacks-of-other-references-served-while-a-callback-is-parked", int64(len(want)))
			judgedInWindow++
		default:
			a := mk(kindOf(), f, 99, r.Intn(2))
			want := cw.due(a)
			cw.shape = append(cw.shape, "nothing-"+a.kind)
			windowOps = append(windowOps, "unregistered reference")
			cw.logf("WINDOW unregistered reference: %s -> %d invocations due", a, len(want))
			if !b.deliver(a) || !b.settle("after "+a.String(), "blocked-non-matching", want, false) {
				return
			}
			judgedInWindow++
		}
	}
	if c.Failed() {
		return
	}

	// 3. the logical end of the window: the gate is opened; the owed siblings (if any) run now, nothing else
	cw.logf("GATE OPENED (%d callbacks parked, %d sibling invocations owed)", b.gate.inside(), len(b.owed))
	b.gate.open()
	if !b.settle("after the gate was opened", "blocked-release", nil, false) {
		return
	}
	if len(b.owed) > 0 {
		cw.viol("blocked-release/due-callback-not-invoked", "the gate is open and the process is quiet; %d invocations due with the first message never happened:\n  %s", len(b.owed), strings.Join(c14Multiset(b.owed), "\n  "))
		return
	}
	// 4. after the window: sometimes the reference once more, then every pending registration is settled
	if r.Intn(2) == 0 {
		a := mk(kindOf(), f, N, r.Intn(2))
		want := cw.due(a)
		cw.shape = append(cw.shape, fmt.Sprintf("after-%s-%d", a.kind, len(want)))
		cw.logf("AFTER the window: %s -> %d invocations due", a, len(want))
		if !b.deliver(a) || !b.settle("after the window: "+a.String(), "blocked-after-window", want, false) {
			return
		}
		fired += int64(len(want))
	}
	for ft := range cw.feats {
		var cts []model.MsgCounterType
		for ct := range cw.pending[ft] {
			cts = append(cts, ct)
		}
		sort.Slice(cts, func(i, j int) bool { return cts[i] < cts[j] })
		for _, ct := range cts {
			if c.Failed() {
				return
			}
			a := mk("result", ft, ct, r.Intn(2))
			want := cw.due(a)
			late := ft == f && ct == N
			cw.logf("final arrival %s -> %d invocations due", a, len(want))
			class := "blocked-final"
			if late {
				class = "blocked-final-late-registration"
				c.Count("blocked:late-registrations-settled-after-the-window", int64(len(want)-len(cw.results[ft])))
			}
			if !b.deliver(a) || !b.settle("after final "+a.String(), class, want, false) {
				return
			}
			fired += int64(len(want))
		}
	}
}

// ---------------------------------------------------------------------------
// part reentrant: callbacks that call back into the stack
//
// The usual way to use response callbacks is a chain: the callback for the answer to request 1 sends request 2 and
// registers the callback for ITS answer - from inside the callback, on the same local feature; or it adds a result
// callback. The statement does not make anything depend on WHERE a registration is made, so a registration made from
// inside a callback is a registration like any other: it must not be refused (different function / other counter), it
// is invoked exactly once with the next accepted reply or result referencing its counter at its feature, a result
// callback added there is invoked once for every LATER result (for the result that is being dispatched while it is
// added either is accepted) - and above all the stack must still be alive afterwards.
//
// One case: 1-3 callbacks for counter N on feature f, 1-2 of them re-entrant: on their (first) invocation they carry
// out 1-4 drawn plans {register a follow-up for N2 on f (itself re-entrant: it registers a callback for N3 - a chain of
// depth 2), register another function for the SAME counter N on f, register for N2 on another feature g, add a result
// callback on f, add a result callback on g}; in every second case a re-entrant RESULT callback on f registers a
// response callback for a fourth counter on its first invocation. Then: a matching message for N, and in a drawn order
// matching messages for (f,N2), (g,N2), (f,N) again, (f,N3); finally every pending registration is settled by matching
// results (repeated while the sweep itself creates registrations). Every delivery is followed by quiescence, the
// invocations are compared with the reference as in the other parts, and the registrations the callbacks made in the
// meantime enter the reference at that quiet point.
//
// Liveness: every delivery runs on a helper goroutine under a watchdog (expiry = inconclusive). If the delivery does
// not return or the process does not become quiet, goroutine dumps decide (eAllLockWaiting / eQuietOrStuck): when
// every goroutine with a frame of the stack waits for a lock on three dumps in a row nothing can ever happen again -
// the callback's call into the stack and the delivery wait for each other. That standstill is the violation
// (signature reentrant/standstill...): the registrations the callback was about to make, and every later message for
// that feature, can never be served.

type c14RePlan struct {
	kind  string // "response" | "result"
	feat  int
	ctr   model.MsgCounterType
	rg    *c14Reg
	resID int
	resF  func(api.ResponseMessage)
	name  string
	ran   atomic.Bool
	done  atomic.Bool
	err   error
	seen  bool // entered the reference
}

type c14Re struct {
	cw     *c14World
	plans  []*c14RePlan
	wedged bool
	made   int64
}

func (re *c14Re) run(plans []*c14RePlan) {
	for _, pl := range plans {
		if !pl.ran.CompareAndSwap(false, true) {
			continue
		}
		switch pl.kind {
		case "response":
			pl.err = re.cw.feats[pl.feat].AddResponseCallback(pl.ctr, pl.rg.f)
		default:
			re.cw.feats[pl.feat].AddResultCallback(pl.resF)
		}
		pl.done.Store(true)
	}
}

// three different function literals for re-entrant response callbacks, one for the re-entrant result callback
func c14RE0(re *c14Re, reg int, plans []*c14RePlan) func(api.ResponseMessage) {
	return func(m api.ResponseMessage) { re.cw.log.rec(reg, 20, m); re.run(plans) }
}
func c14RE1(re *c14Re, reg int, plans []*c14RePlan) func(api.ResponseMessage) {
	return func(m api.ResponseMessage) { re.cw.log.rec(reg, 21, m); re.run(plans) }
}
func c14RE2(re *c14Re, reg int, plans []*c14RePlan) func(api.ResponseMessage) {
	return func(m api.ResponseMessage) { re.cw.log.rec(reg, 22, m); re.run(plans) }
}
func c14RER(re *c14Re, reg int, plans []*c14RePlan) func(api.ResponseMessage) {
	return func(m api.ResponseMessage) { re.cw.log.rec(reg, 29, m); re.run(plans) }
}

// account moves the registrations the callbacks have made since the last quiet point into the reference.
func (re *c14Re) account() {
	cw := re.cw
	for _, pl := range re.plans {
		if pl.seen || !pl.done.Load() {
			continue
		}
		pl.seen = true
		re.made++
		cw.c.Events(1)
		cw.c.Count("reentrant:registrations-made-from-inside-a-callback:"+pl.name, 1)
		if pl.kind == "response" {
			if pl.err != nil {
				cw.viol("reentrant/registration-from-inside-a-callback-refused", "AddResponseCallback(%d) on %s called from inside a callback (%s) was refused: %v; pending there: %s", pl.ctr, cw.names[pl.feat], pl.name, pl.err, cw.pendingStr(pl.feat, pl.ctr))
				continue
			}
			cw.pending[pl.feat][pl.ctr] = append(cw.pending[pl.feat][pl.ctr], pl.rg)
			cw.logf("  (a callback registered #%d for counter %d on %s: %s)", pl.rg.id, pl.ctr, cw.names[pl.feat], pl.name)
		} else {
			cw.results[pl.feat] = append(cw.results[pl.feat], pl.resID)
			cw.logf("  (a callback added result callback #%d on %s: %s)", pl.resID, cw.names[pl.feat], pl.name)
		}
	}
}

func (re *c14Re) standstill(where, d string) {
	re.wedged = true
	re.cw.viol("reentrant/standstill-after-a-callback-called-back-into-the-stack", "%s: nothing in the process can make progress any more - %s\n(callbacks of this case register a follow-up callback / a result callback on their own local feature from inside their invocation)", where, d)
}

// deliver injects a on a helper goroutine. false: the delivery did not return (standstill = violation, watchdog = inconclusive).
func (re *c14Re) deliver(a c14Arrival) bool {
	cw := re.cw
	done := make(chan struct{})
	go func() { defer close(done); cw.inject(a) }()
	t0 := time.Now()
	stuck := 0
	for {
		select {
		case <-done:
			return true
		case <-time.After(time.Millisecond):
		}
		el := time.Since(t0)
		if el > 60*time.Millisecond { // grace: dumps stop the world
			if ok, d := eAllLockWaiting(); ok {
				stuck++
				if stuck >= 3 {
					re.standstill("the delivery of "+a.String()+" does not return", d)
					return false
				}
			} else {
				stuck = 0
			}
			time.Sleep(2 * time.Millisecond)
		}
		if el > 20*time.Second {
			re.wedged = true
			cw.c.Inconclusive("the delivery of %s did not return within 20s (no standstill visible in the goroutine dumps)", a)
			return false
		}
	}
}

// step delivers a, awaits quiescence (or a standstill), judges the invocations and accounts for what the callbacks did.
func (re *c14Re) step(a c14Arrival, class string) bool {
	cw := re.cw
	cw.optional = map[string]int{}
	if a.kind == "result" {
		for _, pl := range re.plans {
			if pl.kind == "result" && pl.feat == a.feat && !pl.seen {
				cw.optional[fmt.Sprintf("#%d %s", pl.resID, cw.whatOf(a))] = 1
			}
		}
	}
	want := cw.due(a)
	cw.logf("%s: %s -> %d invocations due", class, a, len(want))
	if !re.deliver(a) {
		return false
	}
	state, d := eQuietOrStuck(cw.baseline, func() int { return 0 }, 20*time.Second)
	switch state {
	case "":
		re.wedged = true
		cw.c.Inconclusive("process not quiet (goroutines %d, baseline %d) after %s", runtime.NumGoroutine(), cw.baseline, a)
		return false
	case "stuck":
		re.standstill("after "+a.String()+" was delivered the process does not become quiet", d)
		return false
	}
	ok := cw.settle("after "+a.String(), class, want)
	cw.optional = nil
	re.account()
	return ok && !cw.c.Failed()
}

func c14ReentrantCase(c *rig.Ctx) {
	cw := newC14World(c)
	re := &c14Re{cw: cw}
	r := c.Rand
	var fired int64
	defer func() {
		c.Shape(fmt.Sprintf("reentrant/%s", c13Hash(cw.shape)))
		tr := cw.trace
		if len(tr) > 60 {
			tr = tr[:60]
		}
		c.Sample(map[string]any{"part": "reentrant", "registrations_made_from_inside_callbacks": re.made, "history": tr})
		if c.Failed() {
			c.Witness(map[string]any{"part": "reentrant", "history": cw.trace})
			c.Count("cases_with_violations", 1)
		}
		c.NonTrivial(re.made > 0 && fired > 0)
		// a wedged world may not be closable: Close is guarded, and the world is at least detached from the global bus
		closeMax := 10 * time.Second
		if re.wedged {
			closeMax = 2 * time.Second
		}
		if ok, _ := rig.Guard(closeMax, func() { cw.w.Close() }); !ok {
			_ = spine.VerifUnsubscribeCore(cw.w.Core)
			spine.SetVerifHook(nil)
			c.Count("reentrant:world-could-not-be-closed-after-a-standstill", 1)
			if !re.wedged {
				c.Inconclusive("World.Close did not return within 10s")
			}
		}
	}()
	for f := range cw.feats {
		for k := r.Intn(3); k > 0; k-- {
			cw.registerResult(f)
		}
	}
	ctrs := []model.MsgCounterType{7, 8, 9, 10}
	r.Shuffle(len(ctrs), func(i, j int) { ctrs[i], ctrs[j] = ctrs[j], ctrs[i] })
	N, N2, N3, NR := ctrs[0], ctrs[1], ctrs[2], ctrs[3]
	f := []int{0, 0, 1, 1, 2, 2, 3}[r.Intn(7)]
	g := (f + 1 + r.Intn(3)) % 4
	fns := r.Perm(len(c14Fns))
	plain := func(feat int, ctr model.MsgCounterType, fn int) *c14Reg {
		cw.nextReg++
		rg := &c14Reg{id: cw.nextReg, feat: feat, fn: fn, ctr: ctr}
		rg.f = c14Fns[fn](cw.log, rg.id)
		return rg
	}
	respPlan := func(name string, feat int, ctr model.MsgCounterType, rg *c14Reg) *c14RePlan {
		pl := &c14RePlan{kind: "response", feat: feat, ctr: ctr, rg: rg, name: name}
		re.plans = append(re.plans, pl)
		return pl
	}
	resPlan := func(name string, feat int) *c14RePlan {
		cw.nextReg++
		pl := &c14RePlan{kind: "result", feat: feat, resID: cw.nextReg, resF: c14FR(cw.log, cw.nextReg), name: name}
		re.plans = append(re.plans, pl)
		return pl
	}
	// the chain: the follow-up for N2 registers the callback for N3 when it is invoked
	chain := respPlan("chain: follow-up of the follow-up (counter N3, own feature)", f, N3, plain(f, N3, fns[0]))
	cw.nextReg++
	followRg := &c14Reg{id: cw.nextReg, feat: f, fn: 21, ctr: N2}
	followRg.f = c14RE1(re, followRg.id, []*c14RePlan{chain})
	pool := []*c14RePlan{
		respPlan("follow-up for another counter on the own feature", f, N2, followRg),
		respPlan("another function for the SAME counter on the own feature", f, N, plain(f, N, fns[3])),
		respPlan("follow-up on another feature", g, N2, plain(g, N2, fns[1])),
		resPlan("result callback on the own feature", f),
		resPlan("result callback on another feature", g),
	}
	// drawn subset; the follow-up on the own feature (the usual pattern) is there three times out of four
	var chosen []*c14RePlan
	if r.Intn(4) > 0 {
		chosen = append(chosen, pool[0])
	}
	for _, i := range r.Perm(4)[:r.Intn(4)] {
		chosen = append(chosen, pool[1+i])
	}
	if len(chosen) == 0 {
		chosen = append(chosen, pool[r.Intn(len(pool))])
	}
	// 1-3 callbacks for (f,N): 1-2 re-entrant ones that share the chosen plans, the rest plain; drawn order
	k := 1 + r.Intn(3)
	nre := 1
	if k > 1 && len(chosen) > 1 && r.Intn(2) == 0 {
		nre = 2
	}
	split := [][]*c14RePlan{chosen, nil}
	if nre == 2 {
		cut := 1 + r.Intn(len(chosen)-1)
		split = [][]*c14RePlan{chosen[:cut], chosen[cut:]}
	}
	ri, pi := 0, 0
	for _, pos := range r.Perm(k) {
		if pos < nre {
			cw.nextReg++
			rg := &c14Reg{id: cw.nextReg, feat: f, fn: 20 + 2*ri, ctr: N}
			if ri == 0 {
				rg.f = c14RE0(re, rg.id, split[0])
			} else {
				rg.f = c14RE2(re, rg.id, split[1])
			}
			err := cw.feats[f].AddResponseCallback(N, rg.f)
			var names []string
			for _, pl := range split[ri] {
				names = append(names, pl.name)
				cw.shape = append(cw.shape, "plan:"+pl.name[:12]+fmt.Sprint(pl.feat == f))
			}
			cw.logf("register #%d on %s counter %d: re-entrant callback; when invoked it registers {%s} -> err=%v", rg.id, cw.names[f], N, strings.Join(names, "; "), err)
			if err != nil {
				cw.viol("register/different-callback-refused", "registration of a re-entrant callback on %s for counter %d was refused: %v", cw.names[f], N, err)
				return
			}
			cw.pending[f][N] = append(cw.pending[f][N], rg)
			cw.shape = append(cw.shape, fmt.Sprintf("regRE%d", f))
			ri++
		} else {
			cw.shape = append(cw.shape, fmt.Sprintf("reg%d", f))
			cw.register(f, N, fns[1+pi]) // fns[1], fns[2]: never the function the "same counter" plan uses (fns[3])
			pi++
		}
	}
	// every second case: a re-entrant RESULT callback on f registers a response callback for NR at its first invocation
	if r.Intn(2) == 0 {
		pl := respPlan("response callback registered by a result callback", f, NR, plain(f, NR, fns[2]))
		cw.nextReg++
		id := cw.nextReg
		cw.feats[f].AddResultCallback(c14RER(re, id, []*c14RePlan{pl}))
		cw.results[f] = append(cw.results[f], id)
		cw.logf("register result callback #%d on %s: re-entrant; at its first invocation it registers a response callback for counter %d", id, cw.names[f], NR)
		cw.shape = append(cw.shape, "rreg-RE")
	}
	if c.Failed() {
		return
	}
	srcOf := func(feat int) uint { return []uint{1, 2, 3, 0}[feat] }
	mk := func(feat int, ref model.MsgCounterType) c14Arrival {
		cw.nArr++
		a := c14Arrival{peer: r.Intn(2), kind: "result", feat: feat, srcFeat: srcOf(feat), ref: util.Ptr(ref), n: 1000*cw.nArr + r.Intn(1000)}
		if feat < 3 && r.Intn(2) == 0 {
			a.kind = "reply"
		} else {
			cw.shapeResult(&a)
		}
		cw.shapeReply(&a)
		return a
	}
	stepOn := func(feat int, ref model.MsgCounterType, class string) bool {
		a := mk(feat, ref)
		want := len(cw.pending[feat][ref])
		cw.shape = append(cw.shape, fmt.Sprintf("%s-%s-%d", class, a.kind, want))
		c.Seen("reentrant_step_classes", fmt.Sprintf("%s/%s/to=%s/registrations-due=%v", class, a.kind, cw.names[feat], want > 0))
		if !re.step(a, "reentrant-"+class) {
			return false
		}
		fired += int64(want)
		return true
	}
	if !stepOn(f, N, "first") {
		return
	}
	type st struct {
		feat  int
		ctr   model.MsgCounterType
		class string
	}
	later := []st{{f, N2, "follow-up"}, {g, N2, "follow-up-other-feature"}, {f, N, "same-counter-again"}, {f, N3, "chain-end"}}
	if r.Intn(3) > 0 {
		r.Shuffle(len(later), func(i, j int) { later[i], later[j] = later[j], later[i] })
	}
	for _, s := range later {
		if !stepOn(s.feat, s.ctr, s.class) {
			return
		}
	}
	// everything still pending is settled by matching results; the sweep may itself create registrations
	for round := 0; round < 4; round++ {
		n := 0
		for ft := range cw.feats {
			var cts []model.MsgCounterType
			for ct := range cw.pending[ft] {
				cts = append(cts, ct)
			}
			sort.Slice(cts, func(i, j int) bool { return cts[i] < cts[j] })
			for _, ct := range cts {
				n++
				cw.nArr++
				a := c14Arrival{peer: r.Intn(2), kind: "result", feat: ft, srcFeat: srcOf(ft), ref: util.Ptr(ct), n: 1000*cw.nArr + r.Intn(1000)}
				cw.shapeResult(&a)
				want := len(cw.pending[ft][ct])
				if !re.step(a, "reentrant-final") {
					return
				}
				fired += int64(want)
			}
		}
		if n == 0 {
			break
		}
	}
	for _, pl := range re.plans {
		if pl.seen {
			c.Count("reentrant:plans-carried-out", 1)
		}
	}
}
