package checks

import (
	"fmt"
	"math/rand"
	"reflect"
	"sort"
	"strings"
	"sync"
	"sync/atomic"
	"time"

	"github.com/enbility/spine-go/api"
	"github.com/enbility/spine-go/model"
	"github.com/enbility/spine-go/spine"
	"github.com/enbility/spine-go/util"

	"verifharness/rig"
)

// C13 — outbound message identity: unique counters, issue order, notify cache, sound request
// de-duplication, bounded memory.
//
// Everything is observed at the two boundaries the statement names: the datagrams on each peer's
// writer (tap) and the values returned by the Sender API of that connection (p.RD.Sender()).
//
//   dedupe    sequential histories of requests over a small domain of destinations x commands (two peers,
//             28 keys, plus unique requests that push the number of unanswered requests beyond 20),
//             interleaved with other sends and with responses (direct, as accepted inbound datagrams and as inbound
//             datagrams the stack rejects: foreign function, unknown destination, unknown source feature) that
//             reference unanswered, answered, unknown, repeated and foreign counters. Reference model:
//             the unanswered sent requests per connection. A third of the cases end with the black-box
//             bounded-memory probe.
//             Requests with SEVERAL commands (reachable only through Sender.Request(..., cmd []model.CmdType)) are
//             part of the domain: 8 command lists of 2-3 commands over 2 destinations that share their first
//             command, their last command or a whole prefix with another list or with a single-command request
//             of the domain ([A] [A,B] [A,C] [A,B,C] [B,C] ...). Identity = destination + the WHOLE list: identical
//             lists are duplicates while unanswered, lists that differ anywhere are different requests and are
//             never withheld. (The same commands in another ORDER are not generated: the statement does not say
//             whether [A,B] and [B,A] are "the same command".)
//             Destination shapes: entity [1,1] feature 1, entity [11] feature 1, entity [1] feature 11 (the digits of
//             entity [1] feature 1, grouped differently) x the four single commands are part of the domain as well:
//             different addresses are different destinations, whatever a rendering of them looks like.
//             The FORM of an inbound response and the STATE of the connection are dimensions of the histories
//             (c13_respform.go): 3 of 5 response datagrams deviate from the form of the repository's test vectors - source
//             device omitted / never announced / the peer's other announced address, destination device omitted / foreign,
//             from the request's own destination to its own source (NodeManagement answers a subscription call) instead of
//             from one fixed feature, own msgCounter equal to the referenced counter or small, ackRequest true / explicit
//             false, two commands, no specificationVersion, delivered through HandleShipPayloadMessage. In a third of the
//             cases peer 1 has not announced itself when the history starts (device address unknown; it announces itself at a
//             drawn point, or never), in another third a peer announces itself again under a CHANGED device address.
//             After 2 of 5 responses to an unanswered request that very request is issued again at once: it must be written.
//   notify    sequential histories of 1..260 notifications (API and subscription fan-out) mixed with
//             other sends; without lookups each of the last 100 must be retrievable unchanged; with
//             interleaved lookups an exact LRU-with-promotion model separates the known finding D19
//             (signature notifycache/evicted-after-lookup-promotion) from every other deviation.
//             Mixed traffic: the counter is shared by every outbound kind of the connection, the cache is not.
//             Per case a drawn proportion (0, 1/4, 1, 3, 6 or 12 other datagrams per notification, plus bursts of
//             99/100/101/150 other datagrams behind a notification) of Reply, ResultSuccess, ResultError, Write,
//             read Request, Subscribe/Unsubscribe/Bind/Unbind calls and RequestRemoteData goes out between the
//             notifications, so that a notification among the last 100 NOTIFICATIONS is hundreds of counters old;
//             the second connection (identical numbering) notifies as well. Reference: a notification must be
//             retrievable if it is among the last 100 notifications sent on THAT connection, whatever else was sent.
//   mute      a connection WITHOUT writer (DeviceLocal.SetupRemoteDevice(ski, nil)): every send fails inside the sender,
//             nothing is ever written. 3-6 requests of the domain (single- and multi-command, through Sender.Request,
//             Subscribe/Unsubscribe/Bind/Unbind, FeatureLocal.RequestRemoteData/SubscribeToRemote/BindToRemote) are each
//             issued three times, interleaved with each other and with notify/write calls. A request that was never
//             written is not "unanswered", so none of the calls may be withheld as a duplicate: every call must report
//             the failure (error), never a nil error with the counter of a datagram that was never written. Then the
//             connection is replaced by one with a writer and every request must be written (and its immediate repeat
//             withheld with that counter, as on any healthy connection).
//   conc(-race) 8..16 goroutines on the senders of two connections mixing all sender calls; uniqueness
//             per tap, interval issue order, identity of returned counter and datagram, soundness of
//             withholding on the recorded intervals, lookups equal to the tap. Afterwards (all goroutines returned)
//             every notification of a connection that carried at most 100 of them is looked up: found, equal to the tap.

const c13CacheBound = 48 // generous constant for (*Sender).VerifRequestCacheLen(); the code keeps about 21

func init() {
	pick := func(q, t int) func(rig.Tier) int {
		return func(tier rig.Tier) int {
			if tier == rig.Thorough {
				return t
			}
			return q
		}
	}
	rig.Register(&rig.Check{
		ID:    "C13",
		Floor: 90,
		Rule: "dedupe: case = seeded history of 40-160 sender operations on two connections (request from a 44 key domain: 4 destinations x 4 commands + 8 subscription/binding calls + 4 RequestRemoteData + 2 destinations x 8 lists of 2-3 commands that share first/last commands or prefixes with each other and with the single-command requests (30% of the requests, half of them aimed at a list related to an unanswered request) + 3 regrouped destinations (entity [1,1] feature 1, entity [11] feature 1, entity [1] feature 11: the digits of entity [1] feature 1) x 4 commands (16% of the requests, half of them aimed at a destination whose sibling carries the same command unanswered), unique request, notify/write/reply, " +
			"response by API, by accepted inbound reply/result or by an inbound reply/result the stack rejects (foreign function, unknown local feature, never announced source feature) referencing an unanswered/answered/unknown/repeated/foreign counter, 3 of 5 response datagrams in a drawn non-canonical FORM {source device: announced/omitted/never announced/the peer's other address; destination device: local/omitted/foreign; sender: one fixed feature / the request's own destination; own msgCounter: running/equal to the reference/small; ackRequest: omitted/true/false; one or two commands; specificationVersion present/omitted; entry point HandleSpineMesssage/HandleShipPayloadMessage}, after 2 of 5 responses to an unanswered request the same request again at once), connection STATE by case index {both peers announced; peer 1 not announced (device address unknown), announcing itself at a drawn operation or never; one peer announcing itself again under a changed device address at a drawn operation}, every third case followed by the bounded-memory probe; " +
			"notify: case = (number of notifications 1..260 with the boundaries 99,100,101 forced, lookups interleaved or not, share of fan-out notifications, proportion of other outbound datagrams per notification {0,1/4,1,3,6,12} drawn from reply/resultSuccess/resultError/write/read request/subscribe/unsubscribe/bind/unbind/RequestRemoteData, bursts of 99/100/101/150 other datagrams behind a notification, notifications on the second connection); " +
			"mute: case = 3-6 requests of the 44 key domain + FeatureLocal.SubscribeToRemote/BindToRemote, each issued three times in a drawn interleaving with notify/write calls on a connection without writer, then once and once more on the connection that replaces it (with a writer); non-trivial if at least 9 failing calls and 3 requests written after the reconnect were judged; " +
			"conc: case = (8-16 goroutines, 25-80 calls each, mix 'all calls' or 'few keys', connection writer yielding the processor before every n-th write, n in {never,1,2,3,5}; inbound results in the drawn forms of dedupe); after all goroutines have returned every notification of a connection that carried at most 100 of them is looked up sequentially (found, equal to the tap). A case is non-trivial if it judged at least one withheld and one re-enabled request (dedupe), at least one retrieval per retained notification (notify), " +
			"or at least 200 datagrams with at least one pair of non-overlapping calls (conc); distinct = distinct operation-shape sequences (hash), counters and payload values excluded.",
		Assumptions: []string{
			"'identical' is read as the statement defines it: same destination address and same command list; source address, classifier and ack flag are not varied within one key",
			"the reference model only REQUIRES withholding for an immediate repeat (no other sender operation in between) and only ALLOWS it while an identical request is unanswered in the model, because the statement lets the memory of unanswered requests forget",
			"the known finding D19 is recognised by an exact LRU(100)-with-promotion model over the NOTIFICATIONS of the connection (other outbound kinds consume counters, not cache slots); a missing notification that this model does not explain is a violation with another signature",
			"'same command' is read as 'the same command list': two requests whose lists differ in any position or in length are different requests; lists that are permutations of each other are not generated (the statement does not decide them)",
			"notifications older than the last 100 of their connection may or may not be retrievable (the statement only promises the last 100); a counter that no notification of the connection carries must never yield a datagram",
			"in concurrent histories a response is only ever generated for a counter the harness has already seen returned",
			"conc, retrieval afterwards: a connection that carried at most 100 notifications never filled the cache of 100, so neither a Put nor the promotion by a concurrent lookup (D19) can have evicted one: a notification that is missing once all calls have returned is a violation (notifycache/last-100-missing-after-concurrent-use); connections with more than 100 notifications are not judged there",
			"a 'response referencing that counter' is ANY datagram delivered on the connection the request was written to that carries that counter as msgCounterReference with classifier reply or result: its addresses (device element present, omitted, unknown, outdated), its own msgCounter, its ackRequest flag, its payload, whether the stack accepts its content, the entry point it is delivered through and whether the peer has announced itself are not named by the statement and therefore never change the reference model",
			"'same destination' is the same address (device, entity path, feature): entity [1,1] feature 1, entity [11] feature 1, entity [1] feature 11 and entity [1] feature 1 are four destinations; the sender is handed these addresses directly (Sender.Request does not require a destination to be known)",
			"a request whose send failed (connection without writer: the only send fault the sender can produce) was never written to the peer, so it is not an 'unanswered request': a later identical request must not be withheld because of it, and since it cannot be written either the call must return an error; which counter accompanies the error is not judged. On a connection with a writer an error return stays a violation",
		},
		Parts: []rig.Part{
			{Name: "dedupe", Cases: pick(150, 4000), Run: c13Dedupe},
			{Name: "notify", Cases: pick(60, 700), Run: c13Notify},
			{Name: "conc", Cases: pick(48, 1500), Run: c13Conc, Procs: 8, Workers: 8},
			{Name: "conc-race", Race: true, Cases: pick(16, 300), Run: c13Conc, Procs: 8, Workers: 8, Quiet: 120 * time.Second},
			{Name: "mute", Cases: pick(48, 600), Run: c13Mute},
		},
	})
}

// ---------------------------------------------------------------------------
// world

type c13World struct {
	c     *rig.Ctx
	w     *rig.World
	cl    api.FeatureLocalInterface // local client Measurement  [1]/1
	srv   api.FeatureLocalInterface // local server Measurement  [1]/2
	peers []*rig.Peer
}

func c13Feats() []rig.FS {
	return []rig.FS{rig.NMFS,
		{Ent: []uint{1}, Id: 1, Typ: model.FeatureTypeTypeMeasurement, Role: model.RoleTypeServer},
		{Ent: []uint{1}, Id: 2, Typ: model.FeatureTypeTypeMeasurement, Role: model.RoleTypeClient},
		{Ent: []uint{2}, Id: 1, Typ: model.FeatureTypeTypeMeasurement, Role: model.RoleTypeServer}}
}

func newC13World(c *rig.Ctx, yieldEvery ...int) *c13World {
	return newC13WorldLate(c, -1, yieldEvery...)
}

// newC13WorldLate: the peer number late does NOT announce itself (no detailed discovery reply): the stack does not know
// its device address nor its features until the history announces it.
func newC13WorldLate(c *rig.Ctx, late int, yieldEvery ...int) *c13World {
	cw := &c13World{c: c, w: rig.NewWorld(c.Tag())}
	e := cw.w.AddEntity(model.EntityTypeTypeCEM, []uint{1}, 4*time.Second)
	cw.cl = e.GetOrAddFeature(model.FeatureTypeTypeMeasurement, model.RoleTypeClient)
	cw.srv = e.GetOrAddFeature(model.FeatureTypeTypeMeasurement, model.RoleTypeServer)
	cw.srv.AddFunctionType(model.FunctionTypeMeasurementListData, true, false)
	for i := 0; i < 2; i++ {
		var p *rig.Peer
		if len(yieldEvery) > 0 && yieldEvery[0] > 0 {
			// a writer that is not instantaneous: it yields the processor before every n-th write
			p = xAddPeer(cw.w, i, func(tap *rig.Tap) xWriter { return &xYieldWriter{tap: tap, every: uint64(yieldEvery[0])} })
		} else {
			p = cw.w.AddPeer(i)
		}
		p.Ctr = uint64(100000 * (i + 1))
		if i != late {
			p.Announce(c13Feats())
		}
		cw.peers = append(cw.peers, p)
	}
	return cw
}

func c13Sender(p *rig.Peer) *spine.Sender { return p.RD.Sender().(*spine.Sender) }

func c13Key(dest *model.FeatureAddressType, cmd []model.CmdType) string {
	return rig.JS(dest) + "|" + rig.JS(cmd)
}

func c13IsRequest(d model.DatagramType) bool {
	return d.Header.CmdClassifier != nil && (*d.Header.CmdClassifier == model.CmdClassifierTypeRead || *d.Header.CmdClassifier == model.CmdClassifierTypeCall) && d.Header.MsgCounterReference == nil
}

func c13Cls(d model.DatagramType) model.CmdClassifierType {
	if d.Header.CmdClassifier == nil {
		return ""
	}
	return *d.Header.CmdClassifier
}

func c13UniqueCmd(tag string) model.CmdType {
	return model.CmdType{Function: util.Ptr(model.FunctionType(tag))}
}

// the small request domain
type c13Req struct {
	name string
	cls  model.CmdClassifierType
	src  *model.FeatureAddressType
	dst  *model.FeatureAddressType
	ack  bool
	cmd  []model.CmdType
	// alternative ways to issue the same request through the API
	via string // "request" | "subscribe" | "unsubscribe" | "bind" | "unbind" | "rrd"
	fn  model.FunctionType
	rf  api.FeatureRemoteInterface
	srv *model.FeatureAddressType
}

func (q c13Req) key() string { return c13Key(q.dst, q.cmd) }

func c13Domain(cw *c13World, p *rig.Peer) []c13Req {
	selCmd := func(id uint) model.CmdType {
		return model.CmdType{Function: util.Ptr(model.FunctionTypeMeasurementListData),
			Filter: []model.FilterType{{CmdControl: &model.CmdControlType{Partial: &model.ElementTagType{}},
				MeasurementListDataSelectors: &model.MeasurementListDataSelectorsType{MeasurementId: util.Ptr(model.MeasurementIdType(id))}}},
			MeasurementListData: &model.MeasurementListDataType{}}
	}
	cmds := [][]model.CmdType{
		{{MeasurementListData: &model.MeasurementListDataType{}}},
		{selCmd(1)},
		{selCmd(2)},
		{{MeasurementDescriptionListData: &model.MeasurementDescriptionListDataType{}}},
	}
	dests := []*model.FeatureAddressType{rig.FA(p.Addr, []uint{1}, 1), rig.FA(p.Addr, []uint{1}, 2), rig.FA(p.Addr, []uint{2}, 1), rig.FA("", []uint{1}, 1)}
	var dom []c13Req
	for di, d := range dests {
		for ci, cm := range cmds {
			dom = append(dom, c13Req{name: fmt.Sprintf("d%dc%d", di, ci), cls: model.CmdClassifierTypeRead, src: cw.cl.Address(), dst: d, cmd: cm, via: "request"})
		}
	}
	nm := spine.NodeManagementAddress(util.Ptr(model.AddressDeviceType(p.Addr)))
	lnm := spine.NodeManagementAddress(util.Ptr(model.AddressDeviceType(rig.LocalAddr)))
	for si, srv := range []*model.FeatureAddressType{rig.FA(p.Addr, []uint{1}, 1), rig.FA(p.Addr, []uint{2}, 1)} {
		cl := cw.cl.Address()
		dom = append(dom,
			c13Req{name: fmt.Sprintf("sub%d", si), via: "subscribe", cls: model.CmdClassifierTypeCall, src: lnm, dst: nm, ack: true, srv: srv,
				cmd: []model.CmdType{{NodeManagementSubscriptionRequestCall: spine.NewNodeManagementSubscriptionRequestCallType(cl, srv, model.FeatureTypeTypeMeasurement)}}},
			c13Req{name: fmt.Sprintf("unsub%d", si), via: "unsubscribe", cls: model.CmdClassifierTypeCall, src: lnm, dst: nm, ack: true, srv: srv,
				cmd: []model.CmdType{{NodeManagementSubscriptionDeleteCall: spine.NewNodeManagementSubscriptionDeleteCallType(cl, srv)}}},
			c13Req{name: fmt.Sprintf("bind%d", si), via: "bind", cls: model.CmdClassifierTypeCall, src: lnm, dst: nm, ack: true, srv: srv,
				cmd: []model.CmdType{{NodeManagementBindingRequestCall: spine.NewNodeManagementBindingRequestCallType(cl, srv, model.FeatureTypeTypeMeasurement)}}},
			c13Req{name: fmt.Sprintf("unbind%d", si), via: "unbind", cls: model.CmdClassifierTypeCall, src: lnm, dst: nm, ack: true, srv: srv,
				cmd: []model.CmdType{{NodeManagementBindingDeleteCall: spine.NewNodeManagementBindingDeleteCallType(cl, srv)}}})
	}
	for ri, ra := range []*model.FeatureAddressType{rig.FA(p.Addr, []uint{1}, 1), rig.FA(p.Addr, []uint{2}, 1)} {
		rf := p.RD.FeatureByAddress(ra)
		if rf == nil {
			continue
		}
		for _, fn := range []model.FunctionType{model.FunctionTypeMeasurementConstraintsListData, model.FunctionTypeMeasurementThresholdRelationListData} {
			var pl any
			for _, fi := range rig.FunctionsOf(model.FeatureTypeTypeMeasurement) {
				if fi.Fn == fn {
					pl = reflect.New(fi.T).Interface()
				}
			}
			dom = append(dom, c13Req{name: fmt.Sprintf("rrd%d%s", ri, fn[11:14]), via: "rrd", cls: model.CmdClassifierTypeRead, src: cw.cl.Address(), dst: rf.Address(), fn: fn, rf: rf,
				cmd: []model.CmdType{rig.CmdFor(fn, pl)}})
		}
	}
	return dom
}

// c13Multi: requests whose datagram carries SEVERAL commands (public API Sender.Request with a cmd slice of 2-3
// elements). The lists are chosen so that each shares its first command, its last command, its length or a whole
// prefix with another list or with a single-command request of c13Domain (A = d*c0, B = d*c1, C = d*c2, D = d*c3):
// a request is identified by its destination and the WHOLE list. No list is a permutation of another one.
func c13Multi(cw *c13World, p *rig.Peer) []c13Req {
	selCmd := func(id uint) model.CmdType {
		return model.CmdType{Function: util.Ptr(model.FunctionTypeMeasurementListData),
			Filter: []model.FilterType{{CmdControl: &model.CmdControlType{Partial: &model.ElementTagType{}},
				MeasurementListDataSelectors: &model.MeasurementListDataSelectorsType{MeasurementId: util.Ptr(model.MeasurementIdType(id))}}},
			MeasurementListData: &model.MeasurementListDataType{}}
	}
	mk := map[byte]func() model.CmdType{
		'A': func() model.CmdType { return model.CmdType{MeasurementListData: &model.MeasurementListDataType{}} },
		'B': func() model.CmdType { return selCmd(1) },
		'C': func() model.CmdType { return selCmd(2) },
		'D': func() model.CmdType {
			return model.CmdType{MeasurementDescriptionListData: &model.MeasurementDescriptionListDataType{}}
		},
	}
	lists := []string{"AB", "AC", "AD", "BC", "DC", "ABC", "ABD", "ABB"}
	dests := []*model.FeatureAddressType{rig.FA(p.Addr, []uint{1}, 1), rig.FA(p.Addr, []uint{2}, 1)}
	var dom []c13Req
	for di, d := range dests {
		for _, l := range lists {
			var cmd []model.CmdType
			for i := 0; i < len(l); i++ {
				cmd = append(cmd, mk[l[i]]())
			}
			dom = append(dom, c13Req{name: fmt.Sprintf("m%d[%s]", di*2, l), cls: model.CmdClassifierTypeRead, src: cw.cl.Address(), dst: d, cmd: cmd, via: "request"})
		}
	}
	return dom
}

// c13Shapes: requests to destinations whose addresses consist of the same digits, grouped differently: entity [1,1]
// feature 1, entity [11] feature 1, entity [1] feature 11 (their fourth sibling, entity [1] feature 1, is d0 of
// c13Domain), each with the four single commands c0..c3 of the domain. "Same destination" is the same ADDRESS
// (device, entity path, feature): these are different destinations, so a request to one of them is a different
// request from the same command sent to another one and is never withheld because of it. The sender does not need to
// know a destination (Sender.Request writes to whatever address it is given), so the peer does not announce them.
func c13Shapes(cw *c13World, p *rig.Peer) []c13Req {
	selCmd := func(id uint) model.CmdType {
		return model.CmdType{Function: util.Ptr(model.FunctionTypeMeasurementListData),
			Filter: []model.FilterType{{CmdControl: &model.CmdControlType{Partial: &model.ElementTagType{}},
				MeasurementListDataSelectors: &model.MeasurementListDataSelectorsType{MeasurementId: util.Ptr(model.MeasurementIdType(id))}}},
			MeasurementListData: &model.MeasurementListDataType{}}
	}
	cmds := [][]model.CmdType{
		{{MeasurementListData: &model.MeasurementListDataType{}}},
		{selCmd(1)},
		{selCmd(2)},
		{{MeasurementDescriptionListData: &model.MeasurementDescriptionListDataType{}}},
	}
	dests := []*model.FeatureAddressType{rig.FA(p.Addr, []uint{1, 1}, 1), rig.FA(p.Addr, []uint{11}, 1), rig.FA(p.Addr, []uint{1}, 11)}
	var dom []c13Req
	for di, d := range dests {
		for ci, cm := range cmds {
			dom = append(dom, c13Req{name: fmt.Sprintf("s%dc%d", di, ci), cls: model.CmdClassifierTypeRead, src: cw.cl.Address(), dst: d, cmd: cm, via: "request"})
		}
	}
	return dom
}

// c13Sig: the renderings c13Related compares, computed once per request of a connection's domain.
type c13Sig struct{ key, dst, first, last string }

func c13SigOf(q c13Req) c13Sig {
	g := c13Sig{key: q.key(), dst: rig.JS(q.dst)}
	if len(q.cmd) > 0 {
		g.first, g.last = rig.JS(q.cmd[0]), rig.JS(q.cmd[len(q.cmd)-1])
	}
	return g
}

// c13Related: q and o go to the same destination, differ as lists and agree in their first or in their last
// command (or one list is a prefix of the other): the requests a partial comparison of the command list confuses.
func c13Related(q, o c13Sig) bool {
	if q.first == "" || o.first == "" || q.dst != o.dst || q.key == o.key {
		return false
	}
	return q.first == o.first || q.last == o.last
}

// issue sends q through the API variant it stands for.
func c13Issue(cw *c13World, p *rig.Peer, q c13Req) (*model.MsgCounterType, error) {
	s := p.RD.Sender()
	srvOf := func() *model.FeatureAddressType { return q.srv }
	switch q.via {
	case "subscribe":
		return s.Subscribe(cw.cl.Address(), srvOf(), model.FeatureTypeTypeMeasurement)
	case "unsubscribe":
		return s.Unsubscribe(cw.cl.Address(), srvOf())
	case "bind":
		return s.Bind(cw.cl.Address(), srvOf(), model.FeatureTypeTypeMeasurement)
	case "unbind":
		return s.Unbind(cw.cl.Address(), srvOf())
	case "rrd":
		mc, e := cw.cl.RequestRemoteData(q.fn, nil, nil, q.rf)
		if e != nil {
			return mc, fmt.Errorf("%s", e.String())
		}
		return mc, nil
	}
	return s.Request(q.cls, q.src, q.dst, q.ack, q.cmd)
}

// ---------------------------------------------------------------------------
// part dedupe

type c13Conn struct {
	p          *rig.Peer
	dom        []c13Req
	multi      []c13Req // requests with several commands
	shapes     []c13Req // requests to the destinations [1,1]/1, [11]/1, [1]/11 (index = 4*destination + command)
	relSig     []c13Sig // renderings of multi + the 16 single-command read requests: what a multi-command request can be confused with
	multiSig   []c13Sig // renderings of multi, same index
	unanswered map[string][]model.MsgCounterType
	keyOf      map[model.MsgCounterType]string // every request counter sent on this connection
	answered   map[model.MsgCounterType]bool
	others     []model.MsgCounterType // counters of non-request datagrams (notify, write, reply)
	maxCtr     model.MsgCounterType
	seen       map[model.MsgCounterType]bool
	lastKey    string // key of the request that was the previous sender operation ("" = something else)
	lastResp   model.MsgCounterType
	nUnique    int
	reqOf      map[model.MsgCounterType]c13Req // every request written on this connection, as it can be issued again
	announced  bool                            // the peer has announced itself (its device address is known to the stack)
	oldAddr    string                          // the device address the peer announced BEFORE it announced itself again under another one
}

// own: a request the stack wrote on its own (discovery read, NodeManagement subscription, use case read) joins the
// model like any other request of the connection.
func (cn *c13Conn) own(d model.DatagramType) {
	if !c13IsRequest(d) || d.Header.MsgCounter == nil {
		return
	}
	m := *d.Header.MsgCounter
	k := c13Key(d.Header.AddressDestination, d.Payload.Cmd)
	cn.unanswered[k] = append(cn.unanswered[k], m)
	cn.keyOf[m] = k
	cn.reqOf[m] = c13Req{name: fmt.Sprintf("own#%d", m), cls: c13Cls(d), src: d.Header.AddressSource, dst: d.Header.AddressDestination,
		ack: d.Header.AckRequest != nil && *d.Header.AckRequest, cmd: d.Payload.Cmd, via: "request"}
}

// responded: the model's reaction to a response referencing ctr, however it arrived.
func (cn *c13Conn) responded(ctr model.MsgCounterType) {
	for k, l := range cn.unanswered {
		var nl []model.MsgCounterType
		for _, u := range l {
			if u != ctr {
				nl = append(nl, u)
			}
		}
		if len(nl) == 0 {
			delete(cn.unanswered, k)
		} else {
			cn.unanswered[k] = nl
		}
	}
	if _, isReq := cn.keyOf[ctr]; isReq {
		cn.answered[ctr] = true
	}
	cn.lastKey = ""
}

func (cn *c13Conn) unansweredCount() int {
	n := 0
	for _, l := range cn.unanswered {
		n += len(l)
	}
	return n
}

func c13Dedupe(c *rig.Ctx) {
	// connection state (see c13_respform.go): a third of the cases each
	//   0 both peers have announced themselves before the history starts and keep their device address
	//   1 peer 1 has NOT announced itself: its device address is unknown; in 3 of 4 such cases it does so at a drawn
	//     point of the history
	//   2 one of the peers announces itself AGAIN under a changed device address at a drawn point of the first half
	state := (c.Index / 2) % 3
	late := -1
	if state == 1 {
		late = 1
	}
	cw := newC13WorldLate(c, late)
	defer cw.w.Close()
	r := c.Rand
	var trace []string
	var shape []string
	log := func(f string, a ...any) {
		if len(trace) < 600 {
			trace = append(trace, fmt.Sprintf(f, a...))
		}
	}
	viol := func(sig, f string, a ...any) {
		tr := trace
		if len(tr) > 80 {
			tr = tr[len(tr)-80:]
		}
		c.Violate(sig, "%s\nlast operations:\n%s", fmt.Sprintf(f, a...), strings.Join(tr, "\n"))
	}
	var conns []*c13Conn
	for _, p := range cw.peers {
		cn := &c13Conn{p: p, dom: c13Domain(cw, p), multi: c13Multi(cw, p), shapes: c13Shapes(cw, p), unanswered: map[string][]model.MsgCounterType{}, keyOf: map[model.MsgCounterType]string{}, answered: map[model.MsgCounterType]bool{}, seen: map[model.MsgCounterType]bool{},
			reqOf: map[model.MsgCounterType]c13Req{}, announced: len(conns) != late}
		// what the stack sent on its own while connecting is part of the history
		for _, d := range p.Tap.Take() {
			cn.absorb(c, d, viol)
			cn.own(d)
		}
		if cn.announced {
			cn.responded(1) // the discovery read (counter 1) was answered by the announcement
		}
		for _, q := range append(append([]c13Req(nil), cn.multi...), cn.dom[:16]...) {
			cn.relSig = append(cn.relSig, c13SigOf(q))
		}
		cn.multiSig = cn.relSig[:len(cn.multi)]
		conns = append(conns, cn)
	}
	heavy := c.Index%2 == 1 // also unique requests: more than 20 unanswered, eviction
	nOps := 40 + r.Intn(c.Pick(100, 140))
	var withheld, reenabled, fresh, evictedResend int64
	var multiSent, multiWithheld, multiBesideRelated int64
	var shapeSent, shapeWithheld, shapeBesideSibling int64
	// shapeSiblings: the requests that carry the same command as shapes[si] to a destination made of the same digits
	// (the other two shapes and d0 = entity [1] feature 1 of the domain)
	shapeSiblings := func(cn *c13Conn, si int) (sib []c13Req) {
		ci := si % 4
		for k := ci; k < len(cn.shapes); k += 4 {
			if k != si {
				sib = append(sib, cn.shapes[k])
			}
		}
		return append(sib, cn.dom[ci])
	}
	unansweredSiblings := func(cn *c13Conn, si int) (n int) {
		for _, o := range shapeSiblings(cn, si) {
			n += len(cn.unanswered[o.key()])
		}
		return n
	}
	checkLen := func(cn *c13Conn, where string) {
		if n := c13Sender(cn.p).VerifRequestCacheLen(); n > c13CacheBound {
			viol("dedupe/memory-exceeds-bound", "%s: the sender remembers %d unanswered requests (bound %d)", where, n, c13CacheBound)
		}
	}
	// request performs one request operation and judges it against the model
	request := func(cn *c13Conn, q c13Req, what string) (wasFresh bool, ctr model.MsgCounterType, ok bool) {
		key := q.key()
		cn.p.Tap.Take()
		mc, err := c13Issue(cw, cn.p, q)
		outs := cn.p.Tap.Take()
		c.Events(1 + int64(len(outs)))
		if err != nil || mc == nil {
			viol("request/error-or-no-counter", "%s %s: counter=%v err=%v", what, q.name, mc, err)
			return false, 0, false
		}
		ctr = *mc
		immediate := cn.lastKey == key
		cn.lastKey = key
		switch len(outs) {
		case 0: // withheld
			withheld++
			log("peer%s %s %s -> withheld, returns %d (unanswered in model: %v)", cn.p.Addr, what, q.name, ctr, cn.unanswered[key])
			found := false
			for _, u := range cn.unanswered[key] {
				if u == ctr {
					found = true
				}
			}
			if !found {
				switch k2, known := cn.keyOf[ctr]; {
				case known && k2 != key:
					viol("dedupe/different-request-withheld", "%s %s was not sent; the returned counter %d belongs to a different request %s", what, q.name, ctr, k2)
				case known && cn.answered[ctr]:
					viol("dedupe/withheld-after-response", "%s %s was not sent although the identical request %d had been answered and no other identical request is unanswered (model: %v)", what, q.name, ctr, cn.unanswered[key])
				case known:
					viol("dedupe/withheld-inconsistent", "%s %s returned %d which the model does not hold as unanswered", what, q.name, ctr)
				default:
					viol("dedupe/withheld-unknown-counter", "%s %s was not sent and returned counter %d which was never used for a request on this connection", what, q.name, ctr)
				}
			}
			return false, ctr, true
		case 1:
			d := outs[0]
			cn.absorb(c, d, viol)
			if d.Header.MsgCounter == nil || *d.Header.MsgCounter != ctr {
				viol("request/returned-counter-differs-from-datagram", "%s %s returned %d, datagram: %s", what, q.name, ctr, rig.JS(d))
				return true, ctr, false
			}
			if k := c13Key(d.Header.AddressDestination, d.Payload.Cmd); k != key || c13Cls(d) != q.cls || rig.JS(d.Header.AddressSource) != rig.JS(q.src) || (d.Header.AckRequest != nil && *d.Header.AckRequest) != q.ack {
				viol("request/datagram-differs-from-call", "%s %s: sent %s", what, q.name, rig.JS(d))
			}
			log("peer%s %s %s -> sent as %d (unanswered before: %v)", cn.p.Addr, what, q.name, ctr, cn.unanswered[key])
			if immediate && len(cn.unanswered[key]) > 0 {
				viol("dedupe/immediate-repeat-sent-again", "%s %s: the identical request %v was the previous operation and is unanswered, yet it was sent again as %d", what, q.name, cn.unanswered[key], ctr)
			}
			if len(cn.unanswered[key]) > 0 {
				evictedResend++
			} else {
				for c0, k0 := range cn.keyOf {
					if k0 == key && cn.answered[c0] {
						reenabled++
						break
					}
				}
			}
			fresh++
			cn.unanswered[key] = append(cn.unanswered[key], ctr)
			cn.keyOf[ctr] = key
			cn.reqOf[ctr] = q
			return true, ctr, true
		default:
			viol("request/several-datagrams", "%s %s produced %d datagrams: %s", what, q.name, len(outs), rig.JS(outs))
			for _, d := range outs {
				cn.absorb(c, d, viol)
			}
			return true, ctr, false
		}
	}
	var formCounts = map[string]int64{}
	respond := func(cn *c13Conn, ctr model.MsgCounterType, mode int, why string, form c13Form) {
		if mode == 0 {
			c13Sender(cn.p).ProcessResponseForMsgCounterReference(&ctr)
			log("peer%s response(API) for %d (%s)", cn.p.Addr, ctr, why)
		} else {
			// the datagram in its canonical form: classifier, source, destination, payload ...
			cl, src, dst := model.CmdClassifierTypeResult, rig.FA(cn.p.Addr, []uint{1}, 1), cw.cl.Address()
			var cmd model.CmdType
			what := ""
			switch mode {
			case 1:
				cmd = model.CmdType{ResultData: &model.ResultDataType{ErrorNumber: util.Ptr(model.ErrorNumberType(0))}}
				what = "result"
			case 2:
				cl, cmd = model.CmdClassifierTypeReply, model.CmdType{MeasurementListData: &model.MeasurementListDataType{}}
				what = "reply"
			// responses the stack rejects are responses nevertheless: "a response referencing that counter re-enables sending"
			case 3:
				cl, cmd = model.CmdClassifierTypeReply, model.CmdType{ElectricalConnectionDescriptionListData: &model.ElectricalConnectionDescriptionListDataType{}}
				what = "reply with a function the source feature does not have"
			case 4:
				cl, dst, cmd = model.CmdClassifierTypeReply, rig.FA(rig.LocalAddr, []uint{1}, 9), model.CmdType{MeasurementListData: &model.MeasurementListDataType{}}
				what = "reply to an unknown local feature"
			default:
				src, cmd = rig.FA(cn.p.Addr, []uint{7}, 1), model.CmdType{ResultData: &model.ResultDataType{ErrorNumber: util.Ptr(model.ErrorNumberType(1))}}
				what = "result from a feature that was never announced"
			}
			// ... and in the drawn form
			if q, known := cn.reqOf[ctr]; form.natural && known && mode <= 2 {
				// what a real peer does: the feature the request went to answers the feature it came from; a call is
				// answered by a result, a read by a reply that carries its (first) command or by an error result
				src, dst = q.dst, q.src
				if q.cls == model.CmdClassifierTypeRead && mode == 2 && len(q.cmd) > 0 {
					cmd = q.cmd[0]
					cmd.Filter = nil
				} else {
					cl, cmd = model.CmdClassifierTypeResult, model.CmdType{ResultData: &model.ResultDataType{ErrorNumber: util.Ptr(model.ErrorNumberType(mode - 1))}}
					what = "result"
				}
			} else {
				form.natural = false
			}
			if form.srcDev == 3 && cn.oldAddr == "" {
				form.srcDev = 0 // this peer has announced only one address
			}
			other := cn.oldAddr
			if other != "" && src != nil && src.Device != nil && string(*src.Device) == other {
				other = cn.p.Addr // a natural response to a request addressed to the old address: the other one is the new address
			}
			if prob := c13Deliver(cn.p, r, form, cl, src, dst, ctr, cmd, other); prob != "" {
				c.Inconclusive("%s", prob)
			}
			log("peer%s inbound %s referencing %d (%s) [%s] (peer announced: %v)", cn.p.Addr, what, ctr, why, form, cn.announced)
			formCounts["responses-delivered-as-datagrams"]++
			if !form.canonical() {
				formCounts["responses-in-a-non-canonical-form"]++
			}
			if form.natural {
				formCounts["responses-from-the-request's-destination-to-its-source"]++
			}
			formCounts[fmt.Sprintf("responses-by-source-device(0=announced,1=omitted,2=never-announced,3=the-peer's-other-address):%d", form.srcDev)]++
			formCounts[fmt.Sprintf("responses-by-own-counter(0=running,1=equal-to-reference,2=small):%d", form.own)]++
			if form.dstDev != 0 {
				formCounts["responses-with-destination-device-omitted-or-foreign"]++
			}
			if form.ship {
				formCounts["responses-through-HandleShipPayloadMessage"]++
			}
			if !cn.announced {
				formCounts["responses-on-a-connection-whose-peer-has-not-announced-itself"]++
			}
			if cn.oldAddr != "" {
				formCounts["responses-after-the-peer-changed-its-device-address"]++
			}
			c.Seen("response_forms", fmt.Sprintf("%d/%s", mode, form.code()))
		}
		c.Events(1)
		c.Seen("response_modes", fmt.Sprintf("%d/%s", mode, why))
		cn.responded(ctr)
		cn.lastResp = ctr
		for _, d := range cn.p.Tap.Take() {
			cn.absorb(c, d, viol)
			if c13IsRequest(d) {
				viol("response/causes-request", "a response referencing %d made the stack send %s", ctr, rig.JS(d))
			}
		}
	}
	// announce: the peer announces itself (detailed discovery reply, which references the discovery read, counter 1).
	// again = under a changed device address. What the stack writes in reaction (its NodeManagement subscription,
	// its use case read - or nothing, where these are still unanswered) joins the model.
	announce := func(cn *c13Conn, again bool) {
		cn.p.Tap.Take()
		if again {
			cn.oldAddr = cn.p.Addr
			cn.p.Addr += "-renamed"
		}
		cn.p.Announce(c13Feats())
		cn.announced = true
		cn.responded(1)
		for _, d := range cn.p.Tap.Take() {
			cn.absorb(c, d, viol)
			cn.own(d)
		}
		c.Events(1)
		if again {
			// the destinations of the domain stay what they are (the addresses the requests have been and are sent to);
			// only the remote feature OBJECTS behind RequestRemoteData are the ones of the new announcement
			for i := range cn.dom {
				if cn.dom[i].via == "rrd" {
					if rf := cn.p.RD.FeatureByAddress(cn.dom[i].dst); rf != nil {
						cn.dom[i].rf, cn.dom[i].dst = rf, rf.Address()
					}
				}
			}
			log("peer%s announces itself AGAIN under the device address %s (the stack now knows it as %v)", cn.oldAddr, cn.p.Addr, rig.JS(cn.p.RD.Address()))
			formCounts["peer-announced-itself-again-under-a-changed-device-address"]++
		} else {
			cn.dom = c13Domain(cw, cn.p) // the same requests, plus RequestRemoteData to the features known now
			log("peer%s announces itself (the stack now knows it as %v)", cn.p.Addr, rig.JS(cn.p.RD.Address()))
			formCounts["peer-announced-itself-in-the-middle-of-the-history"]++
		}
	}
	announceAt, againAt, againConn := -1, -1, 0
	switch state {
	case 1:
		if r.Intn(4) > 0 {
			announceAt = r.Intn(nOps)
		}
	case 2:
		againAt, againConn = r.Intn(nOps/2), r.Intn(2)
	}
	var reAfterResponse int64

	for op := 0; op < nOps && !c.Failed(); op++ {
		if op == announceAt {
			shape = append(shape, "ANN")
			announce(conns[1], false)
		}
		if op == againAt {
			shape = append(shape, "REN")
			announce(conns[againConn], true)
		}
		cn := conns[0]
		if r.Intn(3) == 0 || (state == 1 && r.Intn(3) == 0) {
			cn = conns[1]
		}
		x := r.Intn(100)
		if heavy && x >= 45 && x < 70 {
			x = 50 // a quarter of the operations are unique requests: far more than 20 unanswered requests
		} else if heavy && x >= 70 && x < 78 {
			x = 60
		} else if x >= 45 && x < 53 {
			x = 60
		}
		switch {
		case x < 45: // request from the domain
			q := cn.dom[r.Intn(len(cn.dom))]
			if r.Intn(3) == 0 && len(cn.unanswered) > 0 { // prefer something that is unanswered
				for _, q2 := range cn.dom {
					if len(cn.unanswered[q2.key()]) > 0 && r.Intn(3) == 0 {
						q = q2
						break
					}
				}
			}
			if r.Intn(10) < 3 {
				// a request with several commands; every second time one that shares its destination and its first or
				// last command (or a whole prefix) with a request that is unanswered right now, if there is one
				mi := r.Intn(len(cn.multi))
				if r.Intn(2) == 0 {
					var cand []int
					for _, o := range cn.relSig {
						if len(cn.unanswered[o.key]) == 0 {
							continue
						}
						for qi, q2 := range cn.multiSig {
							if len(cn.unanswered[q2.key]) == 0 && c13Related(q2, o) {
								cand = append(cand, qi)
							}
						}
					}
					if len(cand) > 0 {
						mi = cand[r.Intn(len(cand))]
					}
				}
				q = cn.multi[mi]
			}
			si := -1
			if r.Intn(100) < 16 {
				// a request to one of the regrouped destinations [1,1]/1, [11]/1, [1]/11; every second time one whose
				// sibling (same command, destination made of the same digits) is unanswered right now, if there is one
				si = r.Intn(len(cn.shapes))
				if r.Intn(2) == 0 {
					var cand []int
					for k := range cn.shapes {
						if len(cn.unanswered[cn.shapes[k].key()]) == 0 && unansweredSiblings(cn, k) > 0 {
							cand = append(cand, k)
						}
					}
					if len(cand) > 0 {
						si = cand[r.Intn(len(cand))]
					}
				}
				q = cn.shapes[si]
			}
			if si >= 0 {
				shape = append(shape, "QS")
				sibs, own := unansweredSiblings(cn, si), len(cn.unanswered[q.key()])
				if f, _, ok := request(cn, q, "request to a regrouped destination"); ok {
					if f {
						shapeSent++
						if sibs > 0 && own == 0 {
							// the deciding shape: written although the same command to a destination made of the same digits is
							// unanswered (request() has reported it if it was withheld instead)
							shapeBesideSibling++
						}
					} else {
						shapeWithheld++
					}
				}
			} else if len(q.cmd) > 1 {
				shape = append(shape, fmt.Sprintf("QM%d", len(q.cmd)))
				related := 0
				qs := c13SigOf(q)
				for _, o := range cn.relSig {
					if len(cn.unanswered[o.key]) > 0 && c13Related(qs, o) {
						related++
					}
				}
				own := len(cn.unanswered[q.key()])
				if f, _, ok := request(cn, q, "request with "+fmt.Sprint(len(q.cmd))+" commands"); ok {
					if f {
						multiSent++
						if related > 0 && own == 0 {
							// the deciding shape: sent although a request to the same destination that agrees with it in the
							// first/last command is unanswered (request() has reported it if it was withheld instead)
							multiBesideRelated++
						}
					} else {
						multiWithheld++
						if related > 0 && own == 0 {
							c.Count("dedupe:multi-command-request-withheld-beside-related-unanswered(reported)", 1)
						}
					}
				}
			} else {
				shape = append(shape, "Q"+q.via[:2])
				request(cn, q, "request")
			}
			if r.Intn(3) == 0 { // immediate repeat
				shape = append(shape, "R")
				request(cn, q, "immediate repeat")
			}
		case x < 53 && heavy: // unique request
			cn.nUnique++
			q := c13Req{name: fmt.Sprintf("unique%d", cn.nUnique), cls: model.CmdClassifierTypeRead, src: cw.cl.Address(), dst: rig.FA(cn.p.Addr, []uint{1}, 1),
				cmd: []model.CmdType{c13UniqueCmd(fmt.Sprintf("u%d", cn.nUnique))}, via: "request"}
			shape = append(shape, "U")
			if f, _, ok := request(cn, q, "unique request"); ok && !f {
				viol("dedupe/different-request-withheld", "a request never sent before (%s) was withheld", q.name)
			}
		case x < 63: // other sends
			s := cn.p.RD.Sender()
			cn.p.Tap.Take()
			var mc *model.MsgCounterType
			kind := r.Intn(3)
			switch kind {
			case 0:
				mc, _ = s.Notify(cw.srv.Address(), rig.FA(cn.p.Addr, []uint{1}, 2), c13UniqueCmd(fmt.Sprintf("n%d", op)))
			case 1:
				mc, _ = s.Write(cw.cl.Address(), rig.FA(cn.p.Addr, []uint{1}, 1), c13UniqueCmd(fmt.Sprintf("w%d", op)))
			default:
				_ = s.Reply(&model.HeaderType{AddressSource: rig.FA(cn.p.Addr, []uint{1}, 2), AddressDestination: cw.srv.Address(), MsgCounter: util.Ptr(model.MsgCounterType(777))}, cw.srv.Address(), c13UniqueCmd("r"))
			}
			shape = append(shape, fmt.Sprint("S", kind))
			outs := cn.p.Tap.Take()
			c.Events(int64(len(outs)))
			if len(outs) != 1 || (mc != nil && (outs[0].Header.MsgCounter == nil || *outs[0].Header.MsgCounter != *mc)) {
				viol("send/returned-counter-differs-from-datagram", "send kind %d returned %v, tap: %s", kind, mc, rig.JS(outs))
			}
			for _, d := range outs {
				cn.absorb(c, d, viol)
				if d.Header.MsgCounter != nil {
					cn.others = append(cn.others, *d.Header.MsgCounter)
				}
			}
			cn.lastKey = ""
			log("peer%s other send kind %d", cn.p.Addr, kind)
		default: // response
			var ctr model.MsgCounterType
			why := ""
			y := r.Intn(100)
			var un []model.MsgCounterType
			for _, l := range cn.unanswered {
				un = append(un, l...)
			}
			sort.Slice(un, func(i, j int) bool { return un[i] < un[j] })
			var ans []model.MsgCounterType
			for a := range cn.answered {
				ans = append(ans, a)
			}
			sort.Slice(ans, func(i, j int) bool { return ans[i] < ans[j] })
			switch {
			case y < 55 && len(un) > 0:
				ctr, why = un[r.Intn(len(un))], "unanswered"
			case y < 68 && len(ans) > 0:
				ctr, why = ans[r.Intn(len(ans))], "already answered"
			case y < 80:
				ctr, why = model.MsgCounterType(900000+r.Intn(1000)), "unknown"
			case y < 90 && cn.lastResp != 0:
				ctr, why = cn.lastResp, "repeated"
			case len(cn.others) > 0:
				ctr, why = cn.others[r.Intn(len(cn.others))], "counter of a non-request"
			default:
				ctr, why = model.MsgCounterType(0), "zero"
			}
			mode, form := r.Intn(6), c13DrawForm(r)
			if mode == 0 {
				form = c13Form{}
			}
			shape = append(shape, "A"+why[:2]+form.code())
			respond(cn, ctr, mode, why, form)
			if q, known := cn.reqOf[ctr]; known && why == "unanswered" && r.Intn(5) < 2 && !c.Failed() {
				// the deciding shape of "a response referencing that counter re-enables sending": the very request that was
				// answered a moment ago is issued again at once (request() reports it if it is withheld although the model
				// holds no identical request as unanswered)
				if q.via == "rrd" {
					if rf := cn.p.RD.FeatureByAddress(q.dst); rf != nil {
						q.rf = rf
					} else {
						q.via = "request"
					}
				}
				shape = append(shape, "QA")
				own := len(cn.unanswered[q.key()])
				if f, _, ok := request(cn, q, "the request answered a moment ago, again:"); ok && f && own == 0 {
					reAfterResponse++
				}
			}
			if r.Intn(12) == 0 {
				c13Sender(cn.p).ProcessResponseForMsgCounterReference(nil) // must be harmless
			}
		}
		checkLen(cn, "after operation "+fmt.Sprint(op))
	}

	// (v) bounded memory, black-box
	if c.Index%3 == 0 && !c.Failed() {
		cn := conns[c.Index/3%2]
		x := c13Req{name: "X", cls: model.CmdClassifierTypeRead, src: cw.cl.Address(), dst: rig.FA(cn.p.Addr, []uint{2}, 1), cmd: []model.CmdType{c13UniqueCmd("probe-X")}, via: "request"}
		f, xc, ok := request(cn, x, "memory probe: X")
		if ok && !f {
			viol("dedupe/different-request-withheld", "memory probe: X was never sent before but was withheld")
		}
		resent := 0
		for m := 1; m <= 1000 && ok; m++ { // not cut short by the cross-check below: the black-box verdict stands on its own
			d := c13Req{name: fmt.Sprintf("D%d", m), cls: model.CmdClassifierTypeRead, src: cw.cl.Address(), dst: rig.FA(cn.p.Addr, []uint{2}, 1), cmd: []model.CmdType{c13UniqueCmd(fmt.Sprintf("probe-D%d", m))}, via: "request"}
			if f, _, ok2 := request(cn, d, "memory probe"); ok2 && !f {
				viol("dedupe/different-request-withheld", "memory probe: D%d was never sent before but was withheld", m)
			}
			f2, c2, ok2 := request(cn, x, "memory probe: X again")
			checkLen(cn, fmt.Sprintf("memory probe m=%d", m))
			if !ok2 {
				break
			}
			if f2 {
				resent = m
				_ = c2
				break
			}
		}
		if resent == 0 && ok {
			viol("dedupe/unbounded-memory", "X (counter %d) followed by 1000 distinct unanswered requests is still withheld: the memory of unanswered requests is not bounded", xc)
		} else {
			c.Seen("memory_probe_m", fmt.Sprint(resent))
			shape = append(shape, "MEM")
		}
	}
	for _, cn := range conns {
		if len(cn.p.Tap.Broken) > 0 {
			viol("tap/undecodable", "%v", cn.p.Tap.Broken)
		}
	}
	c.Count("dedupe:withheld", withheld)
	c.Count("dedupe:sent", fresh)
	c.Count("dedupe:sent-again-after-response", reenabled)
	c.Count("dedupe:sent-again-while-unanswered(forgotten)", evictedResend)
	c.Count("dedupe:sent-again-immediately-after-its-response", reAfterResponse)
	for k, v := range formCounts {
		c.Count("dedupe:"+k, v)
	}
	c.Count("dedupe:multi-command-requests-sent", multiSent)
	c.Count("dedupe:multi-command-requests-withheld-as-duplicates", multiWithheld)
	c.Count("dedupe:multi-command-requests-sent-while-a-request-sharing-destination-and-first-or-last-command-is-unanswered", multiBesideRelated)
	c.Count("dedupe:regrouped-destination-requests-sent", shapeSent)
	c.Count("dedupe:regrouped-destination-requests-withheld-as-duplicates", shapeWithheld)
	c.Count("dedupe:regrouped-destination-requests-sent-while-the-same-command-to-a-destination-of-the-same-digits-is-unanswered", shapeBesideSibling)
	mx := 0
	for _, cn := range conns {
		if n := cn.unansweredCount(); n > mx {
			mx = n
		}
	}
	if mx > 20 {
		c.Count("dedupe:cases-with-more-than-20-unanswered", 1)
	}
	c.Shape(fmt.Sprintf("dedupe/%v/state%d/%s", heavy, state, c13Hash(shape)))
	c.NonTrivial(withheld > 0 && reenabled > 0)
	if len(trace) > 40 {
		trace = trace[:40]
	}
	c.Sample(map[string]any{"heavy": heavy, "operations": trace, "withheld": withheld, "sent": fresh})
	if c.Failed() {
		c.Witness(map[string]any{"heavy": heavy, "operations": trace})
	}
}

func c13Hash(ss []string) string {
	h := uint64(1469598103934665603)
	for _, s := range ss {
		for i := 0; i < len(s); i++ {
			h ^= uint64(s[i])
			h *= 1099511628211
		}
		h ^= 0xff
		h *= 1099511628211
	}
	return fmt.Sprintf("%d/%016x", len(ss), h)
}

// absorb checks the per-connection invariants of every datagram in a sequential history: it carries a
// counter nobody else on this connection carries, greater than every earlier one (calls do not overlap).
func (cn *c13Conn) absorb(c *rig.Ctx, d model.DatagramType, viol func(string, string, ...any)) {
	if d.Header.MsgCounter == nil {
		viol("counter/missing", "datagram without msgCounter: %s", rig.JS(d))
		return
	}
	m := *d.Header.MsgCounter
	if cn.seen[m] {
		viol("counter/duplicate-on-connection", "counter %d is carried by a second datagram: %s", m, rig.JS(d))
	}
	cn.seen[m] = true
	if m <= cn.maxCtr {
		viol("counter/not-increasing-in-issue-order", "counter %d follows %d in a sequential history", m, cn.maxCtr)
	} else {
		cn.maxCtr = m
	}
}

// ---------------------------------------------------------------------------
// part notify

type c13LRU struct {
	cap   int
	order []model.MsgCounterType // most recently used first
}

func (l *c13LRU) has(k model.MsgCounterType) int {
	for i, x := range l.order {
		if x == k {
			return i
		}
	}
	return -1
}
func (l *c13LRU) put(k model.MsgCounterType) {
	if i := l.has(k); i >= 0 {
		l.order = append(l.order[:i], l.order[i+1:]...)
	} else if len(l.order) >= l.cap {
		l.order = l.order[:len(l.order)-1]
	}
	l.order = append([]model.MsgCounterType{k}, l.order...)
}
func (l *c13LRU) get(k model.MsgCounterType) bool {
	i := l.has(k)
	if i < 0 {
		return false
	}
	l.order = append(l.order[:i], l.order[i+1:]...)
	l.order = append([]model.MsgCounterType{k}, l.order...)
	return true
}

func c13Notify(c *rig.Ctx) {
	cw := newC13World(c)
	defer cw.w.Close()
	r := c.Rand
	p := cw.peers[0]
	s := c13Sender(p)
	// peer0 subscribes to the local server feature: SetData fans out notifications through the same sender
	p.Subscribe(rig.FA(p.Addr, []uint{1}, 2), cw.srv.Address(), model.FeatureTypeTypeMeasurement)
	p.Tap.Take()

	// forced: {notifications, other datagrams per notification x4, burst of other datagrams behind one notification}
	forced := [][3]int{{99, 0, 0}, {100, 0, 0}, {101, 0, 0}, {1, 0, 0}, {2, 0, 0}, {200, 0, 0}, {250, 0, 0},
		{1, 0, 99}, {1, 0, 100}, {1, 0, 101}, {2, 0, 100}, {100, 4, 0}, {101, 4, 0}, {101, 12, 0}, {60, 24, 0}, {3, 0, 150}, {120, 1, 101}, {40, 12, 100}, {100, 48, 0}, {30, 48, 150}}
	n := 1 + r.Intn(c.Pick(260, 420))
	lookups := c.Index%2 == 1
	fanout := r.Intn(3) == 0
	// mixed traffic: the message counter is shared by all outbound kinds of the connection, the cache holds notifications
	mix4 := []int{0, 0, 1, 1, 4, 4, 12, 24, 24, 48}[r.Intn(10)] // other datagrams per notification, times 4
	burst := 0
	if r.Intn(4) == 0 {
		burst = []int{99, 100, 101, 150}[r.Intn(4)]
	}
	if c.Index < len(forced) {
		n, mix4, burst = forced[c.Index][0], forced[c.Index][1], forced[c.Index][2]
	}
	if mix4 >= 24 && n > 140 && c.Index >= len(forced) {
		n = 101 + n%40 // 6-12 other datagrams per notification: a good hundred notifications span over a thousand counters
	}
	burstAt := r.Intn(n) // the burst follows notification number burstAt+1
	if r.Intn(3) == 0 {
		burstAt = maxInt(0, n-100+r.Intn(minInt(n, 3))) // right behind one of the oldest retained notifications
	}
	others := mix4 > 0 || burst > 0
	s1 := cw.peers[1].RD.Sender()
	rfs := []api.FeatureRemoteInterface{p.RD.FeatureByAddress(rig.FA(p.Addr, []uint{1}, 1)), p.RD.FeatureByAddress(rig.FA(p.Addr, []uint{2}, 1))}
	nOther, nUniq := 0, 0
	otherKinds := map[string]int{}
	// other sends one datagram (or, for a request the sender withholds, none) of a drawn non-notification kind
	other := func() {
		nUniq++
		hdr := &model.HeaderType{AddressSource: rig.FA(p.Addr, []uint{1}, 2), AddressDestination: cw.srv.Address(), MsgCounter: util.Ptr(model.MsgCounterType(500000 + nUniq))}
		uf := rig.FA(p.Addr, []uint{1}, uint(1000+nUniq)) // a server feature address nobody else uses: the call is never a duplicate
		kind := ""
		switch r.Intn(12) {
		case 0:
			kind = "reply"
			_ = s.Reply(hdr, cw.srv.Address(), c13UniqueCmd(fmt.Sprintf("r%d", nUniq)))
		case 1:
			kind = "resultSuccess"
			_ = s.ResultSuccess(hdr, cw.srv.Address())
		case 2:
			kind = "resultError"
			_ = s.ResultError(hdr, cw.srv.Address(), model.NewErrorTypeFromString("e"))
		case 3, 4:
			kind = "write"
			_, _ = s.Write(cw.cl.Address(), rig.FA(p.Addr, []uint{1}, 1), c13UniqueCmd(fmt.Sprintf("w%d", nUniq)))
		case 5, 6:
			kind = "read"
			_, _ = s.Request(model.CmdClassifierTypeRead, cw.cl.Address(), rig.FA(p.Addr, []uint{1}, 1), false, []model.CmdType{c13UniqueCmd(fmt.Sprintf("q%d", nUniq))})
		case 7:
			kind = "subscribe"
			_, _ = s.Subscribe(cw.cl.Address(), uf, model.FeatureTypeTypeMeasurement)
		case 8:
			kind = "bind"
			_, _ = s.Bind(cw.cl.Address(), uf, model.FeatureTypeTypeMeasurement)
		case 9:
			kind = "unsubscribe"
			if r.Intn(2) == 0 {
				kind = "unbind"
				_, _ = s.Unbind(cw.cl.Address(), uf)
			} else {
				_, _ = s.Unsubscribe(cw.cl.Address(), uf)
			}
		case 10:
			kind = "requestRemoteData"
			if rf := rfs[r.Intn(len(rfs))]; rf != nil {
				fns := []model.FunctionType{model.FunctionTypeMeasurementListData, model.FunctionTypeMeasurementDescriptionListData, model.FunctionTypeMeasurementConstraintsListData, model.FunctionTypeMeasurementThresholdRelationListData}
				_, _ = cw.cl.RequestRemoteData(fns[r.Intn(len(fns))], nil, nil, rf) // withheld while an identical read is unanswered
			}
		default:
			// the other connection numbers its datagrams identically and has a cache of its own
			kind = "notify-on-the-second-connection"
			_, _ = s1.Notify(cw.srv.Address(), rig.FA(cw.peers[1].Addr, []uint{1}, 2), c13UniqueCmd(fmt.Sprintf("x%d", nUniq)))
			cw.peers[1].Tap.Take()
		}
		nOther++
		otherKinds[kind]++
	}

	tap := map[model.MsgCounterType]model.DatagramType{}
	var notifies []model.MsgCounterType // in issue order
	lru := &c13LRU{cap: 100}
	var trace []string
	log := func(f string, a ...any) {
		if len(trace) < 3000 {
			trace = append(trace, fmt.Sprintf(f, a...))
		}
	}
	viol := func(sig, f string, a ...any) {
		tr := trace
		if len(tr) > 60 {
			tr = tr[len(tr)-60:]
		}
		c.Violate(sig, "%s\n(n=%d lookups=%v) last operations:\n%s", fmt.Sprintf(f, a...), n, lookups, strings.Join(tr, "\n"))
	}
	var judged, promotedEvictions, oldRetained, oldRetainedFound int64
	seen := map[model.MsgCounterType]bool{}
	var maxCtr model.MsgCounterType
	collect := func() {
		for _, d := range p.Tap.Take() {
			if d.Header.MsgCounter == nil {
				viol("counter/missing", "%s", rig.JS(d))
				continue
			}
			m := *d.Header.MsgCounter
			if seen[m] {
				viol("counter/duplicate-on-connection", "counter %d twice", m)
			}
			if m <= maxCtr {
				viol("counter/not-increasing-in-issue-order", "counter %d follows %d in a sequential history", m, maxCtr)
			}
			seen[m], maxCtr = true, m
			tap[m] = d
			if c13Cls(d) == model.CmdClassifierTypeNotify {
				notifies = append(notifies, m)
				lru.put(m)
			}
		}
	}
	lookup := func(m model.MsgCounterType, final bool) {
		d, err := s.DatagramForMsgCounter(m)
		judged++
		idx := -1
		for i, x := range notifies {
			if x == m {
				idx = i
			}
		}
		inLast100 := idx >= 0 && idx >= len(notifies)-100
		modelHas := lru.get(m)
		log("lookup %d (notification #%d of %d, among last 100: %v, %d counters behind the newest datagram) -> found=%v, LRU-with-promotion model has it: %v", m, idx+1, len(notifies), inLast100, int64(maxCtr)-int64(m), err == nil, modelHas)
		if inLast100 && int64(maxCtr)-int64(m) >= 100 {
			oldRetained++
			if err == nil {
				oldRetainedFound++
			}
		}
		if err == nil {
			want, ok := tap[m]
			switch {
			case !ok || c13Cls(want) != model.CmdClassifierTypeNotify:
				viol("notifycache/returns-non-notification", "DatagramForMsgCounter(%d) returned %s for a counter that no notification on the tap carries", m, rig.JS(d))
			case rig.JS(d) != rig.JS(want):
				viol("notifycache/wrong-datagram", "DatagramForMsgCounter(%d) = %s, the tap saw %s", m, rig.JS(d), rig.JS(want))
			}
			return
		}
		if !inLast100 {
			return // older ones may or may not be present
		}
		if !lookups {
			viol("notifycache/last-100-missing", "notification %d is number %d of %d and cannot be retrieved (no lookup happened before)", m, idx+1, len(notifies))
			return
		}
		if !modelHas {
			// D19: a lookup promoted an older entry, a later notification then evicted this one instead
			promotedEvictions++
			viol("notifycache/evicted-after-lookup-promotion", "notification %d is number %d of %d and cannot be retrieved: an earlier lookup promoted an older entry and a later Put evicted this one", m, idx+1, len(notifies))
			return
		}
		viol("notifycache/last-100-missing", "notification %d is number %d of %d and cannot be retrieved; lookup promotion does not explain it", m, idx+1, len(notifies))
	}

	for len(notifies) < n && !c.Failed() {
		before := len(notifies)
		if fanout && r.Intn(3) == 0 {
			cw.srv.SetData(model.FunctionTypeMeasurementListData, &model.MeasurementListDataType{MeasurementData: []model.MeasurementDataType{{MeasurementId: util.Ptr(model.MeasurementIdType(len(notifies)))}}})
			log("SetData -> fan-out notification")
		} else {
			mc, err := s.Notify(cw.srv.Address(), rig.FA(p.Addr, []uint{1}, 2), c13UniqueCmd(fmt.Sprintf("n%d", len(notifies))))
			if err != nil || mc == nil {
				viol("notify/error", "Notify: %v %v", mc, err)
				break
			}
			log("Notify -> %d", *mc)
		}
		collect()
		c.Events(1)
		if len(notifies) != before+1 {
			viol("notify/not-one-datagram", "a notification produced %d notify datagrams", len(notifies)-before)
			break
		}
		if others {
			k := mix4 / 4
			if r.Intn(4) < mix4%4 {
				k++
			}
			if burst > 0 && len(notifies) == burstAt+1 {
				k += burst
				log("burst of %d other datagrams behind notification #%d", burst, len(notifies))
			}
			if k > 0 {
				for i := k; i > 0; i-- {
					other()
				}
				before := len(notifies)
				collect()
				if len(notifies) != before {
					viol("send/non-notification-call-wrote-a-notification", "other sender calls produced %d notify datagrams on the connection", len(notifies)-before)
				}
				log("%d other sender calls (%d so far), counter now %d", k, nOther, maxCtr)
			}
		}
		if lookups && r.Intn(5) == 0 {
			// mostly the oldest retained ones: that is what a result referencing an old notification looks up
			var m model.MsgCounterType
			switch y := r.Intn(10); {
			case y < 6:
				lo := len(notifies) - 100
				if lo < 0 {
					lo = 0
				}
				m = notifies[lo+r.Intn(minInt(8, len(notifies)-lo))]
			case y < 9:
				m = notifies[r.Intn(len(notifies))]
			default:
				m = model.MsgCounterType(800000 + r.Intn(100))
			}
			lookup(m, false)
		}
	}
	// final retrieval of everything retained (in a drawn order) and of some older ones
	var probe []model.MsgCounterType
	lo := len(notifies) - 100
	if lo < 0 {
		lo = 0
	}
	probe = append(probe, notifies[lo:]...)
	r.Shuffle(len(probe), func(i, j int) { probe[i], probe[j] = probe[j], probe[i] })
	for i := 0; i < lo && i < 30; i++ {
		probe = append(probe, notifies[r.Intn(lo)])
	}
	// counters of non-notifications are never in the cache with a foreign datagram: a drawn sample of them
	var nonNotif []model.MsgCounterType
	for m, d := range tap {
		if c13Cls(d) != model.CmdClassifierTypeNotify {
			nonNotif = append(nonNotif, m)
		}
	}
	sort.Slice(nonNotif, func(i, j int) bool { return nonNotif[i] < nonNotif[j] })
	r.Shuffle(len(nonNotif), func(i, j int) { nonNotif[i], nonNotif[j] = nonNotif[j], nonNotif[i] })
	for _, m := range nonNotif {
		if len(probe) < 160 {
			probe = append(probe, m)
		}
	}
	for _, m := range probe {
		lookup(m, true)
	}
	c.Events(judged)
	c.Count("notify:lookups-judged", judged)
	c.Count("notify:notifications", int64(len(notifies)))
	c.Count("notify:evictions-explained-by-promotion", promotedEvictions)
	c.Count("notify:other-sender-calls-between-notifications", int64(nOther))
	c.Count("notify:lookups-of-a-last-100-notification-that-is-100-or-more-counters-old", oldRetained)
	c.Count("notify:...of-which-retrieved", oldRetainedFound)
	for k, v := range otherKinds {
		c.Count("notify:other:"+k, int64(v))
	}
	if oldRetained > 0 {
		c.Count("notify:cases-with-a-retained-notification-100-or-more-counters-old", 1)
	}
	bucket := "<100"
	switch {
	case n == 100:
		bucket = "=100"
	case n == 101:
		bucket = "=101"
	case n > 200:
		bucket = ">200"
	case n > 100:
		bucket = "101-200"
	}
	c.Shape(fmt.Sprintf("notify/%s/n%d/lookups=%v/fanout=%v/mix=%d/4/burst=%d", bucket, n/10, lookups, fanout, mix4, burst))
	c.NonTrivial(judged >= int64(minInt(n, 100)))
	if len(trace) > 30 {
		trace = trace[len(trace)-30:]
	}
	c.Sample(map[string]any{"notifications": n, "lookups_interleaved": lookups, "fanout": fanout, "other_datagrams_per_notification_x4": mix4, "burst_of_other_datagrams": burst, "other_sender_calls": nOther, "last_operations": trace})
	if c.Failed() {
		c.Witness(map[string]any{"notifications": n, "lookups_interleaved": lookups, "other_datagrams_per_notification_x4": mix4, "burst_of_other_datagrams": burst, "burst_behind_notification": burstAt + 1, "last_operations": trace})
	}
}

func maxInt(a, b int) int {
	if a > b {
		return a
	}
	return b
}

func minInt(a, b int) int {
	if a < b {
		return a
	}
	return b
}

// ---------------------------------------------------------------------------
// part conc

type c13Call struct {
	peer, g    int
	kind       string
	start, end int64
	ctr        model.MsgCounterType
	hasCtr     bool
	uniq       string // unique function tag carried by the datagram (fresh by construction)
	marker     model.MsgCounterType
	key        string // domain request
	resp       model.MsgCounterType
	found      *model.DatagramType // lookup result
}

func c13Conc(c *rig.Ctx) {
	r := c.Rand
	yieldEvery := []int{0, 1, 2, 3, 5}[r.Intn(5)]
	cw := newC13World(c, yieldEvery)
	defer cw.w.Close()
	fewKeys := c.Index%2 == 1
	G := 8 + r.Intn(9)
	per := 25 + r.Intn(c.Pick(56, 80))
	if c.Race {
		per = 20 + r.Intn(30)
	}
	var preNotifies [2]int // notifications written before the concurrent phase (none are expected; counted for the "at most 100" premise)
	for pi, p := range cw.peers {
		for _, d := range p.Tap.Take() {
			if c13Cls(d) == model.CmdClassifierTypeNotify {
				preNotifies[pi]++
			}
		}
	}
	// 12 single-command requests + 8 requests with 2-3 commands (same destination, shared first/last commands)
	// + the 3 destination shapes [1,1]/1, [11]/1, [1]/11 with one command
	doms := [][]c13Req{append(c13Domain(cw, cw.peers[0])[:12:12], c13Multi(cw, cw.peers[0])[:8]...), append(c13Domain(cw, cw.peers[1])[:12:12], c13Multi(cw, cw.peers[1])[:8]...)}
	for pi := range doms {
		for _, q := range c13Shapes(cw, cw.peers[pi]) {
			if strings.HasSuffix(q.name, "c0") {
				doms[pi] = append(doms[pi], q)
			}
		}
	}
	var shared [2]struct {
		mu     sync.Mutex
		issued []model.MsgCounterType
		notifs []model.MsgCounterType
	}
	var inMu [2]sync.Mutex // one reader per connection, as SHIP has
	calls := make([][]c13Call, G)
	seeds := make([]int64, G)
	for g := range seeds {
		seeds[g] = r.Int63()
	}
	var wg sync.WaitGroup
	var bad sync.Map
	startC := make(chan struct{})
	for g := 0; g < G; g++ {
		g := g
		wg.Add(1)
		go func() {
			defer wg.Done()
			ok, pan := rig.Guard(60*time.Second, func() {
				rr := rand.New(rand.NewSource(seeds[g]))
				pi := 0
				if g%3 == 2 {
					pi = 1
				}
				p := cw.peers[pi]
				s := p.RD.Sender()
				sh := &shared[pi]
				<-startC
				for i := 0; i < per; i++ {
					tag := fmt.Sprintf("g%d-%d", g, i)
					cl := c13Call{peer: pi, g: g}
					op := rr.Intn(13)
					if fewKeys {
						op = []int{0, 1, 7, 8, 9, 10, 10, 10, 10, 11, 11, 12, 10}[op]
					}
					if g%4 == 3 && rr.Intn(2) == 0 {
						op = 12 // every fourth goroutine mostly looks notifications up: lookups overlap each other and Notify
					} else if g%4 == 1 && rr.Intn(3) == 0 {
						op = 0
					}
					src, dst := cw.cl.Address(), rig.FA(p.Addr, []uint{1}, 1)
					hdr := &model.HeaderType{AddressSource: dst, AddressDestination: src, MsgCounter: util.Ptr(model.MsgCounterType(1000000 + g*1000 + i))}
					var mc *model.MsgCounterType
					var err error
					cl.start = rig.Seq()
					switch op {
					case 0:
						cl.kind, cl.uniq = "notify", `"`+tag+`"`
						mc, err = s.Notify(cw.srv.Address(), rig.FA(p.Addr, []uint{1}, 2), c13UniqueCmd(tag))
					case 1:
						cl.kind, cl.uniq = "write", `"`+tag+`"`
						mc, err = s.Write(src, dst, c13UniqueCmd(tag))
					case 2:
						cl.kind, cl.uniq = "request", `"`+tag+`"`
						mc, err = s.Request(model.CmdClassifierTypeRead, src, dst, rr.Intn(2) == 0, []model.CmdType{c13UniqueCmd(tag)})
					case 3:
						cl.kind, cl.uniq = "subscribe", fmt.Sprintf(`"feature":%d`, 1000+g*1000+i)
						mc, err = s.Subscribe(src, rig.FA(p.Addr, []uint{1}, uint(1000+g*1000+i)), model.FeatureTypeTypeMeasurement)
					case 4:
						cl.kind, cl.uniq = "unsubscribe", fmt.Sprintf(`"feature":%d`, 1000+g*1000+i)
						mc, err = s.Unsubscribe(src, rig.FA(p.Addr, []uint{1}, uint(1000+g*1000+i)))
					case 5:
						cl.kind, cl.uniq = "bind", fmt.Sprintf(`"feature":%d`, 1000+g*1000+i)
						mc, err = s.Bind(src, rig.FA(p.Addr, []uint{1}, uint(1000+g*1000+i)), model.FeatureTypeTypeMeasurement)
					case 6:
						cl.kind, cl.uniq = "unbind", fmt.Sprintf(`"feature":%d`, 1000+g*1000+i)
						mc, err = s.Unbind(src, rig.FA(p.Addr, []uint{1}, uint(1000+g*1000+i)))
					case 7:
						cl.kind, cl.marker = "reply", *hdr.MsgCounter
						err = s.Reply(hdr, src, c13UniqueCmd(tag))
					case 8:
						cl.kind, cl.marker = "resultSuccess", *hdr.MsgCounter
						err = s.ResultSuccess(hdr, src)
					case 9:
						cl.kind, cl.marker = "resultError", *hdr.MsgCounter
						err = s.ResultError(hdr, src, model.NewErrorTypeFromString("e"))
					case 10:
						q := doms[pi][rr.Intn(len(doms[pi]))]
						cl.kind, cl.key = "domain-request", q.key()
						mc, err = s.Request(q.cls, q.src, q.dst, q.ack, q.cmd)
					case 11:
						sh.mu.Lock()
						var x model.MsgCounterType
						if len(sh.issued) > 0 {
							x = sh.issued[rr.Intn(len(sh.issued))]
						}
						sh.mu.Unlock()
						if x == 0 {
							cl.kind = "noop"
							break
						}
						cl.kind, cl.resp = "response", x
						if rr.Intn(2) == 0 {
							s.ProcessResponseForMsgCounterReference(&x)
						} else {
							// in a drawn form (c13_respform.go): source device omitted / never announced, own counter equal to the
							// reference, through the SHIP reader entry point ...
							form := c13DrawForm(rr)
							form.natural = false
							if form.srcDev == 3 {
								form.srcDev = 1
							}
							inMu[pi].Lock()
							prob := c13Deliver(p, rr, form, model.CmdClassifierTypeResult, dst, src, x, model.CmdType{ResultData: &model.ResultDataType{ErrorNumber: util.Ptr(model.ErrorNumberType(0))}}, "")
							inMu[pi].Unlock()
							if prob != "" {
								panic(prob)
							}
							if !form.canonical() {
								cl.kind = "response(non-canonical form)"
							}
						}
					default:
						sh.mu.Lock()
						var x model.MsgCounterType
						if len(sh.notifs) > 0 {
							x = sh.notifs[rr.Intn(len(sh.notifs))]
						}
						sh.mu.Unlock()
						if x == 0 {
							cl.kind = "noop"
							break
						}
						cl.kind, cl.resp = "lookup", x
						if d, e := s.DatagramForMsgCounter(x); e == nil {
							cl.found = &d
						}
					}
					cl.end = rig.Seq()
					if err != nil {
						cl.kind += "!error:" + err.Error()
					}
					if mc != nil {
						cl.ctr, cl.hasCtr = *mc, true
						sh.mu.Lock()
						if op == 10 {
							sh.issued = append(sh.issued, *mc)
						} else if op == 0 {
							sh.notifs = append(sh.notifs, *mc)
						}
						sh.mu.Unlock()
					}
					calls[g] = append(calls[g], cl)
				}
			})
			if pan != "" {
				bad.Store(g, "panic: "+pan)
			} else if !ok {
				bad.Store(g, "timeout")
			}
		}()
	}
	close(startC)
	wg.Wait()
	failed := false
	bad.Range(func(k, v any) bool {
		failed = true
		if strings.HasPrefix(v.(string), "panic") {
			c.Violate("conc/panic", "goroutine %v: %s", k, v)
		} else {
			c.Inconclusive("goroutine %v did not finish its sender calls within 60s", k)
		}
		return true
	})
	if failed {
		return
	}

	// epilogue: notifications against a hail of lookups. On a connection that has carried at most 60 notifications so
	// far two goroutines send 15 notifications each while two others look counters up in a tight loop (the counters the
	// notifications are about to get, so hits and misses both occur): Notify and DatagramForMsgCounter work on the same
	// cache at the same time, all the time. The calls join the records above (counter identity, issue order); every hit is
	// compared with the tap; the retrieval of every notification afterwards (below) is what decides.
	type epiHit struct {
		pi int
		m  model.MsgCounterType
		d  model.DatagramType
	}
	var epiMu sync.Mutex
	var epiHits []epiHit
	for pi, p := range cw.peers {
		nn := preNotifies[pi]
		var top model.MsgCounterType
		for _, l := range calls {
			for _, cl := range l {
				if cl.peer == pi && cl.hasCtr {
					if cl.kind == "notify" {
						nn++
					}
					if cl.ctr > top {
						top = cl.ctr
					}
				}
			}
		}
		if nn > 60 {
			continue
		}
		s := p.RD.Sender()
		var stop atomic.Bool
		var ewg, lwg sync.WaitGroup
		epiCalls := make([][]c13Call, 2)
		startE := make(chan struct{})
		var epiBad atomic.Value
		for n := 0; n < 2; n++ {
			n := n
			ewg.Add(1)
			go func() {
				defer ewg.Done()
				ok, pan := rig.Guard(60*time.Second, func() {
					<-startE
					for i := 0; i < 15; i++ {
						tag := fmt.Sprintf("e%d-%d-%d", pi, n, i)
						cl := c13Call{peer: pi, g: G + n, kind: "notify", uniq: `"` + tag + `"`}
						cl.start = rig.Seq()
						mc, err := s.Notify(cw.srv.Address(), rig.FA(p.Addr, []uint{1}, 2), c13UniqueCmd(tag))
						cl.end = rig.Seq()
						if err != nil {
							cl.kind += "!error:" + err.Error()
						}
						if mc != nil {
							cl.ctr, cl.hasCtr = *mc, true
						}
						epiCalls[n] = append(epiCalls[n], cl)
					}
				})
				if pan != "" {
					epiBad.Store("panic: " + pan)
				} else if !ok {
					epiBad.Store("timeout")
				}
			}()
		}
		for n := 0; n < 2; n++ {
			lwg.Add(1)
			go func() {
				defer lwg.Done()
				_, pan := rig.Guard(60*time.Second, func() {
					<-startE
					var hits []epiHit
					lim := 5000 // bounded: the lookups must not burn a processor for as long as a loaded machine keeps the notifying goroutines waiting
					if c.Race {
						lim = 1500
					}
					for i := 0; !stop.Load() && i < lim; i++ {
						m := top + 1 + model.MsgCounterType(i%40)
						if d, e := s.DatagramForMsgCounter(m); e == nil && len(hits) < 40 {
							hits = append(hits, epiHit{pi, m, d})
						}
					}
					epiMu.Lock()
					epiHits = append(epiHits, hits...)
					epiMu.Unlock()
				})
				if pan != "" {
					epiBad.Store("panic: " + pan)
				}
			}()
		}
		close(startE)
		ewg.Wait()
		stop.Store(true)
		lwg.Wait()
		if v := epiBad.Load(); v != nil {
			if strings.HasPrefix(v.(string), "panic") {
				c.Violate("conc/panic", "epilogue (notifications against lookups): %s", v)
			} else {
				c.Inconclusive("epilogue: the notifications did not finish within 60s")
			}
			return
		}
		calls = append(calls, epiCalls...)
		c.Count("conc:epilogues(30-notifications-against-two-goroutines-of-lookups)", 1)
	}

	var all []c13Call
	kinds := map[string]bool{}
	for _, l := range calls {
		for _, cl := range l {
			all = append(all, cl)
			kinds[strings.SplitN(cl.kind, "!", 2)[0]] = true
			if strings.Contains(cl.kind, "!error") {
				c.Violate("conc/call-returned-error", "%s", cl.kind)
			}
		}
	}
	datagrams, pairs, notifLooked := 0, 0, 0
	for pi, p := range cw.peers {
		outs := p.Tap.TakeOut()
		datagrams += len(outs)
		c.Events(int64(len(outs)))
		byCtr := map[model.MsgCounterType]rig.Out{}
		byMarker := map[model.MsgCounterType][]rig.Out{}
		for _, o := range outs {
			if o.D.Header.MsgCounter == nil {
				c.Violate("counter/missing", "%s", rig.JS(o.D))
				continue
			}
			m := *o.D.Header.MsgCounter
			if prev, dup := byCtr[m]; dup {
				c.Violate("counter/duplicate-on-connection", "peer%d: counter %d is carried by two datagrams under concurrent use:\n%s\n%s", pi, m, rig.JS(prev.D), rig.JS(o.D))
			}
			byCtr[m] = o
			if o.D.Header.MsgCounterReference != nil {
				byMarker[*o.D.Header.MsgCounterReference] = append(byMarker[*o.D.Header.MsgCounterReference], o)
			}
		}
		if len(p.Tap.Broken) > 0 {
			c.Violate("tap/undecodable", "%v", p.Tap.Broken)
		}
		for _, h := range epiHits {
			if h.pi != pi {
				continue
			}
			c.Events(1)
			if o, ok := byCtr[h.m]; !ok || rig.JS(o.D) != rig.JS(h.d) {
				c.Violate("notifycache/wrong-datagram", "peer%d: DatagramForMsgCounter(%d), concurrent with the Notify calls of the epilogue, = %s, tap: %s", pi, h.m, rig.JS(h.d), rig.JS(o.D))
			}
		}
		// identity of returned counter and datagram
		type iv struct {
			start, end int64
			ctr        model.MsgCounterType
			what       string
		}
		var freshCalls []iv
		byReturned := map[model.MsgCounterType][]c13Call{}
		var responses []c13Call
		for _, cl := range all {
			if cl.peer != pi {
				continue
			}
			c.Events(1)
			switch {
			case cl.marker != 0:
				os := byMarker[cl.marker]
				if len(os) != 1 {
					c.Violate("send/not-exactly-one-datagram", "%s with marker %d produced %d datagrams", cl.kind, cl.marker, len(os))
					continue
				}
				freshCalls = append(freshCalls, iv{cl.start, cl.end, *os[0].D.Header.MsgCounter, cl.kind})
			case strings.HasPrefix(cl.kind, "response"):
				responses = append(responses, cl)
			case cl.kind == "lookup":
				if cl.found != nil {
					o, ok := byCtr[cl.resp]
					if !ok || rig.JS(o.D) != rig.JS(*cl.found) {
						c.Violate("notifycache/wrong-datagram", "concurrent DatagramForMsgCounter(%d) = %s, tap: %s", cl.resp, rig.JS(*cl.found), rig.JS(o.D))
					}
				}
			case cl.hasCtr:
				o, ok := byCtr[cl.ctr]
				if !ok {
					c.Violate("counter/returned-but-never-sent", "%s returned counter %d, no datagram on the connection carries it", cl.kind, cl.ctr)
					continue
				}
				if o.Seq > cl.end {
					c.Violate("counter/returned-before-sent", "%s returned counter %d before its datagram was written", cl.kind, cl.ctr)
				}
				if cl.key != "" {
					byReturned[cl.ctr] = append(byReturned[cl.ctr], cl)
					if k := c13Key(o.D.Header.AddressDestination, o.D.Payload.Cmd); k != cl.key {
						c.Violate("dedupe/different-request-withheld", "a request %s returned counter %d which carries the different request %s", cl.key, cl.ctr, k)
					}
					continue
				}
				// unique content: the datagram with the returned counter must be this call's
				js := rig.JS(o.D.Payload)
				if cl.uniq != "" && !strings.Contains(js, cl.uniq) {
					c.Violate("counter/returned-counter-of-other-datagram", "%s %s returned counter %d, which carries %s", cl.kind, cl.uniq, cl.ctr, js)
					continue
				}
				freshCalls = append(freshCalls, iv{cl.start, cl.end, cl.ctr, cl.kind})
			case cl.kind != "noop":
				c.Violate("request/error-or-no-counter", "%s returned no counter", cl.kind)
			}
		}
		// a domain request that alone returned its counter issued it
		for ctr, l := range byReturned {
			if len(l) == 1 {
				freshCalls = append(freshCalls, iv{l[0].start, l[0].end, ctr, "domain-request"})
			}
			// soundness on intervals: not withheld with c once a response for c has completed before the call began
			for _, x := range l {
				for _, rsp := range responses {
					if rsp.resp == ctr && rsp.end < x.start {
						c.Violate("dedupe/withheld-after-response", "peer%d: request %s invoked at %d returned counter %d although a response referencing %d had completed at %d", pi, x.key, x.start, ctr, ctr, rsp.end)
					}
				}
			}
			if len(l) > 1 {
				c.Count("conc:withheld", int64(len(l)-1))
			}
		}
		// issue order over non-overlapping calls: sweep by start, track the largest counter among calls that ended before
		byEnd := append([]iv(nil), freshCalls...)
		sort.Slice(byEnd, func(i, j int) bool { return byEnd[i].end < byEnd[j].end })
		sort.Slice(freshCalls, func(i, j int) bool { return freshCalls[i].start < freshCalls[j].start })
		j := 0
		var maxEnded iv
		for _, b := range freshCalls {
			for j < len(byEnd) && byEnd[j].end < b.start {
				if byEnd[j].ctr > maxEnded.ctr {
					maxEnded = byEnd[j]
				}
				j++
			}
			if j > 0 {
				pairs++
			}
			if maxEnded.ctr != 0 && b.ctr <= maxEnded.ctr {
				c.Violate("counter/issue-order", "peer%d: %s returned at %d with counter %d, %s was invoked later at %d and got counter %d", pi, maxEnded.what, maxEnded.end, maxEnded.ctr, b.what, b.start, b.ctr)
			}
		}
		if n := c13Sender(p).VerifRequestCacheLen(); n > c13CacheBound {
			c.Violate("dedupe/memory-exceeds-bound", "peer%d: the sender remembers %d unanswered requests (bound %d)", pi, n, c13CacheBound)
		}
		// retrievability under concurrency: "the datagram of any of the last 100 notifications can be retrieved by its
		// counter". All goroutines have finished; if this connection carried at most 100 notifications altogether, every
		// one of them is among the last 100 - and the cache (capacity 100) was never full, so the lookups that ran
		// concurrently (which promote entries: D19) cannot have evicted anything. Each one is looked up now,
		// sequentially: it must be found and equal the datagram on the tap.
		var notifs []rig.Out
		for _, o := range outs {
			if c13Cls(o.D) == model.CmdClassifierTypeNotify && o.D.Header.MsgCounter != nil {
				notifs = append(notifs, o)
			}
		}
		switch total := len(notifs) + preNotifies[pi]; {
		case len(notifs) == 0:
		case total <= 100:
			missing := 0
			for _, o := range notifs {
				m := *o.D.Header.MsgCounter
				d, err := c13Sender(p).DatagramForMsgCounter(m)
				c.Events(1)
				switch {
				case err != nil:
					missing++
					if missing == 1 {
						c.Violate("notifycache/last-100-missing-after-concurrent-use", "peer%d: the connection carried %d notifications (at most 100, so each is among the last 100 and nothing can have been evicted); after all concurrent calls have returned DatagramForMsgCounter(%d) does not find the notification %s", pi, total, m, rig.JS(o.D))
					}
				case rig.JS(d) != rig.JS(o.D):
					c.Violate("notifycache/wrong-datagram", "peer%d: after the concurrent phase DatagramForMsgCounter(%d) = %s, the tap saw %s", pi, m, rig.JS(d), rig.JS(o.D))
				}
			}
			notifLooked += len(notifs)
			c.Count("conc:connections-with-at-most-100-notifications(every-one-looked-up-afterwards)", 1)
			c.Count("conc:notifications-looked-up-after-the-concurrent-phase", int64(len(notifs)))
			if missing > 0 {
				c.Count("conc:notifications-missing-after-the-concurrent-phase(reported)", int64(missing))
			}
		default:
			c.Count("conc:connections-with-more-than-100-notifications(retrieval-not-judged:D19)", 1)
		}
	}
	var ks []string
	for k := range kinds {
		ks = append(ks, k)
		c.Seen("conc_call_kinds", k)
	}
	sort.Strings(ks)
	c.Count("conc:datagrams", int64(datagrams))
	c.Count("conc:ordered-call-pairs-checked", int64(pairs))
	c.Shape(fmt.Sprintf("conc/G%d/per%d/few=%v/yield=%d", G, per/10, fewKeys, yieldEvery))
	c.NonTrivial(datagrams >= 200 && pairs > 0)
	c.Sample(map[string]any{"goroutines": G, "calls_per_goroutine": per, "few_keys": fewKeys, "writer_yields_every": yieldEvery, "datagrams": datagrams, "call_kinds": ks, "non_overlapping_pairs": pairs, "notifications_looked_up_after_the_concurrent_phase": notifLooked})
	if c.Failed() {
		c.Witness(map[string]any{"goroutines": G, "calls_per_goroutine": per, "few_keys": fewKeys, "datagrams": datagrams})
	}
}

// ---------------------------------------------------------------------------
// part mute: requests on a connection without writer

func c13Mute(c *rig.Ctx) {
	cw := newC13World(c)
	defer cw.w.Close()
	r := c.Rand
	mp := addMutePeer(cw.w, 0)
	defer func() { cw.w.Local.RemoveRemoteDeviceConnection(mp.Ski) }()
	mp.Announce(c13Feats()) // inbound works: the stack knows the peer's features (its own reaction cannot be written)
	var trace, shape []string
	log := func(f string, a ...any) { trace = append(trace, fmt.Sprintf(f, a...)) }
	viol := func(sig, f string, a ...any) {
		c.Violate(sig, "%s\noperations:\n%s", fmt.Sprintf(f, a...), strings.Join(trace, "\n"))
	}
	if mp.RD == nil || mp.RD.FeatureByAddress(rig.FA(mp.Addr, []uint{1}, 1)) == nil {
		c.Inconclusive("the mute peer's announcement was not processed")
		return
	}
	dom := append(append(c13Domain(cw, mp), c13Multi(cw, mp)...), c13Shapes(cw, mp)...)
	// two more wrappers that end in Sender.Subscribe / Sender.Bind
	type mreq struct {
		c13Req
		fl string // "" | "subscribe" | "bind": through FeatureLocal.SubscribeToRemote / BindToRemote
	}
	var pool []mreq
	for _, q := range dom {
		pool = append(pool, mreq{c13Req: q})
	}
	for _, q := range dom {
		// FeatureLocal.SubscribeToRemote([1]/1) IS the request sub0, BindToRemote([1]/1) IS bind0 (same destination, same command)
		if q.name == "sub0" || q.name == "bind0" {
			q2 := q
			q2.name, q2.via = "FeatureLocal-"+q.via, "fl-"+q.via
			pool = append(pool, mreq{c13Req: q2, fl: q.via})
		}
	}
	issue := func(p *rig.Peer, q mreq) (*model.MsgCounterType, error) {
		var mc *model.MsgCounterType
		var e *model.ErrorType
		switch q.fl {
		case "subscribe":
			mc, e = cw.cl.SubscribeToRemote(rig.FA(p.Addr, []uint{1}, 1))
		case "bind":
			mc, e = cw.cl.BindToRemote(rig.FA(p.Addr, []uint{1}, 1))
		default:
			if q.via == "rrd" {
				q.rf = p.RD.FeatureByAddress(q.dst) // the remote feature object of the CURRENT connection
				if q.rf == nil {
					return nil, fmt.Errorf("harness: remote feature %s unknown", rig.JS(q.dst))
				}
			}
			return c13Issue(cw, p, q.c13Req)
		}
		if e != nil {
			return mc, fmt.Errorf("%s", e.String())
		}
		return mc, nil
	}
	n := 3 + r.Intn(4)
	var chosen []mreq
	for _, i := range r.Perm(len(pool))[:n] {
		chosen = append(chosen, pool[i])
	}
	// every chosen request three times, in a drawn interleaving
	var seq []int
	for i := range chosen {
		seq = append(seq, i, i, i)
	}
	if r.Intn(3) > 0 {
		r.Shuffle(len(seq), func(i, j int) { seq[i], seq[j] = seq[j], seq[i] })
	}
	returned := map[string][]model.MsgCounterType{} // request identity -> counters returned by its failed calls
	var failing, reported int64
	s := mp.RD.Sender()
	for k, i := range seq {
		q := chosen[i]
		mc, err := issue(mp, q)
		c.Events(1)
		failing++
		shape = append(shape, "M"+q.via[:2]+fmt.Sprint(len(q.cmd)))
		ctr := "none"
		if mc != nil {
			ctr = fmt.Sprint(*mc)
		}
		log("mute connection: call %d of %s (%s) -> counter %s, err=%v", len(returned[q.key()])+1, q.name, q.via, ctr, err)
		if err == nil {
			earlier := false
			for _, x := range returned[q.key()] {
				if mc != nil && x == *mc {
					earlier = true
				}
			}
			if earlier {
				viol("mute/request-withheld-as-duplicate-of-a-request-that-was-never-written", "%s (%s) on a connection without writer returned counter %s and NO error: the counter is the one an earlier, FAILED call of the same request returned; nothing was ever written to this connection, so no identical request is unanswered", q.name, q.via, ctr)
			} else {
				viol("mute/request-reported-as-sent-although-nothing-was-written", "%s (%s) on a connection without writer returned counter %s and NO error although nothing can be written to this connection", q.name, q.via, ctr)
			}
			break
		}
		reported++
		if mc != nil {
			returned[q.key()] = append(returned[q.key()], *mc)
		} else {
			returned[q.key()] = append(returned[q.key()], 0)
		}
		if r.Intn(4) == 0 { // other kinds fail as well and must not disturb anything
			var e2 error
			if k%2 == 0 {
				_, e2 = s.Notify(cw.srv.Address(), rig.FA(mp.Addr, []uint{1}, 2), c13UniqueCmd(fmt.Sprintf("n%d", k)))
			} else {
				_, e2 = s.Write(cw.cl.Address(), rig.FA(mp.Addr, []uint{1}, 1), c13UniqueCmd(fmt.Sprintf("w%d", k)))
			}
			shape = append(shape, "o")
			if e2 == nil {
				viol("mute/send-reported-as-done-although-nothing-was-written", "a notify/write on a connection without writer returned no error")
				break
			}
		}
	}
	if mp.Tap.Total() != 0 {
		c.Inconclusive("the mute peer's tap received a datagram: it is not mute")
		return
	}
	c.Count("mute:failing-calls-judged", failing)
	c.Count("mute:failures-reported-as-errors", reported)
	c.Count("mute:requests-remembered-on-the-mute-connection(VerifRequestCacheLen, recorded only)", int64(c13Sender(mp).VerifRequestCacheLen()))
	// the connection is replaced by one with a writer: every request must be written now
	var written int64
	if !c.Failed() {
		cw.w.Local.RemoveRemoteDeviceConnection(mp.Ski)
		mp.Tap = &rig.Tap{}
		cw.w.Local.SetupRemoteDevice(mp.Ski, mp.Tap)
		mp.RD = cw.w.Local.RemoteDeviceForSki(mp.Ski)
		mp.Announce(c13Feats())
		mp.Tap.Take() // discovery read, the stack's own subscription call and use-case read
		log("the connection is replaced by one with a writer; the peer announces itself again")
		sent := map[string]model.MsgCounterType{} // identities written (and unanswered) on the new connection
		for _, i := range r.Perm(len(chosen)) {
			q := chosen[i]
			mc, err := issue(mp, q)
			outs := mp.Tap.Take()
			c.Events(1 + int64(len(outs)))
			shape = append(shape, "R"+q.via[:2])
			log("healthy connection: %s (%s) -> counter %v, err=%v, %d datagrams written", q.name, q.via, mc, err, len(outs))
			prev, dup := sent[q.key()]
			switch {
			case err != nil || mc == nil:
				viol("request/error-or-no-counter", "after the reconnect %s (%s): counter=%v err=%v", q.name, q.via, mc, err)
			case dup:
				// the same request was written through the other API a moment ago and is unanswered
				if len(outs) != 0 && *mc == prev {
					viol("request/several-datagrams", "%s returned the counter %d of the outstanding identical request and wrote %s", q.name, prev, rig.JS(outs))
				}
			case len(outs) != 1:
				viol("mute-reconnect/request-not-written", "after the connection was replaced by one with a writer %s (%s) returned counter %d and wrote %d datagrams: %s", q.name, q.via, *mc, len(outs), rig.JS(outs))
			case outs[0].Header.MsgCounter == nil || *outs[0].Header.MsgCounter != *mc:
				viol("request/returned-counter-differs-from-datagram", "%s returned %d, datagram: %s", q.name, *mc, rig.JS(outs[0]))
			case len(q.cmd) > 0 && c13Key(outs[0].Header.AddressDestination, outs[0].Payload.Cmd) != q.key():
				viol("request/datagram-differs-from-call", "%s: sent %s", q.name, rig.JS(outs[0]))
			default:
				written++
				sent[q.key()] = *mc
				// and the immediate repeat is a duplicate of THIS, written and unanswered, request
				mc2, err2 := issue(mp, q)
				outs2 := mp.Tap.Take()
				c.Events(1)
				if err2 != nil || mc2 == nil {
					viol("request/error-or-no-counter", "immediate repeat of %s after the reconnect: counter=%v err=%v", q.name, mc2, err2)
				} else if len(outs2) != 0 || *mc2 != *mc {
					viol("dedupe/immediate-repeat-sent-again", "after the reconnect %s was written as %d; its immediate repeat returned %d and wrote %d datagrams", q.name, *mc, *mc2, len(outs2))
				}
			}
			if c.Failed() {
				break
			}
		}
	}
	c.Count("mute:requests-written-after-the-connection-got-a-writer", written)
	c.Shape(fmt.Sprintf("mute/%s", c13Hash(shape)))
	c.NonTrivial(failing >= 9 && written >= 3)
	c.Sample(map[string]any{"operations": trace})
	if c.Failed() {
		c.Witness(map[string]any{"operations": trace})
	}
}
