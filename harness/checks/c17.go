package checks

import (
	"fmt"
	"math/rand"
	"os"
	"runtime"
	"sort"
	"sync"
	"sync/atomic"
	"time"

	"github.com/enbility/spine-go/api"
	"github.com/enbility/spine-go/model"
	"github.com/enbility/spine-go/spine"

	"verifharness/rig"
)

// C17 — concurrent use is free of data races and deadlocks.
//
// duel     (-race) every unordered pair of the operation list (c17_ops.go), including an operation against
//          itself, is one case: r repetitions, each in a fresh World, both operations released from one barrier;
//          per-connection operations alternate between the same and another connection; pairs that pass a
//          verifPoint window get extra repetitions with jitter hooks; timer operations get the opponent aligned
//          with the firing. Race reports are attributed to the pair through the @@CASE marker.
// soak     (-race) mixed random workload: 3 connections, 6-10 API goroutines, heartbeat running, approval callbacks
//          with a 15 ms timeout on both writable features, fixed operation count, per-goroutine progress watchdog.
//          Behind the mixed cases 3 (thorough 15) cases of the targeted scenario writes|CleanWriteApprovalCaches-bursts|
//          writer-reconnect|verdicts (c17Scenario, kind c17ChurnScenario): both writers write all the time with verdicts
//          pending, an application goroutine cleans the features' per-connection approval caches in bursts and the writers'
//          connections go and come back - an access to those maps outside the feature's lock has a window of about a
//          microsecond per write, which only a high rate of cleanings meets.
// deadlock (plain) the same workload at higher speed plus six targeted lock-order scenarios (the last two: writes that are
//          approved at once || removal notifies of unrelated entities on all connections || DeviceLocal.CleanRemoteEntityCaches
//          from an application goroutine; connections WITHOUT writer - every send fails - whose discovery replies are handled
//          and to which requests are sent again and again, next to healthy connections, while the heartbeat stream ticks).
//
// The world (c17_world.go): local entity [1] (LoadControl server bound by peer 0, Measurement client, DeviceDiagnosis
// server with heartbeat) and entity [2] (Measurement client, DeviceDiagnosis server, LoadControl server bound by peer 1:
// the second writer). The busy object is also the one that goes: RemoveEntity/AddEntity of entity [1] and of entity [2]
// (removal and re-addition in different rounds, the re-addition restores use cases, subscriptions, bindings, heartbeat),
// inbound notify/reply/result/subscribe to the features of both entities, a discovery notify that removes and re-adds
// the peer's entity [1] (the one holding binding, subscriptions and pending writes). The bindings change hands with
// writes pending ([1]/1 between the healthy peers, [2]/3 between peer 1 and a peer without writer whose results can not
// be sent). Peers without writer subscribe to LoadControl [1]/1 and DeviceDiagnosis [1]/3, so local data updates AND the
// heartbeat stream meet failing sends. The application side is part of the workload: event handlers, response/result
// callbacks and approval callbacks read (marshal) the payload they were given, retain it and read the one retained
// before again; the duellists do the same with DataCopy results (c17W.keep).
//
// Oracle: a race report whose one side is a spine-go frame = violation race/<Type.field> (rig/race.go); an
// operation that does not return keeps the case waiting so that the parent's quiet-period monitor takes the
// goroutine dump (hang@<frame> only if a goroutine is parked inside spine-go); the same happens when, after the
// teardown of a world, a callback that was entered has not returned (entered/returned counters per callback kind,
// c17W.settle) or when at the end of a case goroutines started during the case are still alive (rig.WaitQuiet false,
// c17Quiet: a heartbeat stream, a fired approval timer or a callback parked on one of the stack's locks while every
// operation returned) - both waits are watchdogs of 20 s, the verdict is the dump's; a panic inside an operation, a
// callback or (recovered by the stack) inside the handling of a well-formed message = violation.

func init() {
	ops := c17Ops()
	pairs := c17Pairs(len(ops))
	rig.Register(&rig.Check{
		ID:    "C17",
		Floor: len(pairs) / 2,
		Rule: fmt.Sprintf("duel: %d operations covering the public API and every inbound message kind, all %d unordered pairs (incl. self pairs), one case per pair with r repetitions (quick 7, thorough 40; +2/+8 with jitter hooks for pairs passing a hook window) "+
			"over prior states rich/busy/sparse/churned and same/other connection variants; the operations include removal/re-addition of the BUSY local entity [1] and of entity [2] (removed state lasting a round, re-addition restoring its subscriptions/bindings/use cases/heartbeat), inbound traffic to the features of both entities, "+
			"a discovery notify removing and re-adding the peer's busy entity [1], two writers (peer 0 on [1]/1, peer 1 on [2]/3), bindings changing hands with writes pending (also to a peer without writer), peers without writer subscribed to LoadControl and to the heartbeat's DeviceDiagnosis feature. "+
			"Application side: handlers and callbacks marshal the payload they get (p.Data, msg.Data, m.Cmd/header/filters), retain it and marshal the retained one again; duellists do so with DataCopy results. "+
			"The matrix ends with api.CleanWriteApprovalCaches+writer-reconnect (bursts of FeatureLocal.CleanWriteApprovalCaches for connections that are not the feature's writer and, once per world and duellist, the writer with a write pending losing its connection, coming back, binding and writing again; its preparation registers an approval callback so that writes are pending in every prior state) and hb.SetLocalFeature(running+ticked) (HeartbeatManager.SetLocalFeature on entity [1] whose 100 ms stream has ticked since the world was built: the preparation sleeps - blindly, so that no happens-before edge orders the tick - until 10 ms after the next tick). "+
			"soak: behind the mixed cases 3 (thorough 15) cases of the scenario writes|CleanWriteApprovalCaches-bursts|writer-reconnect|verdicts under -race (300/600 iterations per worker). "+
			"soak/deadlock: seeded random mix of the same operations on 3 connections (plus up to two connections without writer, set up by the operation that uses them) with 6-10 goroutines; "+
			"deadlock additionally runs %d targeted scenarios x 3 (thorough 25) with 300 (1500) iterations per worker: approve|disconnect|clean, publish|handlers-calling-back|subscribe, RemoveEntity|inbound|disconnect, heartbeat|RemoveEntity|SetData, "+
			"auto-approved-writes(k=1|2)|entity-removal-notify|CleanRemoteEntityCaches, mute-connections|healthy-connections|heartbeat-ticks, "+
			"last-connection-leaves+first-returns (ALL connections removed and set up again each round, so that DeviceLocal's core-level handler is unsubscribed and subscribed again)|discovery replies still delivered by the connections' readers|two publishers|subscriber|device-map readers, with a core-level observer that delays device-change events before the stack's own core handler (odd rounds: it also subscribes+unsubscribes a handler from inside HandleEvent), "+
			"discovery replies with optional elements omitted (no deviceAddress in the description | deviceAddress without device | entity and feature addresses without device part) on two extra connections|healthy connections|publications. "+
			"Completion: every operation under a 20 s watchdog; after the teardown of every world each callback kind (event-handler, approval, response+result) must have returned as often as it was entered, and at the end of every case the goroutine count must be back at its value from the start of the case (heartbeat streams, fired timers, callbacks); expiry of any of these watchdogs hands the case to the parent's goroutine dump (hang@<frame> only for a goroutine parked inside spine-go for a minute; a heartbeat stream idling in its select is not parked, one waiting for a mutex is), otherwise inconclusive. "+
			"A case is non-trivial if every operation it started returned (no watchdog expiry) ; distinct = distinct pair (duel) / distinct (part, scenario, goroutine count) otherwise.", len(ops), len(pairs), c17Scenarios),
		Assumptions: []string{
			"a clean matrix means: no race between any two of these operations in these prior states, not 'for all schedules'",
			"the messages of ONE connection are delivered one after the other (per-connection harness mutex), as SHIP's synchronous read loop does (ws readPump -> HandleIncomingWebsocketMessage -> HandleShipPayloadMessage); messages of different connections, API calls, timers and heartbeats run concurrently with them, so the same-connection variant of an inbound x inbound pair is 'both orders, unsynchronised start', not 'overlapping'",
			"blocking forever is decided by the parent's quiet-period monitor on a goroutine dump (a goroutine parked >= 1 minute inside spine-go); watchdog expiry without that is inconclusive. This holds for operations, for callbacks that were entered but did not return, and for goroutines of the stack (heartbeat stream, timer function) still alive after the teardown; a goroutine that is alive but not parked in spine-go (a leaked but running heartbeat stream) is not decided by the statement and ends inconclusive",
			"nothing of the stack legitimately outlives the teardown of a world: approval timers are time.AfterFunc timers (no goroutine until they fire), stopped heartbeat streams leave their select at once, callbacks and handlers return; the goroutine count is compared with the count at the START of the same case, so goroutines left over from earlier cases of the worker do not matter",
			"well-formed messages only: a panic recovered by HandleSpineMesssage is still counted as a violation because no input here is malformed; repeated discovery replies, repeated subscription/binding requests, binding requests for a bound feature and messages of an entity the peer removed before are well-formed (answered with an error result)",
			"application-side reads are reads only: the harness never writes into data the stack handed out; a retained value is owned by the goroutine that swapped it out of its slot (atomic pointer), so harness goroutines never share one",
		},
		Parts: []rig.Part{
			{Name: "duel", Race: true, Cases: func(t rig.Tier) int { return len(pairs) }, Run: c17DuelCase, Quiet: 45 * time.Second, Chunk: 20, Procs: 4},
			{Name: "soak", Race: true, Cases: func(t rig.Tier) int {
				return map[rig.Tier]int{rig.Quick: c17SoakMixed[0] + 3, rig.Thorough: c17SoakMixed[1] + 15}[t]
			}, Run: c17SoakCase, Quiet: 45 * time.Second, Chunk: 1, Procs: 8, Workers: 8},
			{Name: "deadlock", Cases: func(t rig.Tier) int {
				return map[rig.Tier]int{rig.Quick: 8 + c17Scenarios*3, rig.Thorough: 60 + c17Scenarios*25}[t]
			}, Run: c17DeadlockCase, Quiet: 45 * time.Second, Chunk: 2, Procs: 8, Workers: 8},
		},
		Extra: func(agg *rig.Aggregate, cov map[string]any) {
			cov["operations"] = len(ops)
			cov["pairs"] = len(pairs)
			per := map[string]int64{}
			for k, v := range agg.Counts {
				if len(k) > 3 && k[:3] == "op:" {
					per[k[3:]] = v
				}
			}
			cov["per_operation_completions"] = per
			cov["duels"] = agg.Counts["duels"]
			cov["operations_completed"] = agg.Counts["ops_completed"]
			cov["panics"] = agg.Counts["panics"]
		},
	})
}

const c17Scenarios = 8 // targeted scenarios of the deadlock part (kinds 0..7)

// c17ChurnScenario is run by the soak part (-race): 3 (thorough 15) cases behind the mixed ones
const c17ChurnScenario = 100

var c17SoakMixed = [2]int{10, 100} // mixed cases of the soak part (quick, thorough)

func c17Pairs(n int) [][2]int {
	var ps [][2]int
	for i := 0; i < n; i++ {
		for j := i; j < n; j++ {
			ps = append(ps, [2]int{i, j})
		}
	}
	return ps
}

// ---------------------------------------------------------------------------
// duel

type c17Rep struct {
	state   int
	same    bool
	jitter  bool
	align   bool
	base    int
	stagger int // 0: both start at the barrier and keep going until the slower one has done its rounds;
	// 1|2: duellist B|A starts a little later and unsynchronised (sleep, no happens-before edge): the
	// detector then sees the late one's first touch of every object unordered against the early one's writes
}

func c17Schedule(thorough, hooked bool) []c17Rep {
	var reps []c17Rep
	if !thorough {
		reps = []c17Rep{{state: 0, same: true}, {state: 0, same: false, base: 1}, {state: 1, same: true, align: true},
			{state: 0, same: true, stagger: 1}, {state: 0, same: true, stagger: 2, base: 1},
			{state: 2, same: true, base: 1}, {state: 3, same: true, base: 1, stagger: 1}}
		if hooked {
			reps = append(reps, c17Rep{state: 0, same: true, jitter: true}, c17Rep{state: 1, same: false, jitter: true})
		}
		return reps
	}
	for k := 0; k < 40; k++ {
		reps = append(reps, c17Rep{state: k % 4, same: (k/4)%2 == 0, align: k%3 == 0, base: (k / 8) % 2, stagger: []int{0, 1, 2, 0, 0}[k%5]})
	}
	if hooked {
		for k := 0; k < 8; k++ {
			reps = append(reps, c17Rep{state: k % 4, same: k < 4, jitter: true, base: k % 2})
		}
	}
	return reps
}

// Every duellist executes its operation c17InnerN times in a row (building the World dominates the cost of a
// duel, and races whose two sides are partly ordered by lock hand-overs need the narrow unordered windows to
// meet); operations that block until one of the stack's timers fired are executed once.
const (
	c17InnerN    = 4
	c17MaxRounds = 48
	c17Stagger   = 1500 * time.Microsecond
)

func c17Inner(o c17Op) int {
	if o.once {
		return 1
	}
	return c17InnerN
}

func c17DuelCase(c *rig.Ctx) {
	ops := c17Ops()
	pr := c17Pairs(len(ops))[c.Index]
	A, B := ops[pr[0]], ops[pr[1]]
	name := A.name + " | " + B.name
	reps := c17Schedule(c.Thorough(), A.hook || B.hook)
	c.Shape(name)
	c.Seen("pairs", name)
	base := runtime.NumGoroutine()
	var variants []string
	completed, execs := 0, 0
	for k, rp := range reps {
		sA, sB := rp.base, rp.base
		if A.fixed0 || B.fixed0 {
			sA, sB = 0, 0
		}
		if !rp.same {
			if B.conn {
				sB = 1 - sA
			} else if A.conn {
				sA = 1 - sB
			}
		}
		v := fmt.Sprintf("state%d/A@%d/B@%d", rp.state, sA, sB)
		if rp.jitter {
			v += "/jitter"
		}
		if rp.align {
			v += "/aligned"
		}
		if rp.stagger > 0 {
			v += fmt.Sprintf("/stagger%d", rp.stagger)
		}
		variants = append(variants, v)
		fmt.Fprintf(os.Stderr, "@@DUEL %s rep %d %s\n", name, k, v)
		cw := c17Build(c, fmt.Sprintf("%s-%d", c.Tag(), k), rp.state, 2, false)
		for side, x := range []struct {
			op c17Op
			s  int
		}{{A, sA}, {B, sB}} {
			if x.op.prep != nil {
				side, x := side, x
				ok, p := rig.Guard(c17OpGuard, func() { x.op.prep(cw, x.s, side) })
				if !ok {
					c17Stuck(c, "preparation of "+x.op.name+" in pair "+name)
				}
				if p != "" {
					c.Count("panics", 1)
					c17Panic(c, x.op.name+" (preparation)", p)
				}
			}
		}
		if rp.jitter {
			h := rig.InstallHooks()
			for i, pt := range c17HookPoints {
				h.Jitter(pt, c.Rand.Int63()+int64(i), 400*time.Microsecond)
			}
		}
		var delayA, delayB time.Duration
		if rp.align {
			j := time.Duration(c.Rand.Int63n(int64(time.Millisecond)))
			if A.eta != nil && B.eta == nil {
				if d := A.eta(cw) - j; d > 0 {
					delayB = d
				}
			} else if B.eta != nil && A.eta == nil {
				if d := B.eta(cw) - j; d > 0 {
					delayA = d
				}
			}
		}
		switch rp.stagger {
		case 1:
			delayB += c17Stagger
		case 2:
			delayA += c17Stagger
		}
		start := make(chan struct{})
		type res struct {
			ok bool
			p  string
			n  int
		}
		ra, rb := make(chan res, 1), make(chan res, 1)
		var minDone [2]atomic.Bool
		duellist := func(o c17Op, s, side int, delay time.Duration, out chan res) {
			n := 0
			ok, p := rig.Guard(c17OpGuard+delay, func() {
				<-start
				if delay > 0 {
					time.Sleep(delay)
				}
				// at least c17Inner rounds; without stagger a fast operation keeps going (bounded) until the
				// slow one has done its rounds, so that the two really overlap
				for it := 0; it < c17MaxRounds; it++ {
					o.f(cw, s, side, k*c17InnerN+it)
					n++
					if it+1 >= c17Inner(o) {
						minDone[side].Store(true)
						if o.once || rp.stagger > 0 || minDone[1-side].Load() {
							break
						}
					}
				}
			})
			if !ok {
				out <- res{ok: false} // n is still being written by the stuck goroutine
				return
			}
			out <- res{ok, p, n}
		}
		go duellist(A, sA, 0, delayA, ra)
		go duellist(B, sB, 1, delayB, rb)
		runtime.Gosched()
		close(start)
		for i, ch := range []chan res{ra, rb} {
			op := []c17Op{A, B}[i]
			r := <-ch
			if !r.ok {
				c17Stuck(c, op.name+" in pair "+name+" ("+v+")")
			}
			if r.p != "" {
				c.Count("panics", 1)
				c17Panic(c, op.name+" in pair "+name+" ("+v+")", r.p)
			}
			completed++
			execs += r.n
			c.Count("op:"+op.name, int64(r.n))
		}
		c.Count("duels", 1)
		c.Progress() // (a repetition may wait seconds for a result the opponent's disconnect made impossible)
		if ok, _ := rig.Guard(c17OpGuard, cw.close); !ok {
			c17Stuck(c, "teardown after pair "+name)
		}
		cw.settle("pair " + name + " (" + v + ")")
		c.Count("callbacks_run", cw.cbRuns.Load())
	}
	c17Quiet(c, base, "pair "+name)
	c.Count("ops_completed", int64(execs))
	c.Events(int64(execs))
	c.NonTrivial(completed == 2*len(reps))
	c.Sample(map[string]any{"pair": name, "repetitions": len(reps), "variants": variants, "duellists_returned": completed, "operation_executions": execs})
}

// ---------------------------------------------------------------------------
// concurrent runner with a per-goroutine progress watchdog (soak, deadlock scenarios)

type c17Worker struct {
	name  string
	steps int
	step  func(i int) string // returns the name of what it did (for the completion counts)
}

// c17Run runs the workers concurrently. If one of them makes no progress for c17OpGuard the others are
// stopped, nothing more is reported as progress and the case waits for the parent's goroutine dump.
func c17Run(c *rig.Ctx, what string, ws []c17Worker) (done int64, perOp map[string]int64) {
	n := len(ws)
	counters := make([]atomic.Int64, n)
	finished := make([]atomic.Bool, n)
	current := make([]atomic.Pointer[string], n)
	var stop atomic.Bool
	var mu sync.Mutex
	perOp = map[string]int64{}
	var wg sync.WaitGroup
	for g := range ws {
		wg.Add(1)
		go func(g int) {
			defer wg.Done()
			defer finished[g].Store(true)
			local := map[string]int64{}
			w := ws[g]
			for i := 0; i < w.steps && !stop.Load(); i++ {
				func() {
					defer func() {
						if r := recover(); r != nil {
							buf := make([]byte, 16<<10)
							buf = buf[:runtime.Stack(buf, false)]
							cur := ""
							if p := current[g].Load(); p != nil {
								cur = *p
							}
							c.Count("panics", 1)
							c17Panic(c, what+"/"+w.name+"/"+cur, fmt.Sprintf("%v\n%s", r, buf))
						}
					}()
					nm := w.step(i)
					local[nm]++
				}()
				counters[g].Add(1)
			}
			mu.Lock()
			for k, v := range local {
				perOp[k] += v
			}
			mu.Unlock()
		}(g)
	}
	fin := make(chan struct{})
	go func() { wg.Wait(); close(fin) }()
	last := make([]int64, n)
	lastChange := make([]time.Time, n)
	for g := range lastChange {
		lastChange[g] = time.Now()
	}
	tick := time.NewTicker(100 * time.Millisecond)
	defer tick.Stop()
loop:
	for {
		select {
		case <-fin:
			break loop
		case <-tick.C:
			for g := 0; g < n; g++ {
				if finished[g].Load() {
					continue
				}
				if v := counters[g].Load(); v != last[g] {
					last[g], lastChange[g] = v, time.Now()
				} else if time.Since(lastChange[g]) > c17OpGuard {
					stop.Store(true)
					c17Stuck(c, fmt.Sprintf("goroutine %s of %s (step %d)", ws[g].name, what, v))
				}
			}
			c.Progress()
		}
	}
	for g := 0; g < n; g++ {
		done += counters[g].Load()
	}
	return done, perOp
}

// ---------------------------------------------------------------------------
// soak

func c17SoakWorld(c *rig.Ctx) *c17W {
	cw := c17Build(c, c.Tag(), 0, 3, true)
	cw.lc.SetWriteApprovalTimeout(15 * time.Millisecond)
	// two approval callbacks: both must approve; the verdict policy follows the message counter, so a
	// third of the writes is approved, a third denied and a third left to the 15 ms timer
	for i := 0; i < 2; i++ {
		i := i
		cw.nApproval.Add(1)
		_ = cw.lc.AddWriteApprovalCallback(func(m *api.Message) {
			defer cw.guardCB("approval")
			defer cw.cbEnter(c17CbApproval)()
			if m == nil || m.RequestHeader == nil || m.RequestHeader.MsgCounter == nil {
				return
			}
			cw.keepMsg(m)
			switch uint64(*m.RequestHeader.MsgCounter) % 3 {
			case 0:
				cw.lc.ApproveOrDenyWrite(m, model.ErrorType{})
			case 1:
				if i == 1 {
					cw.lc.ApproveOrDenyWrite(m, model.ErrorType{ErrorNumber: 7})
				} else {
					cw.lc.ApproveOrDenyWrite(m, model.ErrorType{})
				}
			}
		})
	}
	cw.autoVerdicts(cw.lc2, 15*time.Millisecond)
	h := &c17Handler{cw: cw, deep: true}
	cw.mu.Lock()
	cw.appH = append(cw.appH, h)
	cw.mu.Unlock()
	_ = spine.Events.Subscribe(h)
	return cw
}

func c17Mixed(c *rig.Ctx, cw *c17W, what string, goroutines, total int) (int64, map[string]int64) {
	ops := c17Ops()
	var usable []c17Op
	for _, o := range ops {
		if !o.wait {
			usable = append(usable, o)
		}
	}
	var ws []c17Worker
	for g := 0; g < goroutines; g++ {
		g := g
		r := rand.New(rand.NewSource(c.Rand.Int63()))
		ws = append(ws, c17Worker{name: fmt.Sprint("g", g), steps: total / goroutines, step: func(i int) string {
			if i%64 == 63 {
				cw.tap(g % len(cw.conns)).Take()
			}
			if r.Intn(400) == 0 {
				cw.reconnect(r.Intn(len(cw.conns)))
				return "soak.reconnect"
			}
			o := usable[r.Intn(len(usable))]
			if o.rare > 0 && r.Intn(o.rare) != 0 {
				o = usable[r.Intn(8)] // an inbound read instead
			}
			s := r.Intn(len(cw.conns))
			if o.fixed0 {
				s = 0
			}
			o.f(cw, s, g%2, r.Intn(1000))
			return o.name
		}})
	}
	return c17Run(c, what, ws)
}

func c17SoakCase(c *rig.Ctx) {
	base := runtime.NumGoroutine()
	if n := c.Pick(c17SoakMixed[0], c17SoakMixed[1]); c.Index >= n {
		c17Scenario(c, base, c17ChurnScenario, c.Index-n, c.Pick(300, 600))
		return
	}
	total := c.Pick(3000, 6000)
	g := 6 + c.Rand.Intn(5)
	cw := c17SoakWorld(c)
	done, per := c17Mixed(c, cw, "soak", g, total)
	if ok, _ := rig.Guard(c17OpGuard, cw.close); !ok {
		c17Stuck(c, "teardown of the soak world")
	}
	cw.settle("the soak")
	c17Quiet(c, base, "the soak")
	c17Report(c, fmt.Sprintf("soak/g%d", g), done, per, cw, map[string]any{"goroutines": g, "connections": 3, "approval_timeout_ms": 15})
}

func c17Report(c *rig.Ctx, shape string, done int64, per map[string]int64, cw *c17W, extra map[string]any) {
	var names []string
	for k, v := range per {
		c.Count("op:"+k, v)
		names = append(names, k)
	}
	sort.Strings(names)
	c.Count("ops_completed", done)
	c.Count("callbacks_run", cw.cbRuns.Load())
	c.Events(done)
	c.Shape(fmt.Sprintf("%s/%d", shape, c.Index))
	c.Seen("workloads", shape)
	c.NonTrivial(done > 0)
	extra["operations_completed"] = done
	extra["distinct_operations"] = len(names)
	extra["callbacks_run"] = cw.cbRuns.Load()
	c.Sample(extra)
}

// ---------------------------------------------------------------------------
// deadlock: plain binary, faster mixed workload plus targeted lock-order scenarios

func c17DeadlockCase(c *rig.Ctx) {
	nSoak := c.Pick(8, 60)
	base := runtime.NumGoroutine()
	if c.Index < nSoak {
		g := 6 + c.Rand.Intn(5)
		cw := c17SoakWorld(c)
		done, per := c17Mixed(c, cw, "mixed", g, c.Pick(20000, 50000))
		if ok, _ := rig.Guard(c17OpGuard, cw.close); !ok {
			c17Stuck(c, "teardown of the mixed world")
		}
		cw.settle("the mixed workload")
		c17Quiet(c, base, "the mixed workload")
		c17Report(c, fmt.Sprintf("mixed/g%d", g), done, per, cw, map[string]any{"goroutines": g, "connections": 3})
		return
	}
	c17Scenario(c, base, (c.Index-nSoak)%c17Scenarios, (c.Index-nSoak)/c17Scenarios, c.Pick(300, 1500))
}

// c17Scenario runs one targeted scenario: kinds 0..c17Scenarios-1 in the deadlock part (plain binary), kind
// c17ChurnScenario in the soak part (-race binary).
func c17Scenario(c *rig.Ctx, base, kind, round, iters int) {
	var cw *c17W
	if kind == 4 {
		cw = c17Build(c, c.Tag(), 0, 3, true) // no approval policy of the soak: this scenario registers its own callbacks
	} else if kind == 6 {
		cw = c17Build(c, c.Tag(), 0, 2, true) // two connections only: the scenario takes ALL of them away again and again
	} else {
		cw = c17SoakWorld(c)
	}
	e1a := []uint{1}
	r := func() *rand.Rand { return rand.New(rand.NewSource(c.Rand.Int63())) }
	write := func(v int) {
		cw.in(0, model.CmdClassifierTypeWrite, cw.pa(0, e1a, 1), cw.lc.Address(), true, nil, c17LimCmd(v))
	}
	var ws []c17Worker
	name := ""
	switch kind {
	case 0:
		// verdicts (muxWriteReceived -> muxResponseCB -> data and registry locks) against disconnect and cache cleaning
		name = "approve|disconnect|clean"
		cw.ensurePushCB() // a third callback that leaves the verdict to an application goroutine
		ws = []c17Worker{
			{name: "writer", steps: iters, step: func(i int) string { write(i); return "in.write.limits" }},
			{name: "verdict", steps: iters, step: func(i int) string {
				select {
				case m := <-cw.pend:
					cw.lc.ApproveOrDenyWrite(m, model.ErrorType{ErrorNumber: model.ErrorNumberType(i % 2 * 7)})
				case <-time.After(time.Millisecond):
				}
				return "api.ApproveOrDenyWrite"
			}},
			{name: "disconnect", steps: iters / 4, step: func(i int) string { cw.reconnect(0); return "soak.reconnect" }},
			{name: "clean", steps: iters, step: func(i int) string {
				cw.lc.CleanWriteApprovalCaches(cw.cn(0).ski)
				cw.lc.CleanRemoteDeviceCaches(&model.DeviceAddressType{Device: cw.rd(1).Address()})
				return "api.CleanWriteApprovalCaches"
			}},
			{name: "timeout", steps: iters, step: func(i int) string {
				cw.lc.SetWriteApprovalTimeout(time.Duration(1+i%15) * time.Millisecond)
				return "api.SetWriteApprovalTimeout"
			}},
		}
	case c17ChurnScenario:
		// -race only (soak part). Both writers keep writing (peer 0 on [1]/1: two policy callbacks + one that leaves the
		// verdict to an application goroutine; peer 1 on [2]/3: verdict by message counter, 15 ms timer), so writes are pending
		// on both features all the time, while an application goroutine calls CleanWriteApprovalCaches in bursts (connections
		// that are not the writer, and every fourth time the writer's own entries: the per-connection maps of pending timers
		// and counted approvals are dropped and have to be created again by the next write), the writers' connections go and
		// come back (RemoveRemoteDeviceConnection runs the same cleaning on every feature; the new connection binds and
		// writes again) and verdicts and approval timers use the same maps.
		name = "writes|CleanWriteApprovalCaches-bursts|writer-reconnect|verdicts"
		cw.ensurePushCB()
		ws = []c17Worker{
			{name: "writer0", steps: iters, step: func(i int) string { write(i); return "in.write.limits" }},
			{name: "writer1", steps: iters, step: func(i int) string {
				cw.in(1, model.CmdClassifierTypeWrite, cw.pa(1, e1a, 1), cw.lc2.Address(), true, nil, c17LimCmd(i+1))
				return "in.write.limits"
			}},
			{name: "verdict", steps: iters, step: func(i int) string {
				select {
				case m := <-cw.pend:
					cw.lc.ApproveOrDenyWrite(m, model.ErrorType{ErrorNumber: model.ErrorNumberType(i % 2 * 7)})
				case <-time.After(time.Millisecond):
				}
				return "api.ApproveOrDenyWrite"
			}},
			{name: "clean", steps: iters, step: func(i int) string {
				for n := 0; n < 16; n++ {
					c17Rot(i+n, func() { cw.lc.CleanWriteApprovalCaches(cw.cn(1).ski) }, func() { cw.lc2.CleanWriteApprovalCaches(cw.cn(0).ski) },
						func() { cw.lc.CleanWriteApprovalCaches(cw.cn(2).ski) }, func() { cw.lc2.CleanWriteApprovalCaches(cw.mutes[0].ski) })
					if n%4 == 3 {
						cw.lc.CleanWriteApprovalCaches(cw.cn(0).ski)
						cw.lc2.CleanWriteApprovalCaches(cw.cn(1).ski)
					}
				}
				return "api.CleanWriteApprovalCaches"
			}},
			{name: "reconnect", steps: iters / 16, step: func(i int) string { cw.reconnect(i % 2); return "soak.reconnect" }},
		}
	case 1:
		// event bus: handlers that call back into the stack and (un)subscribe from inside the handler
		name = "publish|handlers-calling-back|subscribe"
		re := &c17Reentrant{cw: cw}
		_ = spine.Events.Subscribe(re)
		cw.mu.Lock()
		cw.appH = append(cw.appH, re)
		cw.mu.Unlock()
		rr := r()
		ws = []c17Worker{
			{name: "notify0", steps: iters, step: func(i int) string {
				cw.in(0, model.CmdClassifierTypeNotify, cw.pa(0, e1a, 2), cw.mcl.Address(), false, nil, c17MeasCmd(i, i%2 == 0))
				return "in.notify.meas"
			}},
			{name: "notify1", steps: iters, step: func(i int) string {
				cw.in(1, model.CmdClassifierTypeNotify, cw.pa(1, e1a, 2), cw.mcl.Address(), false, nil, c17MeasCmd(i, i%2 == 0))
				return "in.notify.meas"
			}},
			{name: "subscriber", steps: iters, step: func(i int) string {
				h := &c17Handler{cw: cw, deep: i%2 == 0}
				_ = spine.Events.Subscribe(h)
				if rr.Intn(2) == 0 {
					runtime.Gosched()
				}
				_ = spine.Events.Unsubscribe(h)
				return "api.Events.Subscribe+Unsubscribe"
			}},
			{name: "publisher", steps: iters, step: func(i int) string {
				spine.Events.Publish(api.EventPayload{Ski: cw.cn(2).ski, EventType: api.EventTypeDataChange, ChangeType: api.ElementChangeUpdate, Device: cw.rd(2)})
				return "api.Events.Publish"
			}},
			{name: "subscriptions", steps: iters, step: func(i int) string {
				s := i % 3
				cl := spine.NewNodeManagementSubscriptionRequestCallType(cw.pa(s, e1a, 3), cw.dd.Address(), model.FeatureTypeTypeDeviceDiagnosis)
				cw.in(s, model.CmdClassifierTypeCall, cw.nm(s), rig.LNM, true, nil, model.CmdType{NodeManagementSubscriptionRequestCall: cl})
				cw.in(s, model.CmdClassifierTypeCall, cw.nm(s), rig.LNM, true, nil, model.CmdType{NodeManagementSubscriptionDeleteCall: spine.NewNodeManagementSubscriptionDeleteCallType(cw.pa(s, e1a, 3), cw.dd.Address())})
				return "in.subscribe"
			}},
		}
	case 2:
		name = "RemoveEntity|inbound|disconnect"
		ws = []c17Worker{
			{name: "entity", steps: iters / 2, step: func(i int) string {
				cw.local.RemoveEntity(cw.e2)
				cw.local.AddEntity(cw.e2)
				_, _ = cw.meas2.SubscribeToRemote(cw.pa(i%3, []uint{2}, 1))
				_, _ = cw.meas2.BindToRemote(cw.pa(i%3, []uint{2}, 1))
				cw.e2.AddUseCaseSupport(model.UseCaseActorTypeEV, model.UseCaseNameTypeEVStateOfCharge, "1.0.0", "", true, []model.UseCaseScenarioSupportType{1})
				return "api.RemoveEntity(shared)+AddEntity"
			}},
			{name: "inbound0", steps: iters, step: func(i int) string {
				cw.in(0, model.CmdClassifierTypeRead, cw.nm(0), rig.LNM, false, nil, model.CmdType{NodeManagementDetailedDiscoveryData: &model.NodeManagementDetailedDiscoveryDataType{}})
				cw.in(0, model.CmdClassifierTypeRead, cw.nm(0), rig.LNM, false, nil, model.CmdType{NodeManagementUseCaseData: &model.NodeManagementUseCaseDataType{}})
				write(i)
				return "in.read.discovery"
			}},
			{name: "inbound1", steps: iters, step: func(i int) string {
				cw.announce(1)
				cw.in(1, model.CmdClassifierTypeNotify, cw.nm(1), rig.LNM, false, nil, model.CmdType{Function: ptrFn(model.FunctionTypeNodeManagementDetailedDiscoveryData),
					Filter: []model.FilterType{*model.NewFilterTypePartial()}, NodeManagementDetailedDiscoveryData: cw.discovery(1, nil, nil, [][]uint{{2}})})
				return "in.discovery.reply"
			}},
			{name: "disconnect", steps: iters / 4, step: func(i int) string { cw.reconnect(i % 3); return "soak.reconnect" }},
			{name: "readers", steps: iters, step: func(i int) string {
				_ = cw.local.SubscriptionManager().Subscriptions(cw.rd(i % 3))
				_ = cw.local.BindingManager().Bindings(cw.rd(i % 3))
				_ = cw.local.RemoteDevices()
				_ = rig.JS(cw.rd(i % 3).UseCases())
				return "api.Registries"
			}},
		}
	case 4:
		// A stream of writes that are approved at once (the approval callbacks call ApproveOrDenyWrite from the goroutine the
		// stack runs them on: muxWriteReceived -> muxResponseCB -> data lock of the feature while the write is applied)
		// against everything that runs FeatureLocal.CleanRemoteEntityCaches on the same local feature: removal (and
		// re-addition) of an unrelated entity announced by the writing peer itself between its writes, by the two other
		// peers on their own connections, and DeviceLocal.CleanRemoteEntityCaches called by an application goroutine.
		k := 1 + round%2
		name = fmt.Sprintf("auto-approved-writes(k=%d)|entity-removal-notify|CleanRemoteEntityCaches", k)
		cw.lc.SetWriteApprovalTimeout(10 * time.Second)
		for i := 0; i < k; i++ {
			cw.nApproval.Add(1)
			_ = cw.lc.AddWriteApprovalCallback(func(m *api.Message) {
				defer cw.guardCB("approval")
				defer cw.cbEnter(c17CbApproval)()
				cw.keepMsg(m)
				cw.lc.ApproveOrDenyWrite(m, model.ErrorType{})
			})
		}
		var writerDone atomic.Bool
		removeAdd := func(s, i int) {
			d := cw.discovery(s, nil, nil, [][]uint{{2}})
			if i%2 == 1 {
				d = cw.discovery(s, c17Feats()[4:], map[string]model.NetworkManagementStateChangeType{"[2]": model.NetworkManagementStateChangeTypeAdded}, nil)
			}
			cw.in(s, model.CmdClassifierTypeNotify, cw.nm(s), rig.LNM, false, nil, model.CmdType{Function: ptrFn(model.FunctionTypeNodeManagementDetailedDiscoveryData),
				Filter: []model.FilterType{*model.NewFilterTypePartial()}, NodeManagementDetailedDiscoveryData: d})
		}
		// the other workers keep going until the writer is through (their step counts are only an upper bound)
		until := func(f func(i int) string) func(i int) string {
			return func(i int) string {
				if writerDone.Load() {
					return "idle"
				}
				return f(i)
			}
		}
		ws = []c17Worker{
			{name: "writer", steps: 2 * iters, step: func(i int) string {
				write(i)
				if round != 1 && i%2 == 1 {
					removeAdd(0, i/2)
				}
				if i == 2*iters-1 {
					writerDone.Store(true)
				}
				return "in.write.limits"
			}},
			{name: "remover1", steps: 40 * iters, step: until(func(i int) string { removeAdd(1, i); return "in.discovery.notify.remove" })},
			{name: "remover2", steps: 40 * iters, step: until(func(i int) string { removeAdd(2, i); return "in.discovery.notify.remove" })},
			{name: "cleaner", steps: 400 * iters, step: until(func(i int) string {
				cw.local.CleanRemoteEntityCaches(rig.EA(cw.cn(i%3).addr, []uint{2}))
				if i%32 == 0 {
					runtime.Gosched()
				}
				return "api.CleanRemoteEntityCaches"
			})},
			{name: "reader", steps: 40 * iters, step: until(func(i int) string {
				_ = rig.JS(cw.lc.DataCopy(model.FunctionTypeLoadControlLimitListData))
				_ = cw.mcl.HasSubscriptionToRemote(cw.pa(i%3, e1a, 2))
				return "api.DataCopy.local"
			})},
		}
	case 5:
		// connections without writer next to healthy ones: every send to a mute connection fails, and every request
		// (API calls, and the subscribe + use case request the stack issues while it handles the peer's discovery reply
		// inside Events.Publish) must return all the same, again and again
		name = "mute-connections|healthy-connections"
		rr := r()
		inboundOfMute := func(m *c17Mute, send c17MuteSend) {
			send(model.CmdClassifierTypeRead, rig.FA(m.addr, []uint{0}, 0), rig.LNM, false, nil, model.CmdType{NodeManagementUseCaseData: &model.NodeManagementUseCaseDataType{}})
			cw.muteSubs(m, send) // LoadControl and DeviceDiagnosis: the publisher's SetData and the heartbeat stream notify a peer without writer
		}
		ws = []c17Worker{
			{name: "mute0-api", steps: iters, step: func(i int) string {
				cw.muteRequests(0, cw.muteIn(0, false, false), i)
				return "mute.discovery-reply+requests"
			}},
			{name: "mute1-api", steps: iters, step: func(i int) string {
				cw.muteRequests(1, cw.muteIn(1, false, false), i)
				return "mute.discovery-reply+requests"
			}},
			{name: "mute-inbound", steps: iters, step: func(i int) string {
				cw.muteIn(i%2, i%40 == 39, true, inboundOfMute)
				return "mute.discovery-reply+requests"
			}},
			{name: "healthy-inbound0", steps: iters, step: func(i int) string {
				cw.in(0, model.CmdClassifierTypeRead, cw.nm(0), rig.LNM, false, nil, model.CmdType{NodeManagementDetailedDiscoveryData: &model.NodeManagementDetailedDiscoveryDataType{}})
				cw.in(0, model.CmdClassifierTypeNotify, cw.pa(0, e1a, 2), cw.mcl.Address(), false, nil, c17MeasCmd(i, i%2 == 0))
				return "in.notify.meas"
			}},
			{name: "healthy-announce2", steps: iters, step: func(i int) string { cw.announce(2); return "in.discovery.reply" }},
			{name: "healthy-api1", steps: iters, step: func(i int) string {
				a := cw.pa(1, e1a, 2)
				_, _ = cw.mcl.SubscribeToRemote(a)
				if f := cw.rf(1, e1a, 2); f != nil {
					_, _ = cw.mcl.RequestRemoteData(model.FunctionTypeMeasurementListData, nil, nil, f)
				}
				_, _ = cw.local.RequestRemoteDetailedDiscoveryData(cw.rd(1))
				if rr.Intn(2) == 0 {
					_, _ = cw.mcl.RemoveRemoteSubscription(a)
				}
				return "api.SubscribeToRemote"
			}},
			{name: "publisher", steps: iters, step: func(i int) string {
				cw.lc.SetData(model.FunctionTypeLoadControlLimitListData, c17Limits(i)) // notifies the subscribers, a mute one among them
				spine.Events.Publish(api.EventPayload{Ski: cw.cn(2).ski, EventType: api.EventTypeDataChange, ChangeType: api.ElementChangeUpdate, Device: cw.rd(2)})
				return "api.Events.Publish"
			}},
			// the heartbeat stream of entity [1] notifies the subscribed peers without writer on every tick; nothing waits
			// for the stream, so the scenario lasts at least four ticks (the stream itself is judged by settle/c17Quiet:
			// it must be gone after the teardown)
			{name: "heartbeat-ticks", steps: 4, step: func(i int) string {
				c0 := cw.hbCounter()
				rig.WaitFor(2*time.Second, func() bool { return cw.hbCounter() > c0 })
				return "timer.heartbeat-tick"
			}},
		}
	case 6:
		// The FIRST and the LAST connection: DeviceLocal subscribes its core-level event handler when a connection is set up and
		// unsubscribes it - under its own mutex - when the last remote device goes. Every other world keeps two or three
		// connections for its whole life, so that path never runs next to publications. Here a dropper takes ALL connections
		// away and sets them up again, round after round (the last removal alternately through RemoveRemoteDeviceConnection
		// and the bare RemoveRemoteDevice), while the connections' readers still deliver discovery replies (whose DeviceChange
		// event makes DeviceLocal.HandleEvent look the device up under the same mutex, inside Events.Publish), two application
		// goroutines publish all the time, one (un)subscribes handlers and one reads the device map. A core-level observer
		// (c17CoreDelay) widens the window before the stack's own core handler by a seeded delay; in odd rounds it also
		// subscribes/unsubscribes a handler from inside HandleEvent.
		resub := round%2 == 1
		name = fmt.Sprintf("last-connection-leaves+first-returns|discovery-replies|publishers|core-handler(delay%s)", map[bool]string{false: "", true: "+resubscribe"}[resub])
		cd := &c17CoreDelay{cw: cw, resubscribe: resub}
		cw.mu.Lock()
		cw.coreH = append(cw.coreH, cd)
		cw.mu.Unlock()
		_ = spine.VerifSubscribeCore(cd)
		ah := &c17Handler{cw: cw}
		cw.mu.Lock()
		cw.appH = append(cw.appH, ah)
		cw.mu.Unlock()
		_ = spine.Events.Subscribe(ah)
		var dropperDone atomic.Bool
		var emptied atomic.Int64
		until := func(f func(i int) string) func(i int) string {
			return func(i int) string {
				if dropperDone.Load() {
					return "idle"
				}
				return f(i)
			}
		}
		ws = []c17Worker{
			{name: "dropper", steps: iters, step: func(i int) string {
				first, last := i%2, 1-i%2
				cw.local.RemoveRemoteDeviceConnection(cw.cn(first).ski)
				if i%4 < 2 {
					cw.local.RemoveRemoteDeviceConnection(cw.cn(last).ski)
				} else {
					cw.local.RemoveRemoteDevice(cw.cn(last).ski)
				}
				if len(cw.local.RemoteDevices()) == 0 {
					emptied.Add(1)
				}
				if i%8 == 7 {
					time.Sleep(200 * time.Microsecond) // (lets the readers meet an empty device map now and then)
				}
				for _, s := range []int{first, last} {
					cn := cw.cn(s)
					tap := &rig.Tap{}
					cw.local.SetupRemoteDevice(cn.ski, tap)
					if rd := cw.local.RemoteDeviceForSki(cn.ski); !rig.IsNil(rd) {
						cn.link.Store(&c17Link{rd: rd, tap: tap})
					}
				}
				if i == iters-1 {
					dropperDone.Store(true)
				}
				return "api.RemoveRemoteDeviceConnection(all)+SetupRemoteDevice"
			}},
			// the readers of the two connections: they deliver on whatever device object they hold (a connection's reader may
			// still be inside HandleSpineMesssage when the application is told that the connection is gone)
			{name: "reader0", steps: 40 * iters, step: until(func(i int) string { cw.announce(0); return "in.discovery.reply" })},
			{name: "reader1", steps: 40 * iters, step: until(func(i int) string { cw.announce(1); return "in.discovery.reply" })},
			{name: "publisher0", steps: 400 * iters, step: until(func(i int) string {
				spine.Events.Publish(api.EventPayload{Ski: cw.cn(0).ski, EventType: api.EventTypeDataChange, ChangeType: api.ElementChangeUpdate, Device: cw.rd(0)})
				return "api.Events.Publish"
			})},
			{name: "publisher1", steps: 400 * iters, step: until(func(i int) string {
				spine.Events.Publish(api.EventPayload{Ski: cw.cn(1).ski, EventType: api.EventTypeEntityChange, ChangeType: api.ElementChangeUpdate, Device: cw.rd(1)})
				if i%16 == 0 {
					runtime.Gosched()
				}
				return "api.Events.Publish"
			})},
			{name: "subscriber", steps: 400 * iters, step: until(func(i int) string {
				h := &c17Handler{cw: cw}
				_ = spine.Events.Subscribe(h)
				runtime.Gosched()
				_ = spine.Events.Unsubscribe(h)
				return "api.Events.Subscribe+Unsubscribe"
			})},
			{name: "devices", steps: 400 * iters, step: until(func(i int) string {
				_ = cw.local.RemoteDevices()
				_ = cw.local.RemoteDeviceForSki(cw.cn(i % 2).ski)
				_ = cw.local.RemoteDeviceForAddress(model.AddressDeviceType(cw.cn(i % 2).addr))
				runtime.Gosched()
				return "api.RemoteDevices+ForSki+ForAddress"
			})},
		}
		defer func() {
			c.Count("device_map_emptied", emptied.Load())
			c.Count("core_delay_windows", cd.windows.Load())
			c.Count("core_events_seen", cd.n.Load())
		}()
	case 7:
		// Legal but unusual input: peers whose detailed discovery reply omits optional elements (c17W.sparseIn: no
		// deviceAddress in the device description, a deviceAddress without device element, entity/feature addresses without
		// device part). Two such peers come, are handled and go next to the ordinary traffic; what is judged is that the
		// handling returns without a (recovered) panic AND that the stack stays usable: every publication, message handling
		// and API call of the OTHER workers after it must complete (a lock left behind by one message blocks them all).
		name = "discovery-replies-with-optional-elements-omitted|healthy-connections|publications"
		ws = []c17Worker{
			{name: "sparse-peer0", steps: iters / 4, step: func(i int) string { cw.sparseIn(0, i, i%8 == 7); return "in.discovery.reply(optional-elements-omitted)" }},
			{name: "sparse-peer1", steps: iters / 4, step: func(i int) string {
				cw.sparseIn(1, i/2+1, i%4 == 3)
				return "in.discovery.reply(optional-elements-omitted)"
			}},
			{name: "healthy-inbound0", steps: iters, step: func(i int) string {
				cw.in(0, model.CmdClassifierTypeNotify, cw.pa(0, e1a, 2), cw.mcl.Address(), false, nil, c17MeasCmd(i, i%2 == 0))
				write(i)
				return "in.notify.meas"
			}},
			{name: "healthy-announce1", steps: iters, step: func(i int) string { cw.announce(1); return "in.discovery.reply" }},
			{name: "healthy-reconnect2", steps: iters / 8, step: func(i int) string { cw.reconnect(2); return "soak.reconnect" }},
			{name: "publisher", steps: iters, step: func(i int) string {
				cw.lc.SetData(model.FunctionTypeLoadControlLimitListData, c17Limits(i))
				spine.Events.Publish(api.EventPayload{Ski: cw.cn(2).ski, EventType: api.EventTypeDataChange, ChangeType: api.ElementChangeUpdate, Device: cw.rd(2)})
				return "api.Events.Publish"
			}},
			{name: "registries", steps: iters, step: func(i int) string {
				_ = cw.local.RemoteDevices()
				_ = cw.local.SubscriptionManager().Subscriptions(cw.rd(i % 3))
				_ = rig.JS(cw.local.NodeManagement().DataCopy(model.FunctionTypeNodeManagementUseCaseData))
				return "api.Registries"
			}},
		}
	default:
		name = "heartbeat|RemoveEntity|SetData"
		cw.dd2.AddFunctionType(model.FunctionTypeDeviceDiagnosisHeartbeatData, true, false)
		ws = []c17Worker{
			{name: "start", steps: iters, step: func(i int) string {
				_ = cw.e2.HeartbeatManager().StartHeartbeat()
				_ = cw.e1.HeartbeatManager().StartHeartbeat()
				return "hb.start"
			}},
			{name: "stop", steps: iters, step: func(i int) string {
				cw.e2.HeartbeatManager().StopHeartbeat()
				_ = cw.e2.HeartbeatManager().IsHeartbeatRunning()
				if i%3 == 0 {
					cw.e1.HeartbeatManager().StopHeartbeat()
				}
				return "hb.stop"
			}},
			{name: "entity", steps: iters / 2, step: func(i int) string {
				cw.local.RemoveEntity(cw.e2)
				cw.local.AddEntity(cw.e2)
				return "api.RemoveEntity(shared)+AddEntity"
			}},
			{name: "setdata", steps: iters, step: func(i int) string {
				cw.dd2.SetData(model.FunctionTypeDeviceDiagnosisStateData, &model.DeviceDiagnosisStateDataType{})
				cw.dd.SetData(model.FunctionTypeDeviceDiagnosisStateData, &model.DeviceDiagnosisStateDataType{})
				cw.lc.SetData(model.FunctionTypeLoadControlLimitListData, c17Limits(i))
				return "api.SetData"
			}},
			{name: "subscriber", steps: iters, step: func(i int) string {
				s := i % 3
				cl := spine.NewNodeManagementSubscriptionRequestCallType(cw.pa(s, e1a, 3), cw.dd2.Address(), model.FeatureTypeTypeDeviceDiagnosis)
				cw.in(s, model.CmdClassifierTypeCall, cw.nm(s), rig.LNM, true, nil, model.CmdType{NodeManagementSubscriptionRequestCall: cl})
				return "in.subscribe"
			}},
		}
	}
	done, per := c17Run(c, name, ws)
	done -= per["idle"] // steps of workers that only waited for the end of the scenario are not operations
	delete(per, "idle")
	if ok, _ := rig.Guard(c17OpGuard, cw.close); !ok {
		c17Stuck(c, "teardown after scenario "+name)
	}
	cw.settle("scenario " + name)
	c17Quiet(c, base, "scenario "+name)
	c17Report(c, "scenario/"+name, done, per, cw, map[string]any{"scenario": name, "goroutines": len(ws), "iterations": iters})
}

func ptrFn(f model.FunctionType) *model.FunctionType { return &f }

// c17Reentrant is an application handler that subscribes and unsubscribes another handler and publishes an
// event of its own from inside HandleEvent (the bus uses two locks so that this is possible).
type c17Reentrant struct {
	cw *c17W
	n  atomic.Int64
}

func (h *c17Reentrant) HandleEvent(p api.EventPayload) {
	defer h.cw.guardCB("event-handler")
	if len(p.Ski) < len(h.cw.w.Tag) || p.Ski[:len(h.cw.w.Tag)] != h.cw.w.Tag {
		return
	}
	defer h.cw.cbEnter(c17CbEvent)()
	if p.Function != "" {
		h.cw.keep(&h.cw.keptCB[c17CbEvent], p.Data)
	}
	n := h.n.Add(1)
	x := &c17Handler{cw: h.cw}
	_ = spine.Events.Subscribe(x)
	_ = h.cw.local.RemoteDeviceForSki(p.Ski)
	if p.EventType == api.EventTypeDataChange && p.Feature != nil && n%4 == 0 {
		// nested publication of a different kind (not re-triggering itself)
		spine.Events.Publish(api.EventPayload{Ski: p.Ski, EventType: api.EventTypeEntityChange, ChangeType: api.ElementChangeUpdate, Device: p.Device})
	}
	_ = spine.Events.Unsubscribe(x)
}
