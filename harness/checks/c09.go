package checks

import (
	"encoding/json"
	"fmt"
	"runtime"
	"sort"
	"strings"
	"sync"
	"time"

	"github.com/anishathalye/porcupine"
	"github.com/enbility/spine-go/api"
	"github.com/enbility/spine-go/model"
	"github.com/enbility/spine-go/util"

	"verifharness/rig"
)

// C09 — bindings: exact registry with at most one binding per server feature.
//
// Sequential part: the World of C08 (S0 [1]/1, S1 [2]/1 and the nested twin S3 [1,1]/1 of one type, S2 [1]/2 of another, a local client
// feature, three identically numbered peers) and a history of 10-25 bind / unbind / registry-read operations.
// The reference registry maps each server feature to its holder (peer, client feature); a request is granted
// iff the statement's conjunction holds on the harness's own trees and the server feature is unbound; an
// unbind succeeds iff the addressed pair is the holder. After every operation: result datagram, binding
// change events, BindingsOnFeature(f) <= 1 and equal to the reference, Bindings(peer) exact with distinct
// ids, HasLocalFeatureRemoteBinding for every (server, peer, client) combination.
//
// Foreign device parts (both parts): a share of the requests carries, in the client and/or server address, the device
// of somebody else (another connected peer, the local device, nobody). Whatever the stack answers: exactly one result,
// the bindings and ids of every OTHER connection unchanged; for the sender's own binding see the assumptions.
//
// Duel part (plain and -race): 2-4 connections bind the same server feature from different goroutines with
// a rendezvous at AddBinding.afterCheck (between the single-binding check and the insertion); also
// unbind || bind || bind and bind/unbind/bind sequences under jitter. Invariants at quiescence and porcupine
// with a register model per server feature; a sampler goroutine reads BindingsOnFeature while the requests run
// ("at no time": never two bindings, never a holder whose request was refused); the nested twin of the contested
// feature ([1]/1 vs [1,1]/1) is a bystander; every event is attributed to an acknowledged request.
//
// conc-rmw / conc-rmw-race and early parts: see regkit.go (rkRmwCase, rkEarlyCase) and the header of c08.go; here with
// bind / unbind, BindingsOnFeature, HasLocalFeatureRemoteBinding, Bindings(peer) and nodeManagementBindingData.

func init() {
	rig.Register(&rig.Check{
		ID:    "C09",
		Floor: 600,
		Rule: "sequential case = one World (4 local server features, 3 of them of the same type - S3 [1,1]/1 carries the feature number of S0 [1]/1 in its sub-entity -, 1 local client feature, 3 identically numbered peers with 2 same-typed client features each) and a seeded history of 10-25 operations " +
			"{bind (valid / server already bound by the same client, another client of the peer, another peer / wrong role / wrong type / requested type Generic for concretely typed features / unknown entity / unknown feature, device part omitted; clients in [1], [1,1] and the device information entity [0]), " +
			"unbind (holder / same numbers from another peer / other client of the holder's peer / holder's client on another server / unknown), registry read}; a fifth of the requests and half of the deletes that use the numbers of another peer's binding carry a FOREIGN device part " +
			"in the client and/or server address (client address: the device of another connected peer - preferably the holder -, of the local device or of nobody; server address: the device of a peer or of nobody); non-trivial if it saw a grant, a rejection of a second binding and a successful unbind. " +
			"Takeover (sequential, 4 % of the operations; duel, every third case before the concurrent phase): a peer opens a new connection with the same SKI while the stack still has the old one (SetupRemoteDevice for a registered SKI, no RemoveRemoteDevice(Connection)), and announces the same tree. Neither a bind nor a delete: " +
			"no binding appears, is renumbered or moves, the other peers' bindings stay; the peer's own bindings may be kept or dropped (the statement is silent; dropped needs one remove event each; the duel only counts such a case); what the registry reports as bound stays bound for the new connection (same / another client), for the other peers and for a late request on the old connection, " +
			"the holder's delete through the new connection removes the binding of its SKI, and the history (binds, deletes, registry reads over the wire) goes on with the new connection. " +
			"duel case = k in 2..4 connections issuing bind (and unbind) for one server feature concurrently with the window after the single-binding check forced by a rendezvous or jittered; in every fifth case ('foreign') peer 0 holds the contested binding and a bystander binding on a second server feature, " +
			"and the other connections send deletes and requests that name peer 0's (or another) device with numbers that exist on every peer, mixed with ordinary calls; non-trivial if the window was forced (all k binds held between check and insertion) or, for the jitter variants, if at least two operations overlapped, and porcupine decided. " +
			"Every duel world has the nested twin of the contested feature ([1]/1 and [1,1]/1, same type; in half of the cases the contested one is the nested one; in half of the cases peer 0 holds a binding on the twin, which nobody names and which must be the same afterwards). " +
			"'At no time': a sampler goroutine reads BindingsOnFeature of the contested feature (every fourth time also of the twin) in a loop while the requests run; every observation must show at most one binding, every holder seen must be a client whose binding request was acknowledged, the twin must never change. " +
			"Each binding change event of the concurrent phase must name connection, client and server feature of one acknowledged request (multiset equality), not only match in number. " +
			"rmw case (regkit.go) = a registry pre-filled with 50-250 bindings of a silent bystander connection (one per server feature); 3-4 actor goroutines, each with its own connection and its own 1-2 server features, toggle bind / unbind (now and then a repeated call) for 6 (thorough 12) rounds of 8-16 calls each; " +
			"every call's answer must be the one the history of its own server feature demands (calls on different server features commute), and at the quiescent point after every round BindingsOnFeature, HasLocalFeatureRemoteBinding, Bindings(peer) with ids, one nodeManagementBindingData read, " +
			"the bystander's bindings and the add/remove events must equal what the acknowledged calls leave; non-trivial if in some round a call overlapped an acknowledged delete of another connection (call/return stamps from one atomic counter). " +
			"window case (c09_window.go) = 5 connections, 4 same-typed server features (one the nested twin) and one of another type, 0-3 bindings beforehand; one or two binding requests of different connections (same or different server feature; the second possibly launched inside the window of the first; one in eight aimed at a bound feature) " +
			"are parked one by one at the yield point after the single-binding check; while they are parked a seeded script of 1-6 requests of the other connections runs, each to COMPLETION (styles: exchange = a binding of another feature deleted and the target bound, in either order; shift = plus a binding of a third feature; " +
			"churn = the target bound and unbound again by somebody else; random; each with 0-2 arbitrary requests in between: binds of the target / a free / a bound feature, deletes by the holder / by a connection with the same numbers); the parked requests are released in the middle of the script, one by one or together; 0-2 requests follow. " +
			"BindingsOnFeature of every server feature is read after every step (never two bindings) and enters, with the requests, a porcupine history per server feature (register model); at the end Bindings(peer), HasLocalFeatureRemoteBinding and BindingsOnFeature must describe one registry, ids distinct, untouched bindings unchanged, events = acknowledged requests. " +
			"non-trivial if a request was parked until the script released it, at least one acknowledged request of another connection ran inside its window, and porcupine decided. " +
			"distinct = hash of operation shapes and outcomes (sequential) / variant, k, clients and hook trace (duel) / sizes and overlap counts (rmw) / request kinds, clients, features, outcomes, style and release mode (window).",
		Assumptions: []string{
			"message handling is synchronous, so results, events and registry are complete when the call into the stack has returned",
			"requests that omit the device part of an address are judged by the entity/feature part on the sender's resp. the local tree",
			"a request whose client (server) address names a device other than the sender (the local device): the statement does not say whether that device part is ignored - the stack's feature lookups ignore it - or makes the request invalid. " +
				"If the entity/feature numbers justify the request, both outcomes are accepted for the SENDER's own binding (result, event and registry must agree); if they do not, it must be refused; in no case may it add, remove or renumber a binding of another connection " +
				"(pinned tree: bind requests are served by the numbers; a delete compares the client device literally and is refused; a foreign server device is ignored)",
			"NodeManagement (special role) is not used as a binding target and special-role or Generic client features are not generated: the statement does not fix their treatment",
			"a requested serverFeatureType Generic is not 'the requested type' of a concretely typed feature: such a request must be refused",
			"rmw part: no hook point exists inside RemoveBinding; the overlap of calls is not forced but measured (counts rmw_rounds_*), and only logical call/return stamps are used",
			"takeover: the statement does not say whether the bindings of a peer survive the replacement of its connection without removal; kept (same id, pinned tree) and dropped are accepted, anything else (a second binding on the feature, a changed id, another peer's binding touched) is not",
			"a rendezvous that expires only means 'window not forced' (counted); it never decides a verdict",
			"window part: a parked request may take effect anywhere between its call and its return (the statement does not say where): wherever the register model allows both outcomes, both are accepted; a hold that expires (45 s watchdog) only shortens the window (counted), the verdict is on call/return stamps in any case",
		},
		Parts: []rig.Part{
			{Name: "seq", Cases: func(t rig.Tier) int { return map[rig.Tier]int{rig.Quick: 1200, rig.Thorough: 48000}[t] }, Run: c09Seq, Procs: 2},
			{Name: "conc-duel", Cases: func(t rig.Tier) int { return map[rig.Tier]int{rig.Quick: 1125, rig.Thorough: 45000}[t] }, Run: c09Duel, Procs: 4, Quiet: 90 * time.Second},
			{Name: "conc-duel-race", Race: true, Cases: func(t rig.Tier) int { return map[rig.Tier]int{rig.Quick: 400, rig.Thorough: 8000}[t] }, Run: c09Duel, Procs: 4, Quiet: 120 * time.Second},
			{Name: "conc-rmw", Cases: func(t rig.Tier) int { return map[rig.Tier]int{rig.Quick: 40, rig.Thorough: 800}[t] }, Run: func(c *rig.Ctx) { rkRmwCase(c, c09RegKind) }, Procs: 4, Quiet: 120 * time.Second},
			{Name: "early", Cases: func(t rig.Tier) int { return map[rig.Tier]int{rig.Quick: 120, rig.Thorough: 3000}[t] }, Run: func(c *rig.Ctx) { rkEarlyCase(c, c09RegKind) }, Procs: 2},
			{Name: "conc-window", Cases: func(t rig.Tier) int { return map[rig.Tier]int{rig.Quick: 400, rig.Thorough: 16000}[t] }, Run: c09Window, Procs: 4, Quiet: 90 * time.Second},
			{Name: "conc-window-race", Race: true, Cases: func(t rig.Tier) int { return map[rig.Tier]int{rig.Quick: 40, rig.Thorough: 2000}[t] }, Run: c09Window, Procs: 4, Quiet: 120 * time.Second},
			{Name: "conc-rmw-race", Race: true, Cases: func(t rig.Tier) int { return map[rig.Tier]int{rig.Quick: 0, rig.Thorough: 96}[t] }, Run: func(c *rig.Ctx) { rkRmwCase(c, c09RegKind) }, Procs: 4, Quiet: 180 * time.Second},
		},
	})
}

// c09RegKind: the binding registry as seen by the shared "rmw" part (regkit.go).
var c09RegKind = rkRegKind{
	name: "binding", exclusive: true, evType: api.EventTypeBindingChange,
	add: func(p *rig.Peer, ca, sa *model.FeatureAddressType, t model.FeatureTypeType) model.MsgCounterType {
		return p.Bind(ca, sa, t)
	},
	del: func(p *rig.Peer, ca, sa *model.FeatureAddressType) model.MsgCounterType { return p.Unbind(ca, sa) },
	onFeature: func(w *rig.World, sa model.FeatureAddressType) []string {
		var ks []string
		for _, en := range w.Local.BindingManager().BindingsOnFeature(sa) {
			ks = append(ks, rkFeatKey(en.ClientFeature))
		}
		sort.Strings(ks)
		return ks
	},
	ofPeer: func(w *rig.World, p *rig.Peer) []string {
		var es []string
		for _, en := range w.Local.BindingManager().Bindings(p.RD) {
			es = append(es, fmt.Sprintf("#%d %s>%s", en.Id, rkFeatKey(en.ClientFeature), rkFeatKey(en.ServerFeature)))
		}
		sort.Strings(es)
		return es
	},
	has: func(w *rig.World, sa, ca *model.FeatureAddressType) (bool, bool) {
		return w.Local.BindingManager().HasLocalFeatureRemoteBinding(sa, ca), true
	},
	readCmd: func() model.CmdType {
		return model.CmdType{NodeManagementBindingData: &model.NodeManagementBindingDataType{}}
	},
	readBack: func(cmd model.CmdType) ([]string, bool) {
		if cmd.NodeManagementBindingData == nil {
			return nil, false
		}
		var ps []string
		for _, en := range cmd.NodeManagementBindingData.BindingEntry {
			ps = append(ps, rkKey(en.ClientAddress)+">"+rkKey(en.ServerAddress))
		}
		return ps, true
	},
}

// S3 is [1,1]/1: the sub-entity of S0's entity [1] restarts the feature numbering (same type, same feature number)
var c09Servers = []string{"S0", "S1", "S2", "S3"}
var c09Clients = []string{"a", "b", "c", "g"}

// c09Expect evaluates the statement's conjunction for a binding request.
func c09Expect(cw *c08World, binds map[string]c08Entry, cli, srv string, typ model.FeatureTypeType) (verdict, reason string) {
	s, ok := cw.locals[srv]
	if !ok {
		return "reject", "unknown-server"
	}
	if s.Role != model.RoleTypeServer {
		return "reject", "server-role"
	}
	if s.Typ != typ {
		return "reject", "server-type"
	}
	f, ok := cw.pfeat[cli]
	if !ok {
		return "reject", "unknown-client"
	}
	if f.Typ != typ {
		return "reject", "client-type"
	}
	if f.Role != model.RoleTypeClient {
		return "reject", "client-role"
	}
	if _, bound := binds[srv]; bound {
		return "reject", "already-bound"
	}
	return "grant", "valid"
}

func c09Seq(c *rig.Ctx) {
	cw := newC08World(c)
	w := cw.w
	defer w.Close()
	r := c.Rand
	bm := w.Local.BindingManager()
	binds := map[string]c08Entry{} // server name -> holder
	var hist, shape []string
	log := func(format string, a ...any) { hist = append(hist, fmt.Sprintf(format, a...)) }
	fail := func(sig, format string, a ...any) {
		c.Violate(sig, "%s\n history:\n  %s", fmt.Sprintf(format, a...), strings.Join(hist, "\n  "))
	}
	grants, secondRejected, unbinds, reann := 0, 0, 0, 0

	takeAll := func() [][]model.DatagramType {
		outs := make([][]model.DatagramType, len(w.Peers))
		for i, p := range w.Peers {
			outs[i] = p.Tap.Take()
		}
		return outs
	}
	judgeResult := func(what string, pi int, mc model.MsgCounterType, outs [][]model.DatagramType, want string) bool {
		ok, bad, rest := rkResultOf(outs[pi], mc)
		c.Events(int64(ok + bad))
		switch {
		case ok+bad != 1:
			fail(what+"/result-count", "%s: %d success and %d other responses (want exactly one result)", what, ok, bad)
		case want == "grant" && ok != 1:
			fail(what+"/valid-request-rejected", "%s: the reference grants this request, the stack answered with an error: %s", what, rig.JS(outs[pi]))
		case want == "reject" && ok == 1:
			fail(what+"/invalid-request-granted", "%s: the reference rejects this request, the stack acknowledged it", what)
		}
		for qi, o := range outs {
			extra := o
			if qi == pi {
				extra = rest
			}
			if len(extra) > 0 {
				fail(what+"/unexpected-datagram", "%s: peer %d received %s", what, qi, rig.JS(extra))
			}
		}
		return ok == 1
	}
	judgeEvents := func(what string, change api.ElementChangeType, want bool, pi int, cliKey, srvKey string) {
		var got []rig.Ev
		for _, e := range w.Core.Take() {
			if e.P.EventType == api.EventTypeBindingChange {
				got = append(got, e)
			}
		}
		c.Events(int64(len(got)))
		n := 0
		if want {
			n = 1
		}
		if len(got) != n {
			var ss []string
			for _, e := range got {
				ss = append(ss, e.String())
			}
			sig := what + "/event-missing"
			if len(got) > n {
				sig = what + "/event-unexpected"
			}
			fail(sig, "%s: %d binding change events, want %d: %v", what, len(got), n, ss)
			return
		}
		if want {
			e := got[0]
			if e.P.ChangeType != change || e.P.Ski != w.Peers[pi].Ski || rkFeatKey(e.P.Feature) != cliKey || rkFeatKey(e.P.LocalFeature) != srvKey {
				fail(what+"/event-content", "%s: event %s does not describe (ski %s, client %s, server %s, change %d)", what, e.String(), w.Peers[pi].Ski, cliKey, srvKey, change)
			}
		}
	}
	pairKey := func(e c08Entry) string { return cw.pfeat[e.cli].Key(w.Peers[e.peer]) + ">" + cw.locals[e.srv].Key() }
	// otherHolder: the peer other than pi that holds the binding (cli, srv) with the same numbers, or -1
	otherHolder := func(pi int, cli, srv string) int {
		if h, ok := binds[srv]; ok && h.peer != pi && h.cli == cli {
			return h.peer
		}
		return -1
	}
	// bindSnapOthers renders the bindings (with their ids) of every connection but that of peer pi
	bindSnapOthers := func(pi int) map[string]string {
		snap := map[string]string{}
		for qi, q := range w.Peers {
			if qi == pi {
				continue
			}
			var es []string
			for _, en := range bm.Bindings(q.RD) {
				es = append(es, fmt.Sprintf("#%d %s>%s", en.Id, rkFeatKey(en.ClientFeature), rkFeatKey(en.ServerFeature)))
			}
			sort.Strings(es)
			snap[fmt.Sprintf("peer %d", qi)] = strings.Join(es, " ")
		}
		if cw.mute != nil { // it never binds anything
			var es []string
			for _, en := range bm.Bindings(cw.mute.RD) {
				es = append(es, fmt.Sprintf("#%d %s>%s", en.Id, rkFeatKey(en.ClientFeature), rkFeatKey(en.ServerFeature)))
			}
			snap["the mute peer"] = strings.Join(es, " ")
		}
		return snap
	}
	judgeRegistry := func(what string) {
		// at most one binding per server feature, and exactly the reference holder
		for _, s := range c09Servers {
			l := cw.locals[s]
			es := bm.BindingsOnFeature(*l.F.Address())
			c.Events(1)
			if len(es) > 1 {
				fail(what+"/more-than-one-binding", "after %s: %s has %d bindings", what, l.Key(), len(es))
				continue
			}
			h, bound := binds[s]
			switch {
			case bound && len(es) == 0:
				fail(what+"/registry/binding-lost", "after %s: %s should be bound by %s, BindingsOnFeature is empty", what, l.Key(), pairKey(h))
			case !bound && len(es) == 1:
				fail(what+"/registry/stale-binding", "after %s: %s should be unbound, BindingsOnFeature lists %s", what, l.Key(), rkFeatKey(es[0].ClientFeature))
			case bound && rkFeatKey(es[0].ClientFeature)+">"+rkFeatKey(es[0].ServerFeature) != pairKey(h):
				fail(what+"/registry/wrong-holder", "after %s: %s is bound by %s, reference %s", what, l.Key(), rkFeatKey(es[0].ClientFeature), pairKey(h))
			}
		}
		// Bindings(peer) exact, ids distinct
		for qi, q := range w.Peers {
			want, got, ids := map[string]bool{}, map[string]bool{}, map[uint64]bool{}
			for _, h := range binds {
				if h.peer == qi {
					want[pairKey(h)] = true
				}
			}
			es := bm.Bindings(q.RD)
			for _, en := range es {
				got[rkFeatKey(en.ClientFeature)+">"+rkFeatKey(en.ServerFeature)] = true
				ids[en.Id] = true
			}
			c.Events(1)
			if fmt.Sprint(rkSorted(want)) != fmt.Sprint(rkSorted(got)) || len(got) != len(es) {
				sig := "registry/binding-missing-in-peer-list"
				for k := range got {
					if !want[k] {
						sig = "registry/foreign-or-stale-binding-in-peer-list"
					}
				}
				fail(what+"/"+sig, "after %s: Bindings(peer %d) = %v (%d entries), reference %v", what, qi, rkSorted(got), len(es), rkSorted(want))
			} else if len(ids) != len(es) {
				fail(what+"/registry/ids-not-distinct", "after %s: Bindings(peer %d) has %d entries with %d distinct ids", what, qi, len(es), len(ids))
			}
		}
		// HasLocalFeatureRemoteBinding for every combination
		for _, s := range c09Servers {
			for qi, q := range w.Peers {
				for _, cl := range c09Clients {
					h, bound := binds[s]
					want := bound && h.peer == qi && h.cli == cl
					got := bm.HasLocalFeatureRemoteBinding(cw.locals[s].F.Address(), cw.pfeat[cl].Addr(q, true))
					c.Events(1)
					if got != want {
						fail(what+"/has-binding-inconsistent", "after %s: HasLocalFeatureRemoteBinding(%s, %s) = %v, reference %v", what, cw.locals[s].Key(), cw.pfeat[cl].Key(q), got, want)
					}
				}
			}
		}
	}

	nOps := 10 + r.Intn(16)
	pre := r.Intn(4) // the history opens with some valid requests
	for step := 0; step < nOps; step++ {
		pi := r.Intn(3)
		p := w.Peers[pi]
		roll := r.Intn(100)
		if step < pre {
			roll = 0
		}
		switch {
		case roll < 50: // ---------------- bind
			var cli, srv, kind string
			var typ model.FeatureTypeType
			k := r.Intn(100)
			if step < pre {
				k = 0
			}
			var bound, free []string
			for _, s := range c09Servers {
				if _, ok := binds[s]; ok {
					bound = append(bound, s)
				} else {
					free = append(free, s)
				}
			}
			switch {
			case k < 40 && len(free) > 0:
				kind = "valid"
				srv = free[r.Intn(len(free))]
				cs := cw.compatibleClients(srv)
				cli = cs[r.Intn(len(cs))]
				typ = cw.locals[srv].Typ
				// one client bound to two server features is the case a sloppy delete filter gets wrong
				if tw := map[string][]string{"S0": {"S1", "S3"}, "S1": {"S0", "S3"}, "S3": {"S0", "S1"}}[srv]; tw != nil && r.Intn(2) == 0 {
					if h, ok := binds[tw[r.Intn(2)]]; ok {
						pi, cli = h.peer, h.cli
						p = w.Peers[pi]
						kind = "valid-second-server-of-client"
					}
				}
			case k < 70 && len(bound) > 0:
				srv = bound[r.Intn(len(bound))]
				h := binds[srv]
				cs := cw.compatibleClients(srv)
				typ = cw.locals[srv].Typ
				switch r.Intn(3) {
				case 0:
					kind, cli = "second-by-holder", h.cli
					pi = h.peer
				case 1:
					kind, cli = "second-by-holders-peer", cs[r.Intn(len(cs))]
					pi = h.peer
				default:
					kind, cli = "second-by-other-peer-same-numbers", h.cli
					pi = (h.peer + 1 + r.Intn(2)) % 3
				}
				p = w.Peers[pi]
			default:
				switch r.Intn(11) {
				case 9, 10:
					// the requested type is Generic while the addressed server feature (and the client) has a concrete type:
					// that is not "the requested type"
					pr := [][2]string{{"a", "S0"}, {"b", "S1"}, {"c", "S2"}, {"g", "S0"}, {"b", "S3"}, {"a", "S3"}}[r.Intn(6)]
					kind, cli, srv, typ = "generic-type-requested", pr[0], pr[1], model.FeatureTypeTypeGeneric
				case 0:
					kind, cli, srv, typ = "wrong-role-server", "f", "LC", model.FeatureTypeTypeMeasurement
				case 1:
					kind, cli, srv, typ = "wrong-role-client", "d", []string{"S0", "S1", "S3"}[r.Intn(3)], model.FeatureTypeTypeDeviceClassification
				case 2:
					kind, cli, srv, typ = "wrong-type-requested", "a", "S0", model.FeatureTypeTypeIdentification
				case 3:
					kind, cli, srv, typ = "wrong-type-client", "c", []string{"S0", "S1", "S3"}[r.Intn(3)], model.FeatureTypeTypeDeviceClassification
				case 4:
					kind, cli, srv, typ = "wrong-type-server", []string{"a", "b"}[r.Intn(2)], "S2", model.FeatureTypeTypeDeviceClassification
				case 5:
					kind, cli, srv, typ = "unknown-entity-server", "a", "unkEnt", model.FeatureTypeTypeDeviceClassification
				case 6:
					kind, cli, srv, typ = "unknown-feature-server", "a", "unkFeat", model.FeatureTypeTypeDeviceClassification
				case 7:
					kind, cli, srv, typ = "unknown-entity-client", "unkEnt", []string{"S0", "S1", "S3"}[r.Intn(3)], model.FeatureTypeTypeDeviceClassification
				default:
					kind, cli, srv, typ = "unknown-feature-client", "unkFeat", []string{"S0", "S1", "S3"}[r.Intn(3)], model.FeatureTypeTypeDeviceClassification
				}
			}
			ca, sa := cw.cliAddr(p, cli), cw.srvAddr(srv)
			omitC, omitS := r.Intn(4) == 0, r.Intn(4) == 0
			fdim, ftag, fdesc := "", "", ""
			if r.Intn(5) == 0 { // a device part that names somebody else
				ca, sa, fdim, ftag, fdesc = c08Foreign(r, w, pi, otherHolder(pi, cli, srv), cw.muteDevs(), ca, sa)
			}
			omit := ""
			if omitC && !strings.Contains(fdim, "client") {
				ca = rkStripDevice(ca)
				omit += "-cdev"
			}
			if omitS && !strings.Contains(fdim, "server") {
				sa = rkStripDevice(sa)
				omit += "-sdev"
			}
			verdict, reason := c09Expect(cw, binds, cli, srv, typ)
			sreason := reason
			if fdim != "" {
				// the statement does not say whether a foreign device part is ignored (the feature lookups ignore it) or makes
				// the request invalid: a request that the entity/feature numbers justify may be granted (as the sender's own
				// binding) or refused; one that they do not justify must be refused
				if verdict == "grant" {
					verdict = "either"
				}
				sreason = ftag + ":" + reason
			}
			log("#%d bind peer%d %s(%s) -> %s(%s) type=%s kind=%s%s %s expect=%s(%s)", step, pi, cli, rkKey(ca), srv, rkKey(sa), typ, kind, omit, fdesc, verdict, sreason)
			takeAll()
			w.Core.Take()
			var othersBefore map[string]string
			if fdim != "" {
				othersBefore = bindSnapOthers(pi)
			}
			mc := p.Bind(ca, sa, typ)
			c.Events(1)
			outs := takeAll()
			if fdim != "" {
				if how, detail := c08SnapDiff(othersBefore, bindSnapOthers(pi)); how != "" {
					ok, bad, _ := rkResultOf(outs[pi], mc)
					fail("bind/"+fdim+"/"+strings.Replace(how, "entry", "binding", 1), "a binding request of peer %d (%s; answered with %d success and %d error results) changed the bindings of another connection: %s", pi, fdesc, ok, bad, detail)
					break // the narrow signature says it all
				}
			}
			granted := judgeResult("bind/"+sreason, pi, mc, outs, verdict)
			hist[len(hist)-1] += fmt.Sprintf(" -> granted=%v", granted)
			if fdim != "" {
				c08CountForeign(c, "bind", ftag, fdesc, verdict != "reject", otherHolder(pi, cli, srv) >= 0, granted)
			}
			_, knownC := cw.pfeat[cli]
			_, knownS := cw.locals[srv]
			if granted {
				grants++
				if _, already := binds[srv]; knownC && knownS && !already {
					binds[srv] = c08Entry{pi, cli, srv} // follow the stack so that one deviation is reported once
				}
			} else if reason == "already-bound" {
				secondRejected++
			}
			cliKey, srvKey := "", ""
			if knownC {
				cliKey = cw.pfeat[cli].Key(p)
			}
			if knownS {
				srvKey = cw.locals[srv].Key()
			}
			judgeEvents("bind", api.ElementChangeAdd, granted, pi, cliKey, srvKey)
			judgeRegistry("bind/" + sreason)
			c.Count("bind:"+reason, 1)
			if kind == "generic-type-requested" {
				c.Count(fmt.Sprintf("bind:%s:%s>%s granted=%v", kind, cli, srv, granted), 1)
			}
			if reason == "already-bound" {
				c.Count("bind:"+kind, 1)
			}
			if omit != "" {
				c.Count("bind:device-omitted"+omit, 1)
			}
			shape = append(shape, fmt.Sprintf("bind:%s:%s:%s>%s%s:%v", reason, kind, cli, srv, omit, granted))

		case roll >= 86 && roll < 90: // ---------------- the connection of a peer is replaced (same SKI), the old one was not removed
			// "Several peers ... arriving on different connections": a peer (SKI) may open a new connection while the stack still
			// has the old one (SetupRemoteDevice for a SKI that is registered; no RemoveRemoteDevice(Connection) ran). That is
			// neither a bind nor a delete: no binding may appear, change its id or move, the bindings of the other peers stay as
			// they are, and whatever the registry reports as bound afterwards is bound for EVERYBODY (the new connection, the
			// other peers): at no time two bindings on a server feature. The statement does not say whether the peer's own
			// bindings survive the replacement: kept (same id) and dropped (with a remove event each) are both accepted and the
			// reference follows; the peer's list is the list of the SKI, so the holder's delete through the new connection
			// removes a kept binding.
			var hs []c08Entry
			for _, s := range c09Servers {
				if h, ok := binds[s]; ok {
					hs = append(hs, h)
				}
			}
			if len(hs) > 0 && r.Intn(4) > 0 { // prefer a peer that holds a binding
				pi = hs[r.Intn(len(hs))].peer
				p = w.Peers[pi]
			}
			var mine []c08Entry
			for _, h := range hs {
				if h.peer == pi {
					mine = append(mine, h)
				}
			}
			what := "takeover"
			log("#%d peer%d opens a new connection (same SKI, same tree; the old connection was not removed); it holds %d bindings", step, pi, len(mine))
			takeAll()
			w.Core.Take()
			othersBefore := bindSnapOthers(pi)
			ownBefore := map[string]bool{}
			for _, en := range bm.Bindings(p.RD) {
				ownBefore[fmt.Sprintf("#%d %s>%s", en.Id, rkFeatKey(en.ClientFeature), rkFeatKey(en.ServerFeature))] = true
			}
			oldRD, oldTap := p.RD, p.Tap
			p.Tap = &rig.Tap{}
			w.Local.SetupRemoteDevice(p.Ski, p.Tap)
			p.RD = w.Local.RemoteDeviceForSki(p.Ski)
			c.Events(1)
			if p.RD == nil || p.RD == oldRD {
				c.Inconclusive("takeover: SetupRemoteDevice did not register a new connection object for the SKI")
				p.RD = oldRD
				break
			}
			p.Announce(rkAnnounceList(c08PeerFeats))
			for qi, o := range takeAll() {
				if qi != pi && len(o) > 0 {
					fail(what+"/unexpected-datagram", "peer %d received %s", qi, rig.JS(o))
				}
			}
			if how, detail := c08SnapDiff(othersBefore, bindSnapOthers(pi)); how != "" {
				fail(what+"/"+strings.Replace(how, "entry", "binding", 1), "a new connection of peer %d changed the bindings of another peer: %s", pi, detail)
				break
			}
			ownAfter := map[string]bool{}
			for _, en := range bm.Bindings(p.RD) {
				k := fmt.Sprintf("#%d %s>%s", en.Id, rkFeatKey(en.ClientFeature), rkFeatKey(en.ServerFeature))
				c.Events(1)
				if !ownBefore[k] || ownAfter[k] {
					fail(what+"/binding-appears-or-changes", "a new connection of peer %d: Bindings(peer) lists %s, before: %v", pi, k, rkSorted(ownBefore))
				}
				ownAfter[k] = true
			}
			dropped := 0
			for _, h := range mine {
				kept := false
				for k := range ownAfter {
					if strings.HasSuffix(k, " "+pairKey(h)) {
						kept = true
					}
				}
				if !kept {
					delete(binds, h.srv)
					dropped++
				}
			}
			adds, removes := 0, 0
			var bev []string
			for _, e := range w.Core.Take() {
				if e.P.EventType == api.EventTypeBindingChange {
					bev = append(bev, e.String())
					if e.P.ChangeType == api.ElementChangeAdd {
						adds++
					} else {
						removes++
					}
				}
			}
			c.Events(1)
			if adds > 0 || removes != dropped {
				fail(what+"/event-unexpected", "nobody bound or unbound anything and %d bindings of the peer are gone, yet %d add and %d remove binding change events were published: %v", dropped, adds, removes, bev)
			}
			judgeRegistry(what)
			c.Count("op:takeover", 1)
			c.Count(fmt.Sprintf("takeover_with_%d_bindings_of_the_peer", len(mine)), 1)
			if dropped > 0 {
				c.Count("takeover_dropped_bindings", int64(dropped))
			}
			var still []c08Entry
			for _, h := range mine {
				if _, ok := binds[h.srv]; ok {
					still = append(still, h)
				}
			}
			fu := "none"
			if len(still) > 0 && !c.Failed() {
				e := still[r.Intn(len(still))]
				sa := cw.srvAddr(e.srv)
				cs := cw.compatibleClients(e.srv)
				switch r.Intn(6) {
				case 0, 1, 2: // the feature is still bound: for the new connection (same or another client) and for the other peers
					q, qi, cli := p, pi, e.cli
					switch r.Intn(3) {
					case 0:
						fu = "bind-same-client-new-connection"
					case 1:
						fu = "bind-other-client-new-connection"
						cli = cs[r.Intn(len(cs))]
					default:
						fu = "bind-by-other-peer"
						qi = (pi + 1 + r.Intn(2)) % 3
						q = w.Peers[qi]
						if r.Intn(2) == 0 {
							cli = cs[r.Intn(len(cs))]
						}
					}
					log("   peer%d binds %s -> %s (%s)", qi, cli, e.srv, fu)
					mc := q.Bind(cw.cliAddr(q, cli), sa, cw.locals[e.srv].Typ)
					c.Events(1)
					granted := judgeResult("bind/already-bound-after-takeover", qi, mc, takeAll(), "reject")
					judgeEvents("bind", api.ElementChangeAdd, granted, qi, cw.pfeat[cli].Key(q), cw.locals[e.srv].Key())
					if !granted {
						secondRejected++
					}
					c.Count("bind:already-bound-after-takeover:"+fu, 1)
				case 4: // a late request on the replaced connection (it was not removed, so it still delivers): the feature is bound
					fu = "bind-on-the-old-connection"
					cli := e.cli
					if r.Intn(2) == 0 {
						cli = cs[r.Intn(len(cs))]
					}
					log("   peer%d binds %s -> %s on its OLD connection", pi, cli, e.srv)
					newRD, newTap := p.RD, p.Tap
					p.RD, p.Tap = oldRD, oldTap
					oldTap.Take()
					mc := p.Bind(cw.cliAddr(p, cli), sa, cw.locals[e.srv].Typ)
					c.Events(1)
					outs := takeAll()
					p.RD, p.Tap = newRD, newTap
					if extra := p.Tap.Take(); len(extra) > 0 {
						fail("bind/already-bound-after-takeover/unexpected-datagram", "a request on the old connection of peer %d was answered on the new one: %s", pi, rig.JS(extra))
					}
					granted := judgeResult("bind/already-bound-after-takeover", pi, mc, outs, "reject")
					judgeEvents("bind", api.ElementChangeAdd, granted, pi, cw.pfeat[cli].Key(p), cw.locals[e.srv].Key())
					if !granted {
						secondRejected++
					}
					c.Count("bind:already-bound-after-takeover:"+fu, 1)
				case 3: // the holder's delete through the new connection finds the binding of its SKI
					fu = "unbind-by-holder-new-connection"
					log("   peer%d unbinds %s -> %s", pi, e.cli, e.srv)
					mc := p.Unbind(cw.cliAddr(p, e.cli), sa)
					c.Events(1)
					removed := judgeResult("unbind/present-after-takeover", pi, mc, takeAll(), "grant")
					if removed {
						delete(binds, e.srv)
						unbinds++
					}
					judgeEvents("unbind", api.ElementChangeRemove, removed, pi, cw.pfeat[e.cli].Key(p), cw.locals[e.srv].Key())
					c.Count("unbind:present-after-takeover", 1)
				}
				judgeRegistry(what + "/follow-up")
			}
			shape = append(shape, fmt.Sprintf("takeover:%d:%d:%s", len(mine), dropped, fu))

		case roll < 90: // ---------------- unbind
			var cli, srv, kind string
			var holders []c08Entry
			for _, s := range c09Servers {
				if h, ok := binds[s]; ok {
					holders = append(holders, h)
				}
			}
			k := r.Intn(100)
			switch {
			case k < 45 && len(holders) > 0:
				h := holders[r.Intn(len(holders))]
				kind, cli, srv, pi = "holder", h.cli, h.srv, h.peer
			case k < 60 && len(holders) > 0:
				h := holders[r.Intn(len(holders))]
				kind, cli, srv, pi = "same-numbers-from-other-peer", h.cli, h.srv, (h.peer+1+r.Intn(2))%3
			case k < 72 && len(holders) > 0:
				h := holders[r.Intn(len(holders))]
				kind, srv, pi = "other-client-of-holders-peer", h.srv, h.peer
				cli = map[string]string{"a": "b", "b": "a", "c": "a", "g": "a"}[h.cli]
			case k < 86 && len(holders) > 0:
				h := holders[r.Intn(len(holders))]
				kind, cli, pi = "holders-client-on-other-server", h.cli, h.peer
				srv = map[string][]string{"S0": {"S1", "S3"}, "S1": {"S0", "S3"}, "S2": {"S0", "S3"}, "S3": {"S0", "S1"}}[h.srv][r.Intn(2)]
			case k < 93:
				kind = "random-pair"
				srv = c09Servers[r.Intn(len(c09Servers))]
				cli = c09Clients[r.Intn(len(c09Clients))]
			default:
				switch r.Intn(4) {
				case 0:
					kind, cli, srv = "unknown-entity-server", "a", "unkEnt"
				case 1:
					kind, cli, srv = "unknown-feature-server", "a", "unkFeat"
				case 2:
					kind, cli, srv = "unknown-entity-client", "unkEnt", "S0"
				default:
					kind, cli, srv = "unknown-feature-client", "unkFeat", "S0"
				}
			}
			p = w.Peers[pi]
			ca, sa := cw.cliAddr(p, cli), cw.srvAddr(srv)
			omitC, omitS := r.Intn(3) == 0, r.Intn(3) == 0
			fdim, ftag, fdesc := "", "", ""
			oh := otherHolder(pi, cli, srv)
			if r.Intn(5) == 0 || (oh >= 0 && r.Intn(2) == 0) { // a device part that names somebody else, preferably the peer that holds this pair
				ca, sa, fdim, ftag, fdesc = c08Foreign(r, w, pi, oh, cw.muteDevs(), ca, sa)
			}
			omit := ""
			if omitC && !strings.Contains(fdim, "client") {
				ca = rkStripDevice(ca)
				omit += "-cdev"
			}
			if omitS && !strings.Contains(fdim, "server") {
				sa = rkStripDevice(sa)
				omit += "-sdev"
			}
			h, bound := binds[srv]
			present := bound && h.peer == pi && h.cli == cli
			verdict, reason := "reject", "absent:"+kind
			if present {
				verdict, reason = "grant", "present"
			}
			sreason := reason
			if fdim != "" {
				// see bind: the sender's own binding may or may not go; a binding the sender does not hold must stay,
				// whoever the device part names
				if verdict == "grant" {
					verdict = "either"
				}
				sreason = ftag + ":" + reason
			}
			log("#%d unbind peer%d %s(%s) -> %s(%s) kind=%s%s %s expect=%s", step, pi, cli, rkKey(ca), srv, rkKey(sa), kind, omit, fdesc, verdict)
			takeAll()
			w.Core.Take()
			var othersBefore map[string]string
			if fdim != "" {
				othersBefore = bindSnapOthers(pi)
			}
			mc := p.Unbind(ca, sa)
			c.Events(1)
			outs := takeAll()
			if fdim != "" {
				if how, detail := c08SnapDiff(othersBefore, bindSnapOthers(pi)); how != "" {
					ok, bad, _ := rkResultOf(outs[pi], mc)
					fail("unbind/"+fdim+"/"+strings.Replace(how, "entry", "binding", 1), "a binding delete of peer %d (%s; answered with %d success and %d error results) changed the bindings of another connection: %s", pi, fdesc, ok, bad, detail)
					break // the narrow signature says it all
				}
			}
			removed := judgeResult("unbind/"+sreason, pi, mc, outs, verdict)
			hist[len(hist)-1] += fmt.Sprintf(" -> removed=%v", removed)
			if fdim != "" {
				c08CountForeign(c, "unbind", ftag, fdesc, verdict != "reject", oh >= 0, removed)
			}
			if removed {
				if present {
					delete(binds, srv)
					unbinds++
				}
			}
			cliKey, srvKey := "", ""
			if f, ok := cw.pfeat[cli]; ok {
				cliKey = f.Key(p)
			}
			if l, ok := cw.locals[srv]; ok {
				srvKey = l.Key()
			}
			judgeEvents("unbind", api.ElementChangeRemove, removed, pi, cliKey, srvKey)
			judgeRegistry("unbind/" + sreason)
			c.Count("unbind:"+reason, 1)
			if omit != "" {
				c.Count("unbind:device-omitted"+omit, 1)
			}
			if removed {
				c.Count(fmt.Sprintf("unbind_ok_with_%d_bindings_left", len(binds)), 1)
				for _, o := range binds {
					if o.peer == pi && o.cli == cli {
						c.Count("unbind_ok_while_client_holds_another_binding", 1)
					} else if o.cli == cli {
						c.Count("unbind_ok_while_same_numbered_client_of_other_peer_holds_a_binding", 1)
					}
				}
			}
			shape = append(shape, fmt.Sprintf("unbind:%s:%s>%s%s:%v", reason, cli, srv, omit, removed))

		case roll >= 90 && roll < 95: // ---------------- re-announcement without reconnect
			// A peer announces again what it has announced before (the whole detailed discovery reply, or a partial notify
			// lastStateChange=added for a known entity): same addresses, roles and types. The stack may rebuild its objects;
			// that is neither a bind nor an unbind call: registry and ids stay, the bound feature is still bound for everybody,
			// and the holder's delete still removes exactly its binding.
			var hs []c08Entry
			for _, s := range c09Servers {
				if h, ok := binds[s]; ok {
					hs = append(hs, h)
				}
			}
			if len(hs) > 0 && r.Intn(3) > 0 { // prefer a peer that holds a binding
				pi = hs[r.Intn(len(hs))].peer
				p = w.Peers[pi]
			}
			how, ent := "reply", []uint(nil)
			if r.Intn(2) == 0 {
				how, ent = "added", [][]uint{{1}, {1, 1}, {0}, {1}}[r.Intn(4)]
			}
			tree := rkAnnounceList(c08PeerFeats)
			if r.Intn(2) == 0 {
				reann++
				how += "+new-descriptions"
				for i := range tree {
					tree[i].Desc = fmt.Sprintf("revision %d", reann)
				}
			}
			var mine []c08Entry
			for _, h := range hs {
				if h.peer == pi {
					mine = append(mine, h)
				}
			}
			log("#%d peer%d announces itself again (%s %v, same addresses, roles and types); it holds %d bindings", step, pi, how, ent, len(mine))
			takeAll()
			w.Core.Take()
			regBefore := bindSnapOthers(-1)
			if strings.HasPrefix(how, "reply") {
				p.Announce(tree)
			} else {
				var feats []rig.FS
				for _, f := range tree {
					if fmt.Sprint(f.Ent) == fmt.Sprint(ent) {
						feats = append(feats, f)
					}
				}
				p.NotifyDiscovery(true, p.Discovery(feats, map[string]model.NetworkManagementStateChangeType{fmt.Sprint(ent): model.NetworkManagementStateChangeTypeAdded}, nil))
			}
			c.Events(1)
			what := "re-announcement"
			for qi, o := range takeAll() {
				if qi != pi && len(o) > 0 {
					fail(what+"/unexpected-datagram", "peer %d received %s", qi, rig.JS(o))
				}
			}
			if how, detail := c08SnapDiff(regBefore, bindSnapOthers(-1)); how != "" {
				fail(what+"/registry-changed", "a re-announcement with unchanged content changed the binding registry (%s): %s", strings.Replace(how, "entry", "binding", 1), detail)
			}
			var bev []string
			for _, e := range w.Core.Take() {
				if e.P.EventType == api.EventTypeBindingChange {
					bev = append(bev, e.String())
				}
			}
			c.Events(1)
			if len(bev) > 0 {
				fail(what+"/event-unexpected", "nobody bound or unbound anything, yet %d binding change events were published: %v", len(bev), bev)
			}
			judgeRegistry(what)
			c.Count("op:re-announcement:"+how, 1)
			shape = append(shape, fmt.Sprintf("reann:%s:%v:%d", how, ent, len(mine)))
			if len(mine) > 0 && !c.Failed() {
				e := mine[r.Intn(len(mine))]
				ca, sa := cw.cliAddr(p, e.cli), cw.srvAddr(e.srv)
				switch r.Intn(3) {
				case 0: // the same request again, or the request of another peer: the feature is still bound
					q, qi := p, pi
					if r.Intn(2) == 0 {
						qi = (pi + 1 + r.Intn(2)) % 3
						q = w.Peers[qi]
						ca = cw.cliAddr(q, e.cli)
					}
					log("   peer%d binds %s -> %s", qi, e.cli, e.srv)
					mc := q.Bind(ca, sa, cw.locals[e.srv].Typ)
					c.Events(1)
					granted := judgeResult("bind/already-bound-after-re-announcement", qi, mc, takeAll(), "reject")
					judgeEvents("bind", api.ElementChangeAdd, granted, qi, cw.pfeat[e.cli].Key(q), cw.locals[e.srv].Key())
					if !granted {
						secondRejected++
					}
					c.Count("bind:already-bound-after-re-announcement", 1)
				case 1: // the holder's delete still finds its binding
					log("   peer%d unbinds %s -> %s", pi, e.cli, e.srv)
					mc := p.Unbind(ca, sa)
					c.Events(1)
					removed := judgeResult("unbind/present-after-re-announcement", pi, mc, takeAll(), "grant")
					if removed {
						delete(binds, e.srv)
						unbinds++
					}
					judgeEvents("unbind", api.ElementChangeRemove, removed, pi, cw.pfeat[e.cli].Key(p), cw.locals[e.srv].Key())
					c.Count("unbind:present-after-re-announcement", 1)
				}
				judgeRegistry(what + "/follow-up")
			}

		default: // ---------------- registry read over the wire
			cl := model.CmdClassifierTypeCall
			if r.Intn(2) == 0 {
				cl = model.CmdClassifierTypeRead
			}
			takeAll()
			log("#%d %s nodeManagementBindingData by peer%d", step, cl, pi)
			mc := p.Send(cl, p.NM(), rig.LNM, false, nil, model.CmdType{NodeManagementBindingData: &model.NodeManagementBindingDataType{}})
			outs := takeAll()
			res := rig.Classify(outs[pi], mc)
			if res.Replies != 1 {
				c.Count("registry_read_unanswered", 1)
			} else {
				for _, d := range res.All {
					if rkClassifier(d) != model.CmdClassifierTypeReply || len(d.Payload.Cmd) != 1 || d.Payload.Cmd[0].NodeManagementBindingData == nil {
						continue
					}
					want, got, ids := map[string]bool{}, map[string]bool{}, map[uint]bool{}
					for _, h := range binds {
						if h.peer == pi {
							want[pairKey(h)] = true
						}
					}
					es := d.Payload.Cmd[0].NodeManagementBindingData.BindingEntry
					for _, en := range es {
						got[rkKey(en.ClientAddress)+">"+rkKey(en.ServerAddress)] = true
						if en.BindingId != nil {
							ids[uint(*en.BindingId)] = true
						}
					}
					c.Events(1)
					if fmt.Sprint(rkSorted(want)) != fmt.Sprint(rkSorted(got)) || len(es) != len(got) {
						fail("registry-read/entries-differ", "peer %d was told %v (%d entries), reference %v", pi, rkSorted(got), len(es), rkSorted(want))
					} else if len(ids) != len(es) {
						fail("registry-read/ids-not-distinct", "peer %d was told %d entries with %d distinct ids", pi, len(es), len(ids))
					}
					c.Count("registry_read_judged", 1)
				}
			}
			shape = append(shape, fmt.Sprintf("read:%s:%d", cl, len(binds)))
		}
		for _, q := range w.Peers {
			if n := q.PanicCount(); n > 0 {
				fail("panic", "the stack panicked: %s", q.Panics[n-1])
				q.Panics = nil
			}
		}
		if c.Failed() {
			break
		}
	}
	if c.Failed() {
		c.Witness(map[string]any{"history": hist})
	}
	c.Shape(rkHash(shape...))
	c.NonTrivial(grants > 0 && secondRejected > 0 && unbinds > 0)
	c.Count("grants", int64(grants))
	c.Count("second_binding_rejected", int64(secondRejected))
	c.Count("successful_unbinds", int64(unbinds))
	c.Sample(map[string]any{"history": hist, "grants": grants, "second_binding_rejected": secondRejected, "successful_unbinds": unbinds})
}

// ---------------------------------------------------------------------------
// duel part

type c09In struct {
	Op  string // bind | unbind | snapshot
	Cli string
}
type c09Out struct {
	OK     bool
	Holder string
}

var c09Model = porcupine.Model{
	Init: func() any { return "" },
	Step: func(st, in, out any) (bool, any) {
		s, i, o := st.(string), in.(c09In), out.(c09Out)
		switch i.Op {
		case "bind":
			if s == "" {
				return o.OK, i.Cli
			}
			return !o.OK, s
		case "unbind":
			if s == i.Cli {
				return o.OK, ""
			}
			return !o.OK, s
		case "fbind":
			// a request with a foreign device part whose numbers name the sender's own feature: the statement does not say
			// whether it is served; if it is acknowledged the feature must have been unbound and is the sender's now
			if !o.OK {
				return true, s
			}
			return s == "", i.Cli
		case "funbind":
			// ... and an acknowledged delete must have removed the sender's own binding
			if !o.OK {
				return true, s
			}
			return s == i.Cli, ""
		case "snapshot":
			return o.Holder == s, s
		}
		return false, s
	},
	DescribeOperation: func(in, out any) string {
		i, o := in.(c09In), out.(c09Out)
		if i.Op == "snapshot" {
			return "snapshot -> " + o.Holder
		}
		return fmt.Sprintf("%s(%s) -> %v", i.Op, i.Cli, o.OK)
	},
}

type c09Rec struct {
	gor, peer int
	in        c09In
	call, ret int64
	mc        model.MsgCounterType
	foreign   string // which device parts were foreign
	onOther   bool   // aimed at the bystander binding's server feature (not part of the register model)
}

func c09Duel(c *rig.Ctx) {
	w := rig.NewWorld(c.Tag())
	defer w.Close()
	r := c.Rand
	e1 := w.AddEntity(model.EntityTypeTypeCEM, []uint{1}, 4*time.Second)
	srv := e1.GetOrAddFeature(model.FeatureTypeTypeDeviceClassification, model.RoleTypeServer)
	srv.AddFunctionType(model.FunctionTypeDeviceClassificationUserData, true, true)
	other := e1.GetOrAddFeature(model.FeatureTypeTypeIdentification, model.RoleTypeServer) // a bystander binding that must survive
	other.AddFunctionType(model.FunctionTypeIdentificationListData, true, true)
	// the nested twin: the sub-entity [1,1] restarts the feature numbering, its server feature [1,1]/1 has the type and the
	// feature number of the contested [1]/1. In every second pair of cases the roles are swapped (the contested feature is
	// the nested one); in every second case peer 0 holds a binding on the twin. Whatever happens to one of the two concerns
	// the other one in no way.
	e11 := w.AddEntity(model.EntityTypeTypeEV, []uint{1, 1}, 4*time.Second)
	twin := e11.GetOrAddFeature(model.FeatureTypeTypeDeviceClassification, model.RoleTypeServer)
	twin.AddFunctionType(model.FunctionTypeDeviceClassificationUserData, true, true)
	nested := c.Index%4 >= 2
	if nested {
		srv, twin = twin, srv
	}
	clients := []rkPeerFeat{c08PeerFeats[1], c08PeerFeats[2], c08PeerFeats[3]} // a [1]/1, b [1,1]/1 (DeviceClassification), c [1]/2 (Identification)
	variant := []string{"bind-k", "bind-k", "unbind-bind-bind", "sequences-jitter", "foreign"}[c.Index%5]
	k := 2 + r.Intn(3)
	if variant == "unbind-bind-bind" {
		k = 3
	}
	nPeers := 3
	if k > 3 {
		nPeers = k
	}
	for i := 0; i < nPeers; i++ {
		p := w.AddPeer(i)
		p.Ctr = uint64(i+1) * 100000
		p.Announce(rkAnnounceList(clients))
		p.Tap.Take()
	}
	bm := w.Local.BindingManager()
	// bystander: peer 0 binds the other server feature with c
	bymc := w.Peers[0].Bind(clients[2].Addr(w.Peers[0], true), other.Address(), model.FeatureTypeTypeIdentification)
	if ok, _, _ := rkResultOf(w.Peers[0].Tap.Take(), bymc); ok != 1 {
		c.Violate("duel/setup-bind-refused", "the bystander binding was refused")
		return
	}

	twinBound := r.Intn(2) == 0
	if twinBound {
		tmc := w.Peers[0].Bind(clients[r.Intn(2)].Addr(w.Peers[0], true), twin.Address(), model.FeatureTypeTypeDeviceClassification)
		if ok, _, _ := rkResultOf(w.Peers[0].Tap.Take(), tmc); ok != 1 {
			c.Violate("duel/setup-bind-refused", "the binding of peer 0 on the twin feature %s was refused", rkKey(twin.Address()))
			return
		}
	}
	c.Count(fmt.Sprintf("duel_world:contested_feature_is_the_nested_one=%v:twin_feature_bound=%v", nested, twinBound), 1)

	var mu sync.Mutex
	var recs []c09Rec
	type step struct {
		op      string // bind | unbind | fbind | funbind (f: a device part of the request names somebody else)
		cl      rkPeerFeat
		fc, fs  string // foreign device part of the client / server address ("" = the real one)
		onOther bool   // aimed at the bystander binding (peer 0's client c on the other server feature)
	}
	doStep := func(gor, pi int, st step) {
		p := w.Peers[pi]
		rec := c09Rec{gor: gor, peer: pi, in: c09In{Op: st.op, Cli: st.cl.Key(p)}, onOther: st.onOther}
		ca, sa, typ := st.cl.Addr(p, true), srv.Address(), model.FeatureTypeTypeDeviceClassification
		if st.onOther {
			sa, typ = other.Address(), model.FeatureTypeTypeIdentification
		}
		if st.fc != "" {
			ca = rig.FA(st.fc, st.cl.Ent, st.cl.Id)
			rec.foreign += ":client-device"
		}
		if st.fs != "" {
			a := *sa
			a.Device = util.Ptr(model.AddressDeviceType(st.fs))
			sa = &a
			rec.foreign += ":server-device"
		}
		rec.call = rig.Seq()
		if st.op == "bind" || st.op == "fbind" {
			rec.mc = p.Bind(ca, sa, typ)
		} else {
			rec.mc = p.Unbind(ca, sa)
		}
		rec.ret = rig.Seq()
		mu.Lock()
		recs = append(recs, rec)
		mu.Unlock()
	}
	do := func(gor, pi int, op string, cl rkPeerFeat) { doStep(gor, pi, step{op: op, cl: cl}) }
	plans := make([][]step, k)
	pick := func() rkPeerFeat { return clients[r.Intn(2)] }
	policy := "rendezvous"
	switch variant {
	case "bind-k":
		for g := 0; g < k; g++ {
			plans[g] = []step{{op: "bind", cl: pick()}}
		}
	case "unbind-bind-bind":
		h := pick()
		do(9, 0, "bind", h) // holder: peer 0
		plans[0] = []step{{op: "unbind", cl: h}}
		plans[1] = []step{{op: "bind", cl: pick()}}
		plans[2] = []step{{op: "bind", cl: pick()}}
		if r.Intn(2) == 0 {
			policy = "jitter"
		}
	case "foreign":
		// peer 0 holds (in two of three cases) the binding of the contested server feature and always the bystander binding;
		// the others send deletes and requests whose client address carries the device of peer 0 (or of somebody else)
		// with entity/feature numbers that exist on every peer, mixed with ordinary requests
		policy = "jitter"
		var h *rkPeerFeat
		if r.Intn(3) > 0 {
			x := pick()
			h = &x
			do(9, 0, "bind", x)
		}
		switch {
		case h == nil:
			plans[0] = []step{{op: "bind", cl: pick()}}
		case r.Intn(3) == 0:
			plans[0] = []step{{op: "unbind", cl: *h}, {op: "bind", cl: *h}}
		case r.Intn(2) == 0:
			plans[0] = []step{{op: "unbind", cl: *h}}
		}
		fdev := func(g int) string {
			switch d := r.Intn(10); {
			case d < 6:
				return w.Peers[0].Addr
			case d < 8:
				return w.Peers[(g+1+r.Intn(nPeers-1))%nPeers].Addr
			case d < 9:
				return rig.LocalAddr
			}
			return "nowhere"
		}
		for g := 1; g < k; g++ {
			for n := 2 + r.Intn(2); n > 0; n-- {
				cl := pick()
				if h != nil && r.Intn(3) > 0 {
					cl = *h
				}
				var st step
				switch x := r.Intn(10); {
				case x < 4:
					st = step{op: "funbind", cl: cl, fc: fdev(g)}
				case x < 5:
					st = step{op: "funbind", cl: cl, fs: []string{w.Peers[r.Intn(nPeers)].Addr, "nowhere"}[r.Intn(2)]}
				case x < 6:
					st = step{op: "funbind", cl: clients[2], fc: w.Peers[0].Addr, onOther: true}
				case x < 7:
					st = step{op: "fbind", cl: cl, fc: fdev(g)}
				case x < 9:
					st = step{op: "bind", cl: cl}
				default:
					st = step{op: "unbind", cl: cl}
				}
				plans[g] = append(plans[g], st)
			}
		}
	default:
		policy = "jitter"
		for g := 0; g < k; g++ {
			cl := pick()
			plans[g] = []step{{op: "bind", cl: cl}, {op: "unbind", cl: cl}, {op: "bind", cl: cl}}
			if r.Intn(2) == 0 {
				plans[g] = plans[g][:2]
			}
		}
	}
	// takeover (every third case): before the concurrent phase one connection (mostly that of peer 0, which holds the bystander
	// binding and possibly the contested / the twin binding) is replaced by a new connection of the same SKI while the old one
	// was not removed (SetupRemoteDevice for a registered SKI; same writer, same tree announced again). That is neither a bind
	// nor a delete; the duel then runs with the new connection. The statement does not say what a replaced connection does to
	// the peer's own bindings (the sequential part accepts kept and dropped): if the registry is not what it was, the case
	// is only counted; otherwise everything that holds for the duel holds here as well.
	takeover := -1
	if c.Index%3 == 0 {
		takeover = 0
		if r.Intn(4) == 0 {
			takeover = r.Intn(nPeers)
		}
		snap := func() string {
			var es []string
			for _, f := range []api.FeatureLocalInterface{srv, twin, other} {
				for _, en := range bm.BindingsOnFeature(*f.Address()) {
					es = append(es, fmt.Sprintf("#%d %s>%s", en.Id, rkFeatKey(en.ClientFeature), rkFeatKey(en.ServerFeature)))
				}
			}
			for _, q := range w.Peers {
				es = append(es, fmt.Sprintf("|%d", len(bm.Bindings(q.RD))))
			}
			return strings.Join(es, " ")
		}
		before := snap()
		tp := w.Peers[takeover]
		oldRD := tp.RD
		w.Local.SetupRemoteDevice(tp.Ski, tp.Tap)
		tp.RD = w.Local.RemoteDeviceForSki(tp.Ski)
		if tp.RD == nil || tp.RD == oldRD {
			c.Inconclusive("duel takeover: SetupRemoteDevice did not register a new connection object for the SKI")
			return
		}
		tp.Announce(rkAnnounceList(clients))
		// the prebinding results of this peer stay in its tap (same writer); drop only the discovery traffic of the new connection
		var keep []model.DatagramType
		for _, d := range tp.Tap.Take() {
			if rkClassifier(d) == model.CmdClassifierTypeResult {
				keep = append(keep, d)
			}
		}
		for _, d := range keep {
			if b, err := json.Marshal(model.Datagram{Datagram: d}); err == nil {
				tp.Tap.WriteShipMessageWithPayload(b)
			}
		}
		if after := snap(); after != before {
			c.Count("duel_takeover_changed_the_registry_case_skipped", 1)
			c.Sample(map[string]any{"takeover": takeover, "before": before, "after": after})
			return
		}
		c.Count(fmt.Sprintf("duel_takeover:variant=%s:peer0=%v:contested_bound=%v", variant, takeover == 0, len(bm.BindingsOnFeature(*srv.Address())) > 0), 1)
	}
	w.Core.Take()
	bystanderSnap := func() string {
		var es []string
		for _, en := range bm.BindingsOnFeature(*other.Address()) {
			es = append(es, fmt.Sprintf("#%d %s>%s", en.Id, rkFeatKey(en.ClientFeature), rkFeatKey(en.ServerFeature)))
		}
		return strings.Join(es, " ")
	}
	bystanderBefore := bystanderSnap()
	twinSnap := func() string {
		var es []string
		for _, en := range bm.BindingsOnFeature(*twin.Address()) {
			es = append(es, fmt.Sprintf("#%d %s>%s", en.Id, rkFeatKey(en.ClientFeature), rkFeatKey(en.ServerFeature)))
		}
		return strings.Join(es, " ")
	}
	twinBefore := twinSnap()
	twinShort := func() string { // what the sampler records of the twin feature
		if es := bm.BindingsOnFeature(*twin.Address()); len(es) > 0 {
			return fmt.Sprintf("%d:%s", len(es), rkFeatKey(es[0].ClientFeature))
		}
		return "-"
	}
	twinShortBefore := twinShort()
	h := rig.InstallHooks()
	defer h.Uninstall()
	const point = "AddBinding.afterCheck"
	if policy == "rendezvous" {
		n := k
		if variant == "unbind-bind-bind" {
			n = 2
			h.SetMaxWait(150 * time.Millisecond)
		} else {
			h.SetMaxWait(5 * time.Second)
		}
		h.Rendezvous(point, n)
	} else {
		h.Jitter(point, r.Int63(), 300*time.Microsecond)
	}
	// "at no time": a sampler reads BindingsOnFeature of the contested feature (and of its twin) as fast as it can while the
	// requests run. It records what it saw (consecutive equal observations once); the verdict is on the observations, not
	// on time.
	type c09Sample struct {
		t       int64
		holders []string
		twin    string
	}
	var samples []c09Sample
	nSamples := 0
	stopSampler, samplerDone := make(chan struct{}), make(chan struct{})
	srvAddr := *srv.Address()
	go func() {
		defer close(samplerDone)
		lastH, lastT := "\x00", "\x00"
		for {
			select {
			case <-stopSampler:
				return
			default:
			}
			var hs []string
			for _, en := range bm.BindingsOnFeature(srvAddr) {
				hs = append(hs, rkFeatKey(en.ClientFeature))
			}
			tw := ""
			if nSamples%4 == 0 {
				tw = twinShort()
			}
			nSamples++
			if hkey := strings.Join(hs, " "); hkey != lastH || (tw != "" && tw != lastT) {
				samples = append(samples, c09Sample{t: rig.Seq(), holders: hs, twin: tw})
				lastH = hkey
				if tw != "" {
					lastT = tw
				}
			}
			runtime.Gosched()
		}
	}()
	start := make(chan struct{})
	var wg sync.WaitGroup
	for g := 0; g < k; g++ {
		wg.Add(1)
		go func(g int) {
			defer wg.Done()
			h.Role(fmt.Sprintf("p%d", g))
			<-start
			for _, s := range plans[g] {
				doStep(g, g, s)
			}
		}(g)
	}
	close(start)
	done := make(chan struct{})
	go func() { wg.Wait(); close(done) }()
	select {
	case <-done:
	case <-time.After(60 * time.Second):
		c.Inconclusive("duel did not finish within 60s (the progress watchdog decides whether this is a hang)")
		<-done
	}
	close(stopSampler)
	<-samplerDone
	forced := h.Forced(point)
	trace := h.Trace()
	h.Uninstall()

	// outputs
	results := map[int]map[model.MsgCounterType]int{}
	for pi, p := range w.Peers {
		results[pi] = map[model.MsgCounterType]int{}
		for _, d := range p.Tap.Take() {
			if rkClassifier(d) != model.CmdClassifierTypeResult || d.Header.MsgCounterReference == nil || len(d.Payload.Cmd) != 1 || d.Payload.Cmd[0].ResultData == nil || d.Payload.Cmd[0].ResultData.ErrorNumber == nil {
				c.Violate("duel/unexpected-datagram", "peer %d received %s", pi, rig.JS(d))
				continue
			}
			ref := *d.Header.MsgCounterReference
			if _, dup := results[pi][ref]; dup {
				c.Violate("duel/result-count", "peer %d received two results for request %d", pi, ref)
			}
			results[pi][ref] = -1
			if *d.Payload.Cmd[0].ResultData.ErrorNumber == 0 {
				results[pi][ref] = 1
			}
			c.Events(1)
		}
	}
	sort.Slice(recs, func(i, j int) bool { return recs[i].call < recs[j].call })
	var ops []porcupine.Operation
	var hist []string
	okBinds, okUnbinds, concBinds := 0, 0, 0
	overlap := false
	for i, x := range recs {
		res, ok := results[x.peer][x.mc]
		if !ok {
			c.Violate("duel/result-count", "%s(%s) by peer %d: no result datagram", x.in.Op, x.in.Cli, x.peer)
		}
		if x.gor != 9 {
			if x.in.Op == "bind" || x.in.Op == "fbind" {
				concBinds++
				if res == 1 {
					okBinds++
				}
			} else if res == 1 {
				okUnbinds++
			}
		}
		for _, y := range recs[:i] {
			if y.ret > x.call {
				overlap = true
			}
		}
		tgt := ""
		if x.onOther {
			tgt = " on the bystander's server feature"
		}
		hist = append(hist, fmt.Sprintf("[%d,%d] g%d %s(%s%s)%s -> %v", x.call, x.ret, x.gor, x.in.Op, x.in.Cli, x.foreign, tgt, res == 1))
		if x.foreign != "" {
			out := " -> refused"
			if res == 1 {
				out = " -> accepted"
			}
			c.Count("duel_foreign:"+x.in.Op+x.foreign+map[bool]string{true: ":aimed-at-the-bystander-binding"}[x.onOther]+out, 1)
		}
		if x.onOther {
			// nobody but peer 0 ever holds a binding on that feature: whatever the device part says, the delete must be refused
			c.Events(1)
			if res == 1 {
				c.Violate("duel/foreign/delete-of-a-binding-the-sender-does-not-hold-acknowledged", "%s(%s%s) by peer %d on the bystander's server feature was acknowledged\n  %s", x.in.Op, x.in.Cli, x.foreign, x.peer, strings.Join(hist, "\n  "))
			}
			continue
		}
		ops = append(ops, porcupine.Operation{ClientId: x.gor, Input: x.in, Call: x.call, Output: c09Out{OK: res == 1}, Return: x.ret})
	}
	if after := bystanderSnap(); after != bystanderBefore {
		c.Violate("duel/foreign-device/binding-of-other-peer-changed", "the bystander binding of peer 0 was {%s} before the concurrent phase and is {%s} after it; nobody who holds it asked for that\n  %s", bystanderBefore, after, strings.Join(hist, "\n  "))
	}
	if after := twinSnap(); after != twinBefore {
		c.Violate("duel/twin-binding-changed", "the feature %s with the contested feature's number in the %s entity had the bindings {%s} before the concurrent phase and has {%s} after it; no request named it\n  %s",
			rkKey(twin.Address()), map[bool]string{true: "parent", false: "sub"}[nested], twinBefore, after, strings.Join(hist, "\n  "))
	}
	// the sampler's observations: at no time more than one binding, and nobody ever holds the feature whose request was refused
	acked := map[string]bool{}
	for _, x := range recs {
		if (x.in.Op == "bind" || x.in.Op == "fbind") && !x.onOther && results[x.peer][x.mc] == 1 {
			acked[x.in.Cli] = true
		}
	}
	var seen []string
	for _, sm := range samples {
		c.Events(1)
		seen = append(seen, fmt.Sprintf("@%d %v", sm.t, sm.holders))
		if len(sm.holders) > 1 {
			c.Violate("duel/"+variant+"/sampled/more-than-one-binding", "while the requests were running BindingsOnFeature(%s) returned %d bindings at once: %v\n  %s\n observations %v", rkKey(srv.Address()), len(sm.holders), sm.holders, strings.Join(hist, "\n  "), seen)
			break
		}
		for _, hk := range sm.holders {
			if !acked[hk] {
				c.Violate("duel/"+variant+"/sampled/holder-whose-request-was-not-granted", "while the requests were running %s was bound by %s, whose binding request was never acknowledged\n  %s\n observations %v", rkKey(srv.Address()), hk, strings.Join(hist, "\n  "), seen)
			}
		}
		if sm.twin != "" && sm.twin != twinShortBefore {
			c.Violate("duel/sampled/twin-binding-changed", "while the requests were running the twin feature %s showed the bindings {%s}, before them {%s}\n  %s", rkKey(twin.Address()), sm.twin, twinShortBefore, strings.Join(hist, "\n  "))
		}
	}
	c.Count("duel_sampler_reads", int64(nSamples))
	c.Count("duel_sampler_distinct_consecutive_observations", int64(len(samples)))
	if len(samples) > 1 {
		c.Count("duel_cases_where_the_sampler_saw_the_registry_change", 1)
	}
	// quiescence: registry
	es := bm.BindingsOnFeature(*srv.Address())
	var holders []string
	for _, en := range es {
		holders = append(holders, rkFeatKey(en.ClientFeature))
	}
	sort.Strings(holders)
	hist = append(hist, fmt.Sprintf("final BindingsOnFeature = %v", holders))
	c.Events(1)
	if len(es) > 1 {
		c.Violate("duel/"+variant+"/more-than-one-binding", "the server feature ended with %d bindings %v\n  %s\n hook trace %v", len(es), holders, strings.Join(hist, "\n  "), trace)
	}
	if variant == "bind-k" && okBinds != 1 {
		c.Violate("duel/bind-k/success-count", "%d competing binds for an unbound feature produced %d success results\n  %s\n hook trace %v", concBinds, okBinds, strings.Join(hist, "\n  "), trace)
	}
	if variant == "unbind-bind-bind" && okBinds > 1 {
		c.Violate("duel/unbind-bind-bind/success-count", "one unbind and two binds produced %d successful binds\n  %s", okBinds, strings.Join(hist, "\n  "))
	}
	t := rig.Seq()
	ops = append(ops, porcupine.Operation{ClientId: 8, Input: c09In{Op: "snapshot"}, Call: t, Output: c09Out{Holder: strings.Join(holders, " ")}, Return: rig.Seq()})
	res, _ := porcupine.CheckOperationsVerbose(c09Model, ops, 20*time.Second)
	c.Count("porcupine:"+string(res), 1)
	c.Events(int64(len(ops)))
	decided := true
	switch res {
	case porcupine.Illegal:
		c.Violate("duel/"+variant+"/not-linearizable", "the history has no linearization in the single-binding register model:\n  %s\n hook trace %v", strings.Join(hist, "\n  "), trace)
	case porcupine.Unknown:
		c.Inconclusive("porcupine timed out (%d operations)", len(ops))
		decided = false
	}
	// the bystander binding and the per-peer lists
	if n := len(bm.BindingsOnFeature(*other.Address())); n != 1 {
		c.Violate("duel/bystander-binding-changed", "the binding on the other server feature: %d entries", n)
	}
	total := 0
	for pi, p := range w.Peers {
		ids := map[uint64]bool{}
		bs := bm.Bindings(p.RD)
		total += len(bs)
		for _, en := range bs {
			ids[en.Id] = true
			if !strings.HasPrefix(rkFeatKey(en.ClientFeature), p.Addr+":") {
				c.Violate("duel/registry/foreign-entry", "Bindings(peer %d) lists %s", pi, rkFeatKey(en.ClientFeature))
			}
		}
		if len(ids) != len(bs) {
			c.Violate("duel/registry/ids-not-distinct", "Bindings(peer %d): %d entries, %d distinct ids", pi, len(bs), len(ids))
		}
	}
	nTwin := len(bm.BindingsOnFeature(*twin.Address()))
	if total != len(es)+1+nTwin {
		c.Violate("duel/registry/peer-lists-differ-from-feature-lists", "the peers' lists hold %d bindings, the features' lists %d", total, len(es)+1+nTwin)
	}
	// events one to one
	evs := w.Core.Take()
	adds, rems := rig.CountEv(evs, api.EventTypeBindingChange, api.ElementChangeAdd), rig.CountEv(evs, api.EventTypeBindingChange, api.ElementChangeRemove)
	c.Events(int64(adds + rems))
	if adds != okBinds || rems != okUnbinds {
		c.Violate("duel/events-differ-from-results", "%d add and %d remove events for %d successful binds and %d successful unbinds\n  %s", adds, rems, okBinds, okUnbinds, strings.Join(hist, "\n  "))
	} else {
		// ... and each event names the connection, client and server feature of one acknowledged request
		wantEv, gotEv := map[string]int{}, map[string]int{}
		for _, x := range recs {
			if x.gor == 9 || x.onOther || results[x.peer][x.mc] != 1 {
				continue
			}
			ch := "remove"
			if x.in.Op == "bind" || x.in.Op == "fbind" {
				ch = "add"
			}
			wantEv[fmt.Sprintf("%s ski=%s client=%s server=%s", ch, w.Peers[x.peer].Ski, x.in.Cli, rkKey(srv.Address()))]++
		}
		for _, e := range evs {
			if e.P.EventType != api.EventTypeBindingChange {
				continue
			}
			ch := map[api.ElementChangeType]string{api.ElementChangeAdd: "add", api.ElementChangeRemove: "remove"}[e.P.ChangeType]
			gotEv[fmt.Sprintf("%s ski=%s client=%s server=%s", ch, e.P.Ski, rkFeatKey(e.P.Feature), rkFeatKey(e.P.LocalFeature))]++
		}
		c.Events(int64(len(gotEv)))
		if fmt.Sprint(wantEv) != fmt.Sprint(gotEv) {
			c.Violate("duel/event-attribution", "the binding change events %v do not describe the acknowledged requests %v\n  %s", gotEv, wantEv, strings.Join(hist, "\n  "))
		}
	}
	for _, q := range w.Peers {
		if n := q.PanicCount(); n > 0 {
			c.Violate("duel/panic", "the stack panicked: %s", q.Panics[n-1])
		}
	}
	if c.Failed() {
		c.Witness(map[string]any{"variant": variant, "k": k, "policy": policy, "history": hist, "hook_trace": trace, "window_forced": forced})
	}
	if forced {
		c.Count("windows_forced", 1)
		c.Count(fmt.Sprintf("windows_forced_k%d", kOf(policy, variant, k)), 1)
	} else if policy == "rendezvous" {
		c.Count("windows_not_forced", 1)
	}
	if overlap {
		c.Count("cases_with_overlapping_operations", 1)
	}
	winner := "none"
	if len(holders) == 1 {
		winner = holders[0]
	}
	c.Seen("hook_traces", rkHash(append(trace, variant, winner)...)[:10])
	var st []rkStamp
	for _, x := range recs {
		if x.gor != 9 {
			st = append(st, rkStamp{x.call, fmt.Sprintf("g%d(", x.gor)}, rkStamp{x.ret, fmt.Sprintf(")g%d", x.gor)})
		}
	}
	c.Seen("duel_interleavings", rkHash(variant, rkInterleaving(st))[:10])
	c.Count("hook_arrivals", int64(len(trace)))
	var sh []string
	for g := range plans {
		for _, s := range plans[g] {
			sh = append(sh, fmt.Sprintf("%d:%s:%s:%v:%v:%v", g, s.op, s.cl.Name, s.fc != "", s.fs != "", s.onOther))
		}
	}
	c.Shape(rkHash(append(sh, variant, policy, strings.Join(trace, ","), winner, fmt.Sprint("takeover=", takeover))...))
	c.NonTrivial(decided && (forced || (policy == "jitter" && overlap)))
	c.Sample(map[string]any{"variant": variant, "k": k, "policy": policy, "history": hist, "hook_trace": trace, "window_forced": forced, "porcupine": string(res)})
}

func kOf(policy, variant string, k int) int {
	if variant == "unbind-bind-bind" {
		return 2
	}
	return k
}
