package checks

import (
	"fmt"
	"math/rand"
	"runtime"
	"sort"
	"strings"
	"sync"
	"sync/atomic"
	"time"

	"github.com/anishathalye/porcupine"
	"github.com/enbility/spine-go/model"
	"github.com/enbility/spine-go/spine"

	"verifharness/rig"
)

// C20 — the use-case registry reflects exactly what the application declared.
//
// seq:  one World with three local entities and one peer; a generated history of AddUseCaseSupport /
//       RemoveUseCaseSupport / SetUseCaseAvailability / RemoveAllUseCaseSupports / DeviceLocal.RemoveEntity /
//       AddEntity over 3 entities x 2 actors x 4 names. A reference map is updated by the same operations
//       and after EVERY step (a) HasUseCaseSupport of all 24 keys, (b) the decoded reply to a peer's
//       nodeManagementUseCaseData read and (c) the decoded DataCopy of the node management feature are
//       compared with it (set of (address, actor, support) entries; no duplicate and no empty entries).
// conc: every entity is owned by one goroutine that runs its own sequential history; observers call
//       HasUseCaseSupport / DataCopy on all keys and a peer reads nodeManagementUseCaseData in a loop while
//       a cyclic rendezvous / jitter sits at the hook point UseCase.afterCopy. Oracles: final registry =
//       union of the per-entity sequential results; every snapshot is, per entity, one of the prefix states
//       its interval allows; the recorded history is linearizable per (entity, actor, name) against a
//       register model (porcupine); handed-out snapshots do not change afterwards. Plain and -race.

var (
	c20Actors = []model.UseCaseActorType{model.UseCaseActorTypeCEM, model.UseCaseActorTypeMonitoringAppliance}
	c20Names  = []model.UseCaseNameType{model.UseCaseNameTypeLimitationOfPowerConsumption, model.UseCaseNameTypeEVStateOfCharge,
		model.UseCaseNameTypeControlOfBattery, model.UseCaseNameTypeFlexibleLoad}
	c20Versions = []string{"1.0.0", "1.0.1", "1.1.0", "2.0.0"}
	c20SubRevs  = []string{"", "release", "RC1"}
)

const c20NE, c20NA, c20NN = 3, 2, 4

// the three local entities: a nested address on purpose, so that comparing only a prefix of the entity
// address (or only its first element) confuses [1] and [1,1]; all three have the same entity type
var c20EntAddr = [][]uint{{1}, {1, 1}, {2}}

func c20EntName(e int) string { return strings.ReplaceAll(fmt.Sprint(c20EntAddr[e]), " ", ",") }

func init() {
	rig.Register(&rig.Check{
		ID:    "C20",
		Floor: 200,
		Rule: "seq: case = one generated history of 10-30 use-case operations over 3 entities ([1], [1,1], [2]) x 2 actors x 4 names (70% of removes/set-availability address an existing use case, the rest unknown ones; re-adds carry a new version/scenarios), judged after every step; " +
			"non-trivial if it contained an overwrite, a removal of the last use case of an actor and an operation on an unknown use case while at least two entities held use cases. " +
			"conc: case = three per-entity histories of 6-14 operations run by three goroutines plus observers and a reading peer, hook policy (rendezvous of 2 or 3 / jitter at UseCase.afterCopy) from the case PRNG; " +
			"non-trivial if at least one snapshot was taken while a mutator was in flight and every porcupine partition was decided. " +
			"burst: three goroutines run 600 (race: 150) unforced read-modify-write cycles each on their own entity without hooks and look at their own entity's part of the registry after every operation (GOMAXPROCS 8); non-trivial always. distinct = hash of the operation shapes (kinds and shape classes, not versions).",
		Assumptions: []string{
			"'equals the registry' is judged on the set of (entity address, actor, use case name -> version, sub revision, availability, scenario list) entries; the order of entries and of supports is not compared",
			"operations on an entity that is currently not part of the device (after RemoveEntity) still address the registry; the statement does not exclude them",
			"UseCase.afterCopy lies inside the mutex on the current tree: a rendezvous there expires (counted as window_closed) and is never judged",
			"a porcupine verdict Unknown (timeout) makes the case inconclusive",
		},
		Parts: []rig.Part{
			{Name: "seq", Run: c20Seq, Procs: 2, Cases: func(t rig.Tier) int { return map[rig.Tier]int{rig.Quick: 400, rig.Thorough: 8000}[t] }},
			{Name: "conc", Run: c20Conc, Procs: 4, Quiet: 45 * time.Second, Cases: func(t rig.Tier) int { return map[rig.Tier]int{rig.Quick: 200, rig.Thorough: 4000}[t] }},
			{Name: "burst", Run: c20Burst, Procs: 8, Workers: 6, Chunk: 2, Quiet: 60 * time.Second, Cases: func(t rig.Tier) int { return map[rig.Tier]int{rig.Quick: 24, rig.Thorough: 240}[t] }},
			{Name: "burst-race", Race: true, Run: c20Burst, Procs: 8, Workers: 6, Chunk: 2, Quiet: 120 * time.Second, Cases: func(t rig.Tier) int { return map[rig.Tier]int{rig.Quick: 12, rig.Thorough: 60}[t] }},
			{Name: "conc-race", Race: true, Run: c20Conc, Procs: 4, Quiet: 90 * time.Second, Cases: func(t rig.Tier) int { return map[rig.Tier]int{rig.Quick: 64, rig.Thorough: 800}[t] }},
		},
	})
}

// ---------------------------------------------------------------------------
// domain, reference model, decoding

type c20Key struct{ E, A, N int }

func (k c20Key) String() string {
	return fmt.Sprintf("%s/%s/%s", c20EntName(k.E), c20Actors[k.A], c20Names[k.N])
}

// c20Val is comparable (scenarios rendered), so it can serve as porcupine state.
type c20Val struct {
	Present bool
	Ver     string
	Sub     string
	Avail   string // "true" | "false" | "nil"
	Scen    string
}

func (v c20Val) String() string {
	if !v.Present {
		return "absent"
	}
	return fmt.Sprintf("{v=%s sub=%q avail=%s scen=%s}", v.Ver, v.Sub, v.Avail, v.Scen)
}

type c20Op struct {
	Kind  string // add remove setavail removeall removeentity addentity has
	K     c20Key
	Ver   string
	Sub   string
	Avail bool
	Scen  []model.UseCaseScenarioSupportType
	Shape string // shape class relative to the reference state before the operation
}

func (o c20Op) String() string {
	switch o.Kind {
	case "add":
		return fmt.Sprintf("add %s v=%s sub=%q avail=%v scen=%v [%s]", o.K, o.Ver, o.Sub, o.Avail, o.Scen, o.Shape)
	case "setavail":
		return fmt.Sprintf("setavail %s %v [%s]", o.K, o.Avail, o.Shape)
	case "remove", "has":
		return fmt.Sprintf("%s %s [%s]", o.Kind, o.K, o.Shape)
	}
	return fmt.Sprintf("%s %s [%s]", o.Kind, c20EntName(o.K.E), o.Shape)
}

func c20ValOf(o c20Op) c20Val {
	return c20Val{Present: true, Ver: o.Ver, Sub: o.Sub, Avail: fmt.Sprint(o.Avail), Scen: fmt.Sprint(c20ScenList(o.Scen))}
}

func c20ScenList(s []model.UseCaseScenarioSupportType) []uint {
	out := []uint{}
	for _, x := range s {
		out = append(out, uint(x))
	}
	return out
}

type c20Ref map[c20Key]c20Val

func (r c20Ref) clone() c20Ref {
	n := c20Ref{}
	for k, v := range r {
		n[k] = v
	}
	return n
}

// apply updates the reference exactly as the statement describes the operations.
func (r c20Ref) apply(o c20Op) {
	switch o.Kind {
	case "add":
		r[o.K] = c20ValOf(o)
	case "remove":
		delete(r, o.K)
	case "setavail":
		if v, ok := r[o.K]; ok {
			v.Avail = fmt.Sprint(o.Avail)
			r[o.K] = v
		}
	case "removeall", "removeentity":
		for k := range r {
			if k.E == o.K.E {
				delete(r, k)
			}
		}
	}
}

func (r c20Ref) String() string {
	var ks []string
	for k, v := range r {
		ks = append(ks, k.String()+"="+v.String())
	}
	sort.Strings(ks)
	return "{" + strings.Join(ks, "; ") + "}"
}

func (r c20Ref) ofEntity(e int) c20Ref {
	n := c20Ref{}
	for k, v := range r {
		if k.E == e {
			n[k] = v
		}
	}
	return n
}

func c20Equal(a, b c20Ref) bool {
	if len(a) != len(b) {
		return false
	}
	for k, v := range a {
		if w, ok := b[k]; !ok || w != v {
			return false
		}
	}
	return true
}

type c20Snap struct {
	M       c20Ref
	Defects []string // structural deviations: duplicate-entry, empty-entry, duplicate-support, foreign-entry
}

// c20Decode turns use-case data into the set of entries the statement talks about.
func c20Decode(d *model.NodeManagementUseCaseDataType) c20Snap {
	s := c20Snap{M: c20Ref{}}
	if d == nil {
		return s
	}
	seenEA := map[[2]int]bool{}
	for _, it := range d.UseCaseInformation {
		e, a := -1, -1
		if it.Address != nil && it.Address.Device != nil && string(*it.Address.Device) == rig.LocalAddr {
			for i, ea := range c20EntAddr {
				if fmt.Sprint(ea) == fmt.Sprint(it.Address.Entity) {
					e = i
				}
			}
		}
		if it.Actor != nil {
			for i, x := range c20Actors {
				if x == *it.Actor {
					a = i
				}
			}
		}
		if e < 0 || a < 0 {
			s.Defects = append(s.Defects, "foreign-entry")
			continue
		}
		if seenEA[[2]int{e, a}] {
			s.Defects = append(s.Defects, "duplicate-entry")
		}
		seenEA[[2]int{e, a}] = true
		if len(it.UseCaseSupport) == 0 {
			s.Defects = append(s.Defects, "empty-entry")
		}
		for _, us := range it.UseCaseSupport {
			n := -1
			if us.UseCaseName != nil {
				for i, x := range c20Names {
					if x == *us.UseCaseName {
						n = i
					}
				}
			}
			if n < 0 {
				s.Defects = append(s.Defects, "foreign-entry")
				continue
			}
			k := c20Key{e, a, n}
			if _, dup := s.M[k]; dup {
				s.Defects = append(s.Defects, "duplicate-support")
			}
			v := c20Val{Present: true, Avail: "nil", Scen: fmt.Sprint(c20ScenList(us.ScenarioSupport))}
			if us.UseCaseVersion != nil {
				v.Ver = string(*us.UseCaseVersion)
			}
			if us.UseCaseDocumentSubRevision != nil {
				v.Sub = *us.UseCaseDocumentSubRevision
			}
			if us.UseCaseAvailable != nil {
				v.Avail = fmt.Sprint(*us.UseCaseAvailable)
			}
			s.M[k] = v
		}
	}
	return s
}

func c20AllKeys() []c20Key {
	var ks []c20Key
	for e := 0; e < c20NE; e++ {
		for a := 0; a < c20NA; a++ {
			for n := 0; n < c20NN; n++ {
				ks = append(ks, c20Key{e, a, n})
			}
		}
	}
	return ks
}

// ---------------------------------------------------------------------------
// world

type c20World struct {
	c    *rig.Ctx
	w    *rig.World
	ents []*spine.EntityLocal
}

func newC20World(c *rig.Ctx) *c20World {
	cw := &c20World{c: c, w: rig.NewWorld(c.Tag())}
	for e := 0; e < c20NE; e++ {
		cw.ents = append(cw.ents, cw.w.AddEntity(model.EntityTypeTypeCEM, c20EntAddr[e], 4*time.Second))
	}
	return cw
}

func (cw *c20World) addPeer(i int) *rig.Peer {
	p := cw.w.AddPeer(i)
	p.Ctr = uint64(i+1) * 1000000
	p.Announce([]rig.FS{rig.NMFS})
	p.Tap.Take()
	return p
}

// do executes one operation against the stack (under a watchdog); has returns the result.
func (cw *c20World) do(o c20Op) (has bool, panicked string) {
	e := cw.ents[o.K.E]
	a, n := c20Actors[o.K.A], c20Names[o.K.N]
	panicked = eGuard(cw.c, "use case operation "+o.Kind, func() {
		switch o.Kind {
		case "add":
			e.AddUseCaseSupport(a, n, model.SpecificationVersionType(o.Ver), o.Sub, o.Avail, o.Scen)
		case "remove":
			e.RemoveUseCaseSupport(a, n)
		case "setavail":
			e.SetUseCaseAvailability(a, n, o.Avail)
		case "removeall":
			e.RemoveAllUseCaseSupports()
		case "removeentity":
			cw.w.Local.RemoveEntity(e)
		case "addentity":
			cw.w.Local.AddEntity(e)
		case "has":
			has = e.HasUseCaseSupport(a, n)
		}
	})
	return has, panicked
}

// peerRead reads nodeManagementUseCaseData as peer p; the handling is synchronous, so the reply is on
// the tap when Send returns. call/ret bracket the injection.
func (cw *c20World) peerRead(p *rig.Peer) (d *model.NodeManagementUseCaseDataType, call, ret int64, problem string) {
	p.Tap.Take()
	before := p.PanicCount()
	call = rig.Seq()
	mc := p.Send(model.CmdClassifierTypeRead, p.NM(), rig.LNM, false, nil, model.CmdType{NodeManagementUseCaseData: &model.NodeManagementUseCaseDataType{}})
	ret = rig.Seq()
	if p.PanicCount() > before {
		return nil, call, ret, "panic: " + p.Panics[len(p.Panics)-1]
	}
	res := rig.Classify(p.Tap.Take(), mc)
	if res.Replies != 1 || res.Errors != 0 || len(res.All) != 1 || len(res.All[0].Payload.Cmd) != 1 {
		return nil, call, ret, "not answered with exactly one reply: " + res.String() + " " + rig.JS(res.All)
	}
	d = res.All[0].Payload.Cmd[0].NodeManagementUseCaseData
	if d == nil {
		d = &model.NodeManagementUseCaseDataType{}
	}
	return d, call, ret, ""
}

func (cw *c20World) localCopy() *model.NodeManagementUseCaseDataType {
	v := cw.w.Local.NodeManagement().DataCopy(model.FunctionTypeNodeManagementUseCaseData)
	if rig.IsNil(v) {
		return nil
	}
	d, _ := v.(*model.NodeManagementUseCaseDataType)
	return d
}

// ---------------------------------------------------------------------------
// operation generator

func c20GenAdd(r *rand.Rand, k c20Key) c20Op {
	o := c20Op{Kind: "add", K: k, Ver: c20Versions[r.Intn(len(c20Versions))], Sub: c20SubRevs[r.Intn(len(c20SubRevs))], Avail: r.Intn(2) == 0}
	if r.Intn(4) > 0 {
		for s := 1; s <= 5; s++ {
			if r.Intn(2) == 0 {
				o.Scen = append(o.Scen, model.UseCaseScenarioSupportType(s))
			}
		}
	}
	return o
}

func c20RandKey(r *rand.Rand, e int) c20Key {
	if e < 0 {
		e = r.Intn(c20NE)
	}
	return c20Key{e, r.Intn(c20NA), r.Intn(c20NN)}
}

// c20PickKey picks a key of entity e (any entity if e<0) that is present / absent in ref if there is one.
func c20PickKey(r *rand.Rand, ref c20Ref, e int, present bool) (c20Key, bool) {
	var ks []c20Key
	for _, k := range c20AllKeys() {
		if e >= 0 && k.E != e {
			continue
		}
		if _, ok := ref[k]; ok == present {
			ks = append(ks, k)
		}
	}
	if len(ks) == 0 {
		return c20Key{}, false
	}
	return ks[r.Intn(len(ks))], true
}

func c20ActorCount(ref c20Ref, e, a int) int {
	n := 0
	for k := range ref {
		if k.E == e && k.A == a {
			n++
		}
	}
	return n
}

// c20Gen draws the next operation for entity e (any if e<0) given the reference state; withEntityOps
// allows RemoveEntity/AddEntity (sequential part only).
func c20Gen(r *rand.Rand, ref c20Ref, e int, withEntityOps bool, onDevice []bool) c20Op {
	x := r.Intn(100)
	var o c20Op
	switch {
	case x < 40:
		k := c20RandKey(r, e)
		if r.Intn(3) == 0 { // re-add an existing name
			if kk, ok := c20PickKey(r, ref, e, true); ok {
				k = kk
			}
		}
		o = c20GenAdd(r, k)
	case x < 62:
		k, ok := c20PickKey(r, ref, e, r.Intn(10) < 7)
		if !ok {
			k = c20RandKey(r, e)
		}
		// prefer the last use case of an actor now and then
		if r.Intn(3) == 0 {
			for _, kk := range c20AllKeys() {
				if _, in := ref[kk]; in && (e < 0 || kk.E == e) && c20ActorCount(ref, kk.E, kk.A) == 1 {
					k = kk
					break
				}
			}
		}
		o = c20Op{Kind: "remove", K: k}
	case x < 80:
		k, ok := c20PickKey(r, ref, e, r.Intn(10) < 7)
		if !ok {
			k = c20RandKey(r, e)
		}
		o = c20Op{Kind: "setavail", K: k, Avail: r.Intn(2) == 0}
	case x < 88:
		o = c20Op{Kind: "removeall", K: c20RandKey(r, e)}
	case x < 96 || !withEntityOps:
		o = c20Op{Kind: "has", K: c20RandKey(r, e)}
	default:
		k := c20RandKey(r, e)
		if onDevice[k.E] {
			o = c20Op{Kind: "removeentity", K: k}
		} else {
			o = c20Op{Kind: "addentity", K: k}
		}
	}
	o.Shape = c20ShapeOf(o, ref)
	return o
}

func c20ShapeOf(o c20Op, ref c20Ref) string {
	_, in := ref[o.K]
	switch o.Kind {
	case "add":
		switch {
		case in:
			return "add-existing-name"
		case c20ActorCount(ref, o.K.E, o.K.A) == 0:
			return "add-first-of-actor"
		}
		return "add-new-name"
	case "remove":
		switch {
		case !in:
			return "remove-unknown"
		case c20ActorCount(ref, o.K.E, o.K.A) == 1:
			return "remove-last-of-actor"
		}
		return "remove-known"
	case "setavail":
		if !in {
			return "setavail-unknown"
		}
		return "setavail-known"
	case "removeall", "removeentity":
		if len(ref.ofEntity(o.K.E)) == 0 {
			return o.Kind + "-empty"
		}
		return o.Kind
	case "has":
		if in {
			return "has-present"
		}
		return "has-absent"
	}
	return o.Kind
}

// ---------------------------------------------------------------------------
// comparison of an observation with the reference

// c20Compare reports deviations of a decoded snapshot from ref as (deviation, detail) pairs; opE is the
// entity of the operation just executed (-1: none) and is used to name leaks into other entities.
func c20Compare(src string, s c20Snap, ref c20Ref, opE int) (devs [][2]string) {
	for _, d := range s.Defects {
		devs = append(devs, [2]string{src + "-" + d, ""})
	}
	for _, k := range c20AllKeys() {
		want, in := ref[k]
		got, has := s.M[k]
		where := ""
		if opE >= 0 && k.E != opE {
			where = "-of-other-entity"
		}
		switch {
		case in && !has:
			devs = append(devs, [2]string{src + "-missing-entry" + where, fmt.Sprintf("%s: want %s, absent", k, want)})
		case !in && has:
			devs = append(devs, [2]string{src + "-extra-entry" + where, fmt.Sprintf("%s: want absent, got %s", k, got)})
		case in && has && want != got:
			devs = append(devs, [2]string{src + "-value-differs" + where, fmt.Sprintf("%s: want %s got %s", k, want, got)})
		}
	}
	return devs
}

// ---------------------------------------------------------------------------
// sequential part

func c20Seq(c *rig.Ctx) {
	cw := newC20World(c)
	defer cw.w.Close()
	p := cw.addPeer(0)
	r := c.Rand
	ref := c20Ref{}
	onDevice := []bool{true, true, true}
	n := 10 + r.Intn(21)
	var hist, shapes []string
	seenShape := map[string]bool{}
	twoPopulated := false
	fail := func(o c20Op, dev, detail string) {
		c.Violate(o.Shape+"/"+dev, "after step %d: %s\n %s\n reference registry: %s\n history:\n  %s", len(hist), o, detail, ref, strings.Join(hist, "\n  "))
	}
	for i := 0; i < n; i++ {
		o := c20Gen(r, ref, -1, true, onDevice)
		hist = append(hist, o.String())
		shapes = append(shapes, o.Shape)
		seenShape[o.Shape] = true
		c.Seen("op_shapes", o.Shape)
		has, pan := cw.do(o)
		if pan != "" {
			fail(o, "call-panics", pan)
			break
		}
		if o.Kind == "has" {
			_, in := ref[o.K]
			c.Events(1)
			if has != in {
				fail(o, "has-differs", fmt.Sprintf("HasUseCaseSupport(%s) = %v, reference says %v", o.K, has, in))
			}
		}
		ref.apply(o)
		switch o.Kind {
		case "removeentity":
			onDevice[o.K.E] = false
		case "addentity":
			onDevice[o.K.E] = true
		}
		pop := 0
		for e := 0; e < c20NE; e++ {
			if len(ref.ofEntity(e)) > 0 {
				pop++
			}
		}
		if pop >= 2 {
			twoPopulated = true
		}
		opE := o.K.E
		// (a) HasUseCaseSupport for EVERY key of the domain
		for _, k := range c20AllKeys() {
			_, in := ref[k]
			got := cw.ents[k.E].HasUseCaseSupport(c20Actors[k.A], c20Names[k.N])
			c.Events(1)
			if got != in {
				where := ""
				if k.E != opE {
					where = "-of-other-entity"
				}
				dev := "has-true-for-absent"
				if in {
					dev = "has-false-for-present"
				}
				fail(o, dev+where, fmt.Sprintf("HasUseCaseSupport(%s) = %v, reference says %v", k, got, in))
			}
		}
		// (b) what a peer reads
		d, _, _, problem := cw.peerRead(p)
		if problem != "" {
			fail(o, "read-unanswered", problem)
		} else {
			c.Events(int64(len(ref)) + 1)
			for _, dv := range c20Compare("reply", c20Decode(d), ref, opE) {
				fail(o, dv[0], dv[1]+"\n reply: "+rig.JS(d))
			}
		}
		// (c) the stored function data
		lc := cw.localCopy()
		c.Events(1)
		for _, dv := range c20Compare("datacopy", c20Decode(lc), ref, opE) {
			fail(o, dv[0], dv[1]+"\n data: "+rig.JS(lc))
		}
		if c.Failed() {
			c.Witness(map[string]any{"history": hist, "reference": ref.String(), "reply": rig.JS(d), "datacopy": rig.JS(lc)})
			break
		}
	}
	c.Shape(eHash(strings.Join(shapes, ",")))
	c.NonTrivial(seenShape["add-existing-name"] && seenShape["remove-last-of-actor"] && twoPopulated &&
		(seenShape["remove-unknown"] || seenShape["setavail-unknown"]))
	c.Count("seq_steps", int64(len(hist)))
	c.Sample(map[string]any{"history": hist, "final_registry": ref.String()})
}

// ---------------------------------------------------------------------------
// concurrent part

type c20Rec struct {
	Client    int
	Op        c20Op    // for owners and has-observers
	Snap      *c20Snap // for snapshot readers (local copy or peer reply)
	Src       string
	Has       bool
	Call, Ret int64
}

type c20PIn struct {
	Kind string // add remove setavail has read
	Val  c20Val
}

var c20Model = porcupine.Model{
	Init: func() any { return c20Val{} },
	Step: func(state, input, output any) (bool, any) {
		st, in := state.(c20Val), input.(c20PIn)
		switch in.Kind {
		case "add":
			return true, in.Val
		case "remove":
			return true, c20Val{}
		case "setavail":
			if st.Present {
				st.Avail = in.Val.Avail
			}
			return true, st
		case "has":
			return output.(bool) == st.Present, st
		case "read":
			return output.(c20Val) == st, st
		}
		return false, st
	},
	Equal:             func(a, b any) bool { return a.(c20Val) == b.(c20Val) },
	DescribeOperation: func(in, out any) string { return fmt.Sprintf("%v -> %v", in, out) },
}

func c20Conc(c *rig.Ctx) {
	cw := newC20World(c)
	defer cw.w.Close()
	r := c.Rand
	readers := 1 + r.Intn(2)
	var peers []*rig.Peer
	for i := 0; i < readers; i++ {
		peers = append(peers, cw.addPeer(i))
	}

	// sequential prologue so that removals and overwrites have something to work on
	ref0 := c20Ref{}
	var prologue []string
	for i, n := 0, r.Intn(7); i < n; i++ {
		o := c20GenAdd(r, c20RandKey(r, -1))
		o.Shape = c20ShapeOf(o, ref0)
		if _, pan := cw.do(o); pan != "" {
			c.Violate("prologue/call-panics", "%s: %s", o, pan)
			return
		}
		ref0.apply(o)
		prologue = append(prologue, o.String())
	}

	// per-entity histories and their prefix states
	lists := make([][]c20Op, c20NE)
	states := make([][]c20Ref, c20NE) // states[e][k] = entity e's part of the registry after its first k mutators
	var shapes []string
	for e := 0; e < c20NE; e++ {
		cur := ref0.ofEntity(e)
		states[e] = append(states[e], cur.clone())
		for i, n := 0, 6+r.Intn(9); i < n; i++ {
			o := c20Gen(r, cur, e, false, nil)
			lists[e] = append(lists[e], o)
			shapes = append(shapes, o.Shape)
			if o.Kind != "has" {
				cur.apply(o)
				states[e] = append(states[e], cur.clone())
			}
		}
		shapes = append(shapes, "|")
	}

	// hook policy
	h := rig.InstallHooks()
	defer h.Uninstall()
	policy := []string{"rendezvous2", "rendezvous3", "jitter", "rendezvous2+jitter", "none"}[r.Intn(5)]
	var bar *eBarrier
	if strings.HasPrefix(policy, "rendezvous") {
		k := 2
		if policy == "rendezvous3" {
			k = 3
		}
		bar = newEBarrier(k, time.Duration(2+r.Intn(5))*time.Millisecond, 10)
		h.On("UseCase.afterCopy", bar.arrive)
	}
	if strings.Contains(policy, "jitter") {
		h.Jitter("UseCase.afterCopy", r.Int63(), 300*time.Microsecond)
	}
	shapes = append(shapes, policy, fmt.Sprint(readers))

	var mu sync.Mutex
	var recs []c20Rec
	add := func(x c20Rec) { mu.Lock(); recs = append(recs, x); mu.Unlock() }
	type retained struct {
		d  *model.NodeManagementUseCaseDataType
		fp string
	}
	var kept []retained
	var inflight, snapsInFlight int64
	var ownersDone int32
	var wg, rg sync.WaitGroup
	start := make(chan struct{})
	type mutRec struct{ call, ret int64 }
	mutLog := make([][]mutRec, c20NE) // per entity: interval of its k-th mutator (written by its owner only, read after join)

	for e := 0; e < c20NE; e++ {
		wg.Add(1)
		go func(e int) {
			defer wg.Done()
			h.Role(fmt.Sprint("owner", e))
			<-start
			for _, o := range lists[e] {
				if o.Kind != "has" {
					atomic.AddInt64(&inflight, 1)
				}
				call := rig.Seq()
				// the role of the goroutine that enters the stack (eGuard runs the call on its own goroutine)
				has, pan := cw.doAs(h, fmt.Sprint("owner", e), o)
				ret := rig.Seq()
				if o.Kind != "has" {
					atomic.AddInt64(&inflight, -1)
					mutLog[e] = append(mutLog[e], mutRec{call, ret})
				}
				if pan != "" {
					c.Violate("conc/call-panics/"+o.Kind, "%s: %s", o, pan)
				}
				add(c20Rec{Client: e, Op: o, Has: has, Call: call, Ret: ret})
				if o.Kind != "has" {
					// the owner looks at the registry between its own operations: its entity's part must be
					// exactly its own sequential state (nobody else writes there)
					c1 := rig.Seq()
					sn := c20Decode(cw.localCopy())
					c2 := rig.Seq()
					add(c20Rec{Client: e, Snap: &sn, Src: "owner-datacopy", Call: c1, Ret: c2})
				}
			}
		}(e)
	}
	// observers: HasUseCaseSupport on random keys and decoded DataCopy snapshots
	nObs := 1 + r.Intn(2)
	for i := 0; i < nObs; i++ {
		rg.Add(1)
		seed := r.Int63()
		go func(i int) {
			defer rg.Done()
			rr := rand.New(rand.NewSource(seed))
			<-start
			for n := 0; n < 120 && atomic.LoadInt32(&ownersDone) == 0; n++ {
				if rr.Intn(3) > 0 {
					o := c20Op{Kind: "has", K: c20RandKey(rr, -1)}
					call := rig.Seq()
					has, pan := cw.do(o)
					ret := rig.Seq()
					if pan != "" {
						c.Violate("conc/call-panics/has", "%s: %s", o, pan)
					}
					add(c20Rec{Client: 10 + i, Op: o, Has: has, Call: call, Ret: ret})
				} else {
					busy := atomic.LoadInt64(&inflight) > 0
					call := rig.Seq()
					d := cw.localCopy()
					ret := rig.Seq()
					if busy || atomic.LoadInt64(&inflight) > 0 {
						atomic.AddInt64(&snapsInFlight, 1)
					}
					s := c20Decode(d)
					add(c20Rec{Client: 10 + i, Snap: &s, Src: "datacopy", Call: call, Ret: ret})
					if d != nil {
						mu.Lock()
						if len(kept) < 40 {
							kept = append(kept, retained{d, rig.JS(d)})
						}
						mu.Unlock()
					}
				}
				if rr.Intn(2) == 0 {
					runtime.Gosched()
				}
			}
		}(i)
	}
	// peers reading nodeManagementUseCaseData in a loop
	for i, p := range peers {
		rg.Add(1)
		go func(i int, p *rig.Peer) {
			defer rg.Done()
			<-start
			for n := 0; n < 150 && atomic.LoadInt32(&ownersDone) == 0; n++ {
				busy := atomic.LoadInt64(&inflight) > 0
				d, call, ret, problem := cw.peerRead(p)
				if problem != "" {
					c.Violate("conc/read-unanswered", "%s", problem)
					return
				}
				if busy || atomic.LoadInt64(&inflight) > 0 {
					atomic.AddInt64(&snapsInFlight, 1)
				}
				s := c20Decode(d)
				add(c20Rec{Client: 20 + i, Snap: &s, Src: "reply", Call: call, Ret: ret})
				runtime.Gosched()
			}
		}(i, p)
	}
	close(start)
	wg.Wait()
	atomic.StoreInt32(&ownersDone, 1)
	rg.Wait()
	if bar != nil {
		bar.disable()
		f, x := bar.stats()
		c.Count("window_forced", int64(f))
		c.Count("window_closed(rendezvous expired)", int64(x))
	}
	c.Count("hook_hits UseCase.afterCopy", int64(h.Hits("UseCase.afterCopy")))
	c.Seen("hook_orderings", eHash(strings.Join(h.Trace(), ",")))

	render := func() map[string]any {
		var per []any
		for e := 0; e < c20NE; e++ {
			var l []string
			for _, o := range lists[e] {
				l = append(l, o.String())
			}
			per = append(per, l)
		}
		return map[string]any{"prologue": prologue, "per_entity_histories": per, "hook_policy": policy, "readers": readers, "observers": nObs}
	}

	// (1) final registry = union of the per-entity sequential results
	final := c20Ref{}
	for e := 0; e < c20NE; e++ {
		for k, v := range states[e][len(states[e])-1] {
			final[k] = v
		}
	}
	for _, k := range c20AllKeys() {
		_, in := final[k]
		c.Events(1)
		if got := cw.ents[k.E].HasUseCaseSupport(c20Actors[k.A], c20Names[k.N]); got != in {
			c.Violate("conc/final-has-differs-from-union", "HasUseCaseSupport(%s) = %v after all goroutines finished, union of the per-entity results says %v\n expected registry: %s", k, got, in, final)
		}
	}
	if d, _, _, problem := cw.peerRead(peers[0]); problem != "" {
		c.Violate("conc/read-unanswered", "%s", problem)
	} else {
		c.Events(int64(len(final)) + 1)
		for _, dv := range c20Compare("final-reply", c20Decode(d), final, -1) {
			c.Violate("conc/"+dv[0]+"-vs-union", "%s\n expected registry (union of per-entity results): %s\n reply: %s", dv[1], final, rig.JS(d))
		}
	}

	// (2) every snapshot is, per entity, a prefix state allowed by its interval
	snaps := 0
	for _, x := range recs {
		if x.Snap == nil {
			continue
		}
		snaps++
		c.Events(1)
		for _, d := range x.Snap.Defects {
			c.Violate("conc/snapshot-"+d, "%s snapshot taken in [%d,%d] has a %s: %s", x.Src, x.Call, x.Ret, d, x.Snap.M)
		}
		for e := 0; e < c20NE; e++ {
			lo, hi := 0, 0
			for _, m := range mutLog[e] {
				if m.ret < x.Call {
					lo++
				}
				if m.call < x.Ret {
					hi++
				}
			}
			part := x.Snap.M.ofEntity(e)
			ok, anyPrefix := false, -1
			for k := range states[e] {
				if c20Equal(part, states[e][k]) {
					if k >= lo && k <= hi {
						ok = true
					}
					anyPrefix = k
				}
			}
			if !ok {
				dev := "snapshot-not-a-prefix-state"
				if anyPrefix >= 0 {
					dev = "snapshot-stale-or-early-prefix-state"
				}
				c.Violate("conc/"+dev, "%s snapshot [%d,%d]: entity %s part %s is not one of the states after %d..%d of its mutators (matches prefix %d)\n states: %v",
					x.Src, x.Call, x.Ret, c20EntName(e), part, lo, hi, anyPrefix, states[e])
			}
		}
	}
	c.Count("snapshots_judged", int64(snaps))
	c.Count("snapshots_during_mutation", atomic.LoadInt64(&snapsInFlight))

	// (3) linearizability per (entity, actor, name) against a register
	undecided := 0
	for _, k := range c20AllKeys() {
		var ops []porcupine.Operation
		if v, ok := ref0[k]; ok { // the prologue state enters as a completed add
			ops = append(ops, porcupine.Operation{ClientId: 99, Input: c20PIn{Kind: "add", Val: v}, Call: -2, Return: -1})
		}
		perClientSnaps := map[int]int{}
		for _, x := range recs {
			switch {
			case x.Snap != nil:
				if perClientSnaps[x.Client] >= 40 {
					continue
				}
				perClientSnaps[x.Client]++
				ops = append(ops, porcupine.Operation{ClientId: x.Client, Input: c20PIn{Kind: "read"}, Output: x.Snap.M[k], Call: x.Call, Return: x.Ret})
			case x.Op.Kind == "removeall" && x.Op.K.E == k.E:
				ops = append(ops, porcupine.Operation{ClientId: x.Client, Input: c20PIn{Kind: "remove"}, Call: x.Call, Return: x.Ret})
			case x.Op.Kind == "removeall" || x.Op.K != k:
			case x.Op.Kind == "add":
				ops = append(ops, porcupine.Operation{ClientId: x.Client, Input: c20PIn{Kind: "add", Val: c20ValOf(x.Op)}, Call: x.Call, Return: x.Ret})
			case x.Op.Kind == "remove":
				ops = append(ops, porcupine.Operation{ClientId: x.Client, Input: c20PIn{Kind: "remove"}, Call: x.Call, Return: x.Ret})
			case x.Op.Kind == "setavail":
				ops = append(ops, porcupine.Operation{ClientId: x.Client, Input: c20PIn{Kind: "setavail", Val: c20Val{Avail: fmt.Sprint(x.Op.Avail)}}, Call: x.Call, Return: x.Ret})
			case x.Op.Kind == "has":
				ops = append(ops, porcupine.Operation{ClientId: x.Client, Input: c20PIn{Kind: "has"}, Output: x.Has, Call: x.Call, Return: x.Ret})
			}
		}
		res := porcupine.CheckOperationsTimeout(c20Model, ops, 20*time.Second)
		c.Count("porcupine_"+string(res), 1)
		c.Events(int64(len(ops)))
		switch res {
		case porcupine.Illegal:
			var l []string
			for _, o := range ops {
				l = append(l, fmt.Sprintf("c%d [%d,%d] %v -> %v", o.ClientId, o.Call, o.Return, o.Input, o.Output))
			}
			c.Violate("conc/not-linearizable", "history of %s is not linearizable against a register:\n %s", k, strings.Join(l, "\n "))
		case porcupine.Unknown:
			undecided++
		}
	}
	if undecided > 0 {
		c.Inconclusive("porcupine could not decide %d partitions within 20s", undecided)
	}

	// (4) snapshots handed out earlier did not change
	for _, kp := range kept {
		c.Events(1)
		if now := rig.JS(kp.d); now != kp.fp {
			c.Violate("conc/handed-out-snapshot-changed", "a DataCopy result changed after it was handed out:\n then: %s\n now:  %s", kp.fp, now)
		}
	}
	c.Count("retained_snapshots", int64(len(kept)))

	if c.Failed() {
		c.Witness(render())
	}
	c.Shape(eHash(strings.Join(shapes, ",")))
	c.NonTrivial(atomic.LoadInt64(&snapsInFlight) > 0 && undecided == 0)
	c.Seen("hook_policies", policy)
	c.Sample(render())
}

// doAs is do with the hook role of the executing goroutine set (eGuard runs the call on its own goroutine).
func (cw *c20World) doAs(h *rig.Hooks, role string, o c20Op) (bool, string) {
	e := cw.ents[o.K.E]
	a, n := c20Actors[o.K.A], c20Names[o.K.N]
	var has bool
	pan := eGuard(cw.c, "use case operation "+o.Kind, func() {
		h.Role(role)
		switch o.Kind {
		case "add":
			e.AddUseCaseSupport(a, n, model.SpecificationVersionType(o.Ver), o.Sub, o.Avail, o.Scen)
		case "remove":
			e.RemoveUseCaseSupport(a, n)
		case "setavail":
			e.SetUseCaseAvailability(a, n, o.Avail)
		case "removeall":
			e.RemoveAllUseCaseSupports()
		case "has":
			has = e.HasUseCaseSupport(a, n)
		}
	})
	return has, pan
}

// ---------------------------------------------------------------------------
// burst: many unforced concurrent read-modify-write cycles on disjoint entities

// c20Burst aims at windows that no hook point opens (e.g. a store that slipped out of the critical
// section): three owners hammer their own entities; after EVERY operation the owner compares its entity's
// part of the stored data with its own sequential state, and at the end the registry must be the union.
func c20Burst(c *rig.Ctx) {
	cw := newC20World(c)
	defer cw.w.Close()
	p := cw.addPeer(0)
	r := c.Rand
	n := 600
	if c.Race {
		n = 150
	}
	if c.Thorough() {
		n *= 2
	}
	lists := make([][]c20Op, c20NE)
	states := make([][]c20Ref, c20NE)
	kinds := map[string]int{}
	for e := 0; e < c20NE; e++ {
		cur := c20Ref{}
		states[e] = append(states[e], cur.clone())
		for len(lists[e]) < n {
			o := c20Gen(r, cur, e, false, nil)
			if o.Kind == "has" || (o.Kind == "removeall" && r.Intn(4) > 0) {
				continue
			}
			lists[e] = append(lists[e], o)
			kinds[o.Shape]++
			cur.apply(o)
			states[e] = append(states[e], cur.clone())
		}
	}
	type deviation struct {
		e, k      int
		op        c20Op
		want, got string
	}
	var mu sync.Mutex
	var devs []deviation
	var wg sync.WaitGroup
	start := make(chan struct{})
	var judged int64
	for e := 0; e < c20NE; e++ {
		wg.Add(1)
		go func(e int) {
			defer wg.Done()
			<-start
			pan := eGuard(c, "burst of use case operations", func() {
				ent := cw.ents[e]
				bad := 0
				for k, o := range lists[e] {
					a, nm := c20Actors[o.K.A], c20Names[o.K.N]
					switch o.Kind {
					case "add":
						ent.AddUseCaseSupport(a, nm, model.SpecificationVersionType(o.Ver), o.Sub, o.Avail, o.Scen)
					case "remove":
						ent.RemoveUseCaseSupport(a, nm)
					case "setavail":
						ent.SetUseCaseAvailability(a, nm, o.Avail)
					case "removeall":
						ent.RemoveAllUseCaseSupports()
					}
					part := c20Decode(cw.localCopy()).M.ofEntity(e)
					atomic.AddInt64(&judged, 1)
					if !c20Equal(part, states[e][k+1]) {
						mu.Lock()
						devs = append(devs, deviation{e, k, o, states[e][k+1].String(), part.String()})
						mu.Unlock()
						if bad++; bad >= 3 {
							return
						}
					}
				}
			})
			if pan != "" {
				c.Violate("burst/call-panics", "%s", pan)
			}
		}(e)
	}
	close(start)
	wg.Wait()
	c.Events(atomic.LoadInt64(&judged))
	c.Count("burst_operations", atomic.LoadInt64(&judged))
	for i, d := range devs {
		if i >= 3 {
			break
		}
		c.Violate("burst/own-entity-differs-from-own-sequential-state", "entity %s after its operation #%d (%s), while the other two entities were modified concurrently:\n want %s\n got  %s", c20EntName(d.e), d.k, d.op, d.want, d.got)
	}
	final := c20Ref{}
	for e := 0; e < c20NE; e++ {
		for k, v := range states[e][len(states[e])-1] {
			final[k] = v
		}
	}
	for _, k := range c20AllKeys() {
		_, in := final[k]
		c.Events(1)
		if got := cw.ents[k.E].HasUseCaseSupport(c20Actors[k.A], c20Names[k.N]); got != in {
			c.Violate("burst/final-has-differs-from-union", "HasUseCaseSupport(%s) = %v after all goroutines finished, union of the per-entity results says %v", k, got, in)
		}
	}
	if d, _, _, problem := cw.peerRead(p); problem != "" {
		c.Violate("burst/read-unanswered", "%s", problem)
	} else {
		c.Events(int64(len(final)) + 1)
		for _, dv := range c20Compare("final-reply", c20Decode(d), final, -1) {
			c.Violate("burst/"+dv[0]+"-vs-union", "%s\n expected registry (union of per-entity results): %s\n reply: %s", dv[1], final, rig.JS(d))
		}
	}
	var ks []string
	for k, v := range kinds {
		ks = append(ks, fmt.Sprintf("%s:%d", k, v))
	}
	sort.Strings(ks)
	if c.Failed() {
		c.Witness(map[string]any{"operations_per_entity": n, "deviations": len(devs), "shapes": ks})
	}
	c.Shape(eHash(strings.Join(ks, ",")))
	c.NonTrivial(true)
	c.Sample(map[string]any{"operations_per_entity": n, "shapes": ks, "final_registry": final.String()})
}
