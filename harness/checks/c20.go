package checks

import (
	"fmt"
	"math/rand"
	"runtime"
	"sort"
	"strings"
	"sync"
	"sync/atomic"
	"time"

	"github.com/anishathalye/porcupine"
	"github.com/enbility/spine-go/model"
	"github.com/enbility/spine-go/spine"

	"verifharness/rig"
)

// C20 — the use-case registry reflects exactly what the application declared.
//
// seq:  one World with three local entities and one peer; a generated history of AddUseCaseSupport /
//       RemoveUseCaseSupport / SetUseCaseAvailability / RemoveAllUseCaseSupports / DeviceLocal.RemoveEntity /
//       AddEntity over 3 entities x 2 actors x 4 names. A reference map is updated by the same operations
//       and after EVERY step (a) HasUseCaseSupport of all 24 keys, (b) the decoded reply to a peer's
//       nodeManagementUseCaseData read and (c) the decoded DataCopy of the node management feature are
//       compared with it (set of (address, actor, support) entries; no duplicate and no empty entries).
// conc: every entity is owned by one goroutine that runs its own sequential history; observers call
//       HasUseCaseSupport / DataCopy on all keys and a peer reads nodeManagementUseCaseData in a loop while
//       a cyclic rendezvous / jitter sits at the hook point UseCase.afterCopy. Oracles: final registry =
//       union of the per-entity sequential results; every snapshot is, per entity, one of the prefix states
//       its interval allows; the recorded history is linearizable per (entity, actor, name) against a
//       register model (porcupine); handed-out snapshots do not change afterwards. Plain and -race.
//
// Strengthening after the coverage audit (notes/audit/audit_C18C19C20.md):
//   * "scenarios last given": every scenarios slice handed to AddUseCaseSupport is a buffer of the harness
//     that is overwritten after the call returned (seq and prologue: at once; concurrent parts: after the
//     goroutines were joined, so that the harness never races with the stack); the reference keeps a private
//     copy. The overwrite adds c20Scribble to every element, so a registry that still refers to the caller's
//     buffer is recognised (and reported under ONE signature, c20SigAlias) while all other oracles keep
//     judging the restored values.
//   * one owner of the concurrent parts also removes and re-adds its entity (DeviceLocal.RemoveEntity/AddEntity).
//   * one entity of the concurrent parts is split between two owners by actor (no removeall there): operations
//     on different (actor, name) keys commute, so the union expectation and the prefix-state oracle hold per
//     ownership unit.
//   * a third of the sequential histories contain no read at all between judged steps (every 3rd-5th step),
//     and the order of the three observations of a judged step is drawn per case.
//   * one peer subscribes to node management and never reads: the use-case data of the last notification
//     it received after an operation must be the registry.
//   * burst: while the owners work, two more goroutines add and remove FRESH entities that never declare a use case
//     (DeviceLocal.AddEntity/RemoveEntity of [10] and [11]: the dynamically appearing EV). Entity management of another
//     entity is no use-case operation: all expectations (own part after every operation, union at the end) stay as they are.
//   * wave 7: the ARGUMENTS of a declaration are no longer pinned to tidy values. The scenario list used to be an
//     ascending subset of 1..5, for which any "normalisation" inside the stack (sort, de-duplicate, cap, reverse,
//     first-n) is the identity; now it is also unordered / descending / with repeated numbers / empty-non-nil /
//     with numbers beyond 5 (c20GenScen, classes measured by c20ScenClass and counted), and version / sub revision
//     are now and then spelled unusually. The oracle already compared the list element by element in order.

var (
	c20Actors = []model.UseCaseActorType{model.UseCaseActorTypeCEM, model.UseCaseActorTypeMonitoringAppliance}
	c20Names  = []model.UseCaseNameType{model.UseCaseNameTypeLimitationOfPowerConsumption, model.UseCaseNameTypeEVStateOfCharge,
		model.UseCaseNameTypeControlOfBattery, model.UseCaseNameTypeFlexibleLoad}
	c20Versions = []string{"1.0.0", "1.0.1", "1.1.0", "2.0.0"}
	c20SubRevs  = []string{"", "release", "RC1"}
)

const c20NE, c20NA, c20NN = 3, 2, 4

// the three local entities: a nested address on purpose, so that comparing only a prefix of the entity
// address (or only its first element) confuses [1] and [1,1]; all three have the same entity type
var c20EntAddr = [][]uint{{1}, {1, 1}, {2}}

func c20EntName(e int) string { return strings.ReplaceAll(fmt.Sprint(c20EntAddr[e]), " ", ",") }

func init() {
	rig.Register(&rig.Check{
		ID:    "C20",
		Floor: 200,
		Rule: "seq: case = one generated history of 10-30 use-case operations over 3 entities ([1], [1,1], [2]) x 2 actors x 4 names (70% of removes/set-availability address an existing use case, the rest unknown ones; re-adds carry a new version/scenarios; the scenario list of a declaration is nil, empty, ascending and unique, in any order, descending, or contains numbers more than once - classes counted as add_scenarios_* - and a quarter of the declarations spell version / sub revision unusually), judged after every step (a third of the cases: only after every 3rd-5th step and at the end, with no read in between; the scenarios buffer of every add is overwritten after the call); " +
			"non-trivial if it contained an overwrite, a removal of the last use case of an actor and an operation on an unknown use case while at least two entities held use cases. " +
			"conc: case = per-owner histories of 6-14 operations run by three or (one entity split by actor, 60% of the cases) four goroutines, one of which may remove/re-add its entity, plus observers, a reading peer and a subscribed peer, hook policy (rendezvous of 2 or 3 / jitter at UseCase.afterCopy) from the case PRNG; " +
			"non-trivial if at least one snapshot was taken while a mutator was in flight and every porcupine partition was decided. " +
			"burst: four goroutines (two entities and the two actors of the third; one entity owner also removes/re-adds its entity) run 400 (race: 100) unforced read-modify-write cycles each without hooks (every third case with a subscribed peer) and look at their own part of the registry after every operation (GOMAXPROCS 8), while two further goroutines keep adding and removing fresh entities without use cases ([10], [11]) until the owners are done; non-trivial always. distinct = hash of the operation shapes (kinds and shape classes, not versions).",
		Assumptions: []string{
			"'equals the registry' is judged on the set of (entity address, actor, use case name -> version, sub revision, availability, scenario list) entries; the order of entries and of supports is not compared",
			"'the scenarios last given' is the LIST the application passed: same numbers, same order, same multiplicity (a list that is not ascending or names a scenario twice is a legal argument of AddUseCaseSupport; a nil and an empty list are not distinguished); version and sub revision are compared as the strings that were passed",
			"operations on an entity that is currently not part of the device (after RemoveEntity) still address the registry; the statement does not exclude them",
			"UseCase.afterCopy lies inside the mutex on the current tree: a rendezvous there expires (counted as window_closed) and is never judged",
			"a porcupine verdict Unknown (timeout) makes the case inconclusive",
			"'scenarios last given' means the values the slice had when AddUseCaseSupport was called: what the application does with its slice after the call returned must not show in the registry (signature " + c20SigAlias + ")",
			"an entity that is modified by two goroutines is split by actor and neither of them calls RemoveAllUseCaseSupports / RemoveEntity on it: operations on different (actor, name) keys commute, so the expectation stays the union of the owners' sequential results",
			"DeviceLocal.AddEntity/RemoveEntity of an entity that never declared a use case is not one of the statement's operations and leaves the registry of every other entity as it is ('operations on one entity never affect another entity's use cases'); the number of such cycles that overlap the owners' bursts depends on the scheduler (counted as burst_fresh_entities_added_and_removed_meanwhile), the expectation does not",
			"the use-case data a subscribed peer is sent with a notification counts as 'data a peer reads from node management': the last notification that an operation produced must carry the registry (no notification at all is not judged here)",
		},
		Parts: []rig.Part{
			{Name: "seq", Run: c20Seq, Procs: 2, Cases: func(t rig.Tier) int { return map[rig.Tier]int{rig.Quick: 400, rig.Thorough: 8000}[t] }},
			{Name: "conc", Run: c20Conc, Procs: 4, Quiet: 45 * time.Second, Cases: func(t rig.Tier) int { return map[rig.Tier]int{rig.Quick: 200, rig.Thorough: 4000}[t] }},
			{Name: "burst", Run: c20Burst, Procs: 8, Workers: 6, Chunk: 2, Quiet: 60 * time.Second, Cases: func(t rig.Tier) int { return map[rig.Tier]int{rig.Quick: 24, rig.Thorough: 240}[t] }},
			{Name: "burst-race", Race: true, Run: c20Burst, Procs: 8, Workers: 6, Chunk: 2, Quiet: 120 * time.Second, Cases: func(t rig.Tier) int { return map[rig.Tier]int{rig.Quick: 12, rig.Thorough: 60}[t] }},
			{Name: "conc-race", Race: true, Run: c20Conc, Procs: 4, Quiet: 90 * time.Second, Cases: func(t rig.Tier) int { return map[rig.Tier]int{rig.Quick: 64, rig.Thorough: 800}[t] }},
		},
	})
}

// ---------------------------------------------------------------------------
// domain, reference model, decoding

type c20Key struct{ E, A, N int }

func (k c20Key) String() string {
	return fmt.Sprintf("%s/%s/%s", c20EntName(k.E), c20Actors[k.A], c20Names[k.N])
}

// c20Val is comparable (scenarios rendered), so it can serve as porcupine state.
type c20Val struct {
	Present bool
	Ver     string
	Sub     string
	Avail   string // "true" | "false" | "nil"
	Scen    string
}

func (v c20Val) String() string {
	if !v.Present {
		return "absent"
	}
	return fmt.Sprintf("{v=%s sub=%q avail=%s scen=%s}", v.Ver, v.Sub, v.Avail, v.Scen)
}

type c20Op struct {
	Kind  string // add remove setavail removeall removeentity addentity has
	K     c20Key
	Ver   string
	Sub   string
	Avail bool
	Scen  []model.UseCaseScenarioSupportType
	Shape string // shape class relative to the reference state before the operation
}

func (o c20Op) String() string {
	switch o.Kind {
	case "add":
		return fmt.Sprintf("add %s v=%s sub=%q avail=%v scen=%v [%s]", o.K, o.Ver, o.Sub, o.Avail, o.Scen, o.Shape)
	case "setavail":
		return fmt.Sprintf("setavail %s %v [%s]", o.K, o.Avail, o.Shape)
	case "remove", "has":
		return fmt.Sprintf("%s %s [%s]", o.Kind, o.K, o.Shape)
	}
	return fmt.Sprintf("%s %s [%s]", o.Kind, c20EntName(o.K.E), o.Shape)
}

func c20ValOf(o c20Op) c20Val {
	return c20Val{Present: true, Ver: o.Ver, Sub: o.Sub, Avail: fmt.Sprint(o.Avail), Scen: fmt.Sprint(c20ScenList(o.Scen))}
}

func c20ScenList(s []model.UseCaseScenarioSupportType) []uint {
	out := []uint{}
	for _, x := range s {
		out = append(out, uint(x))
	}
	return out
}

type c20Ref map[c20Key]c20Val

func (r c20Ref) clone() c20Ref {
	n := c20Ref{}
	for k, v := range r {
		n[k] = v
	}
	return n
}

// apply updates the reference exactly as the statement describes the operations.
func (r c20Ref) apply(o c20Op) {
	switch o.Kind {
	case "add":
		r[o.K] = c20ValOf(o)
	case "remove":
		delete(r, o.K)
	case "setavail":
		if v, ok := r[o.K]; ok {
			v.Avail = fmt.Sprint(o.Avail)
			r[o.K] = v
		}
	case "removeall", "removeentity":
		for k := range r {
			if k.E == o.K.E {
				delete(r, k)
			}
		}
	}
}

func (r c20Ref) String() string {
	var ks []string
	for k, v := range r {
		ks = append(ks, k.String()+"="+v.String())
	}
	sort.Strings(ks)
	return "{" + strings.Join(ks, "; ") + "}"
}

func (r c20Ref) ofEntity(e int) c20Ref {
	n := c20Ref{}
	for k, v := range r {
		if k.E == e {
			n[k] = v
		}
	}
	return n
}

func c20Equal(a, b c20Ref) bool {
	if len(a) != len(b) {
		return false
	}
	for k, v := range a {
		if w, ok := b[k]; !ok || w != v {
			return false
		}
	}
	return true
}

type c20Snap struct {
	M       c20Ref
	Defects []string // structural deviations: duplicate-entry, empty-entry, duplicate-support, foreign-entry
	Aliased []string // keys whose scenario list shows the harness's overwrite of the slice it had passed
}

// c20Scribble is added to every element of a scenarios slice once the AddUseCaseSupport call it was passed to
// has returned (the generator only draws scenarios 1..5). c20Decode recognises such elements, notes the key
// in Aliased and restores the value that was given, so that the other oracles keep judging everything else.
const c20Scribble = 100

// c20SigAlias is the one signature under which "the registry refers to the caller's scenarios slice" is
// reported, whatever part, operation shape or observation path shows it.
const c20SigAlias = "add/stored-scenarios-alias-the-callers-slice"

func c20ScenBuf(o c20Op) []model.UseCaseScenarioSupportType {
	if o.Scen == nil {
		return nil
	}
	return append([]model.UseCaseScenarioSupportType{}, o.Scen...)
}

func c20ScribbleBuf(b []model.UseCaseScenarioSupportType) {
	for i := range b {
		b[i] += c20Scribble
	}
}

// c20Unit is what one owner goroutine of the concurrent parts owns: an entity (A<0) or, when the entity is
// split between two owners, one actor of it.
type c20Unit struct{ E, A int }

func (u c20Unit) owns(k c20Key) bool { return k.E == u.E && (u.A < 0 || k.A == u.A) }

func (u c20Unit) String() string {
	if u.A < 0 {
		return c20EntName(u.E)
	}
	return c20EntName(u.E) + "/" + string(c20Actors[u.A])
}

func (r c20Ref) ofUnit(u c20Unit) c20Ref {
	n := c20Ref{}
	for k, v := range r {
		if u.owns(k) {
			n[k] = v
		}
	}
	return n
}

// c20Units: one owner per entity; with split >= 0 that entity gets one owner per actor.
func c20Units(split int) []c20Unit {
	var us []c20Unit
	for e := 0; e < c20NE; e++ {
		if e == split {
			for a := 0; a < c20NA; a++ {
				us = append(us, c20Unit{e, a})
			}
			continue
		}
		us = append(us, c20Unit{e, -1})
	}
	return us
}

// c20GenUnit draws the next operation of the owner of unit u given the unit's part of the reference. The
// owner of a split entity only touches its own actor and never clears the whole entity; a lifecycle owner
// (onDev != nil, whole entity only) removes or re-adds its entity in pct percent of its operations.
func c20GenUnit(r *rand.Rand, cur c20Ref, u c20Unit, onDev *bool, pct int) c20Op {
	if onDev != nil && u.A < 0 && r.Intn(100) < pct {
		o := c20Op{Kind: "addentity", K: c20Key{E: u.E}}
		if *onDev {
			o.Kind = "removeentity"
		}
		*onDev = !*onDev
		o.Shape = c20ShapeOf(o, cur)
		return o
	}
	for {
		o := c20Gen(r, cur, u.E, false, nil)
		if u.A >= 0 && (o.K.A != u.A || o.Kind == "removeall") {
			continue
		}
		return o
	}
}

// c20Decode turns use-case data into the set of entries the statement talks about.
func c20Decode(d *model.NodeManagementUseCaseDataType) c20Snap {
	s := c20Snap{M: c20Ref{}}
	if d == nil {
		return s
	}
	seenEA := map[[2]int]bool{}
	for _, it := range d.UseCaseInformation {
		e, a := -1, -1
		if it.Address != nil && it.Address.Device != nil && string(*it.Address.Device) == rig.LocalAddr {
			for i, ea := range c20EntAddr {
				if fmt.Sprint(ea) == fmt.Sprint(it.Address.Entity) {
					e = i
				}
			}
		}
		if it.Actor != nil {
			for i, x := range c20Actors {
				if x == *it.Actor {
					a = i
				}
			}
		}
		if e < 0 || a < 0 {
			s.Defects = append(s.Defects, "foreign-entry")
			continue
		}
		if seenEA[[2]int{e, a}] {
			s.Defects = append(s.Defects, "duplicate-entry")
		}
		seenEA[[2]int{e, a}] = true
		if len(it.UseCaseSupport) == 0 {
			s.Defects = append(s.Defects, "empty-entry")
		}
		for _, us := range it.UseCaseSupport {
			n := -1
			if us.UseCaseName != nil {
				for i, x := range c20Names {
					if x == *us.UseCaseName {
						n = i
					}
				}
			}
			if n < 0 {
				s.Defects = append(s.Defects, "foreign-entry")
				continue
			}
			k := c20Key{e, a, n}
			if _, dup := s.M[k]; dup {
				s.Defects = append(s.Defects, "duplicate-support")
			}
			scen, aliased := []uint{}, false
			for _, x := range us.ScenarioSupport {
				if x >= c20Scribble {
					aliased = true
					x -= c20Scribble
				}
				scen = append(scen, uint(x))
			}
			if aliased {
				s.Aliased = append(s.Aliased, k.String())
			}
			v := c20Val{Present: true, Avail: "nil", Scen: fmt.Sprint(scen)}
			if us.UseCaseVersion != nil {
				v.Ver = string(*us.UseCaseVersion)
			}
			if us.UseCaseDocumentSubRevision != nil {
				v.Sub = *us.UseCaseDocumentSubRevision
			}
			if us.UseCaseAvailable != nil {
				v.Avail = fmt.Sprint(*us.UseCaseAvailable)
			}
			s.M[k] = v
		}
	}
	return s
}

func c20AllKeys() []c20Key {
	var ks []c20Key
	for e := 0; e < c20NE; e++ {
		for a := 0; a < c20NA; a++ {
			for n := 0; n < c20NN; n++ {
				ks = append(ks, c20Key{e, a, n})
			}
		}
	}
	return ks
}

// ---------------------------------------------------------------------------
// world

type c20World struct {
	c    *rig.Ctx
	w    *rig.World
	ents []*spine.EntityLocal

	// the scenarios buffers handed to AddUseCaseSupport are overwritten after the call: at once, or (concurrent
	// phases, so that the harness never writes memory another goroutine may be reading) when scribbleDeferred is called
	bmu          sync.Mutex
	deferBufs    bool
	bufs         [][]model.UseCaseScenarioSupportType
	scribbledOps int64
}

// call executes one mutating or reading operation against the stack on the calling goroutine.
func (cw *c20World) call(o c20Op) (has bool) {
	e := cw.ents[o.K.E]
	a, n := c20Actors[o.K.A], c20Names[o.K.N]
	switch o.Kind {
	case "add":
		buf := c20ScenBuf(o)
		// evidence for the input dimension "shape of the declared scenario list" / "spelling of version and sub revision"
		cw.c.Count("add_scenarios_"+c20ScenClass(o.Scen), 1)
		if cl := c20ScenClass(o.Scen); cl != "nil" && cl != "empty-non-nil" && cl != "single" && cl != "ascending-unique" {
			cw.c.Count("adds_with_a_scenario_list_that_is_not_ascending_and_unique", 1)
		}
		if c20IsOdd(o.Ver, c20OddVersions) || c20IsOdd(o.Sub, c20OddSubRevs) {
			cw.c.Count("adds_with_unusual_version_or_subrevision_spelling", 1)
		}
		e.AddUseCaseSupport(a, n, model.SpecificationVersionType(o.Ver), o.Sub, o.Avail, buf)
		// the application reuses its buffer; the reference keeps o.Scen
		cw.bmu.Lock()
		if len(buf) > 0 {
			cw.scribbledOps++
		}
		if cw.deferBufs {
			cw.bufs = append(cw.bufs, buf)
		} else {
			c20ScribbleBuf(buf)
		}
		cw.bmu.Unlock()
	case "remove":
		e.RemoveUseCaseSupport(a, n)
	case "setavail":
		e.SetUseCaseAvailability(a, n, o.Avail)
	case "removeall":
		e.RemoveAllUseCaseSupports()
	case "removeentity":
		cw.w.Local.RemoveEntity(e)
	case "addentity":
		cw.w.Local.AddEntity(e)
	case "has":
		has = e.HasUseCaseSupport(a, n)
	}
	return has
}

// setDefer switches between overwriting at once and collecting the buffers.
func (cw *c20World) setDefer(on bool) { cw.bmu.Lock(); cw.deferBufs = on; cw.bmu.Unlock() }

// scribbleDeferred overwrites all collected buffers; call it only when no other goroutine runs.
func (cw *c20World) scribbleDeferred() {
	cw.bmu.Lock()
	defer cw.bmu.Unlock()
	for _, b := range cw.bufs {
		c20ScribbleBuf(b)
	}
	cw.bufs = nil
}

// reportAlias raises the one violation for a registry that refers to a slice of the application.
func (cw *c20World) reportAlias(src string, s c20Snap, data any, history any) {
	if len(s.Aliased) == 0 {
		return
	}
	cw.c.Violate(c20SigAlias, "%s shows scenario values that were never given: after AddUseCaseSupport returned, the harness added %d to every element of the scenarios slice IT had passed (an application reusing its buffer); "+
		"the statement says the use case is reported with the scenarios last given.\n affected: %v\n %s: %s\n history: %v",
		src, c20Scribble, s.Aliased, src, rig.JS(data), history)
}

func newC20World(c *rig.Ctx) *c20World {
	cw := &c20World{c: c, w: rig.NewWorld(c.Tag())}
	for e := 0; e < c20NE; e++ {
		cw.ents = append(cw.ents, cw.w.AddEntity(model.EntityTypeTypeCEM, c20EntAddr[e], 4*time.Second))
	}
	return cw
}

func (cw *c20World) addPeer(i int) *rig.Peer {
	p := cw.w.AddPeer(i)
	p.Ctr = uint64(i+1) * 1000000
	p.Announce([]rig.FS{rig.NMFS})
	p.Tap.Take()
	return p
}

// do executes one operation against the stack (under a watchdog); has returns the result.
func (cw *c20World) do(o c20Op) (has bool, panicked string) {
	panicked = eGuard(cw.c, "use case operation "+o.Kind, func() { has = cw.call(o) })
	return has, panicked
}

// peerRead reads nodeManagementUseCaseData as peer p; the handling is synchronous, so the reply is on
// the tap when Send returns. call/ret bracket the injection.
func (cw *c20World) peerRead(p *rig.Peer) (d *model.NodeManagementUseCaseDataType, call, ret int64, problem string) {
	p.Tap.Take()
	before := p.PanicCount()
	call = rig.Seq()
	mc := p.Send(model.CmdClassifierTypeRead, p.NM(), rig.LNM, false, nil, model.CmdType{NodeManagementUseCaseData: &model.NodeManagementUseCaseDataType{}})
	ret = rig.Seq()
	if p.PanicCount() > before {
		return nil, call, ret, "panic: " + p.Panics[len(p.Panics)-1]
	}
	res := rig.Classify(p.Tap.Take(), mc)
	if res.Replies != 1 || res.Errors != 0 || len(res.All) != 1 || len(res.All[0].Payload.Cmd) != 1 {
		return nil, call, ret, "not answered with exactly one reply: " + res.String() + " " + rig.JS(res.All)
	}
	d = res.All[0].Payload.Cmd[0].NodeManagementUseCaseData
	if d == nil {
		d = &model.NodeManagementUseCaseDataType{}
	}
	return d, call, ret, ""
}

func (cw *c20World) localCopy() *model.NodeManagementUseCaseDataType {
	v := cw.w.Local.NodeManagement().DataCopy(model.FunctionTypeNodeManagementUseCaseData)
	if rig.IsNil(v) {
		return nil
	}
	d, _ := v.(*model.NodeManagementUseCaseDataType)
	return d
}

// ---------------------------------------------------------------------------
// operation generator

func c20GenAdd(r *rand.Rand, k c20Key) c20Op {
	o := c20Op{Kind: "add", K: k, Ver: c20Versions[r.Intn(len(c20Versions))], Sub: c20SubRevs[r.Intn(len(c20SubRevs))], Avail: r.Intn(2) == 0}
	// every fourth declaration spells version / sub revision the way no specification does: the registry is
	// a registry of what was DECLARED, not of what a tidy application would have declared
	if r.Intn(4) == 0 {
		o.Ver = c20OddVersions[r.Intn(len(c20OddVersions))]
	}
	if r.Intn(4) == 0 {
		o.Sub = c20OddSubRevs[r.Intn(len(c20OddSubRevs))]
	}
	o.Scen = c20GenScen(r)
	return o
}

// unusual but legal spellings (SpecificationVersionType and the sub revision are free strings)
var (
	c20OddVersions = []string{"1.0", "01.00.00", "2.0.0 ", "V1.1.0", "1.0.0-rc2", "10.2.1"}
	c20OddSubRevs  = []string{"Release", "rc1", " RC1", "release candidate 2"}
)

// c20GenScen draws the scenario list of a declaration. The statement says "with the ... scenarios ... last
// given": the list is the application's, so besides the tidy lists of the specifications (ascending, every
// number once) the generator hands over what applications really build - lists collected module by module
// (any order, the mandatory scenario last), lists in which a number occurs more than once, descending lists,
// an empty but non-nil list, numbers that do not start at 1 or leave gaps. Values stay below c20Scribble.
// The class of the list that was drawn is determined afterwards from the list itself (c20ScenClass).
func c20GenScen(r *rand.Rand) []model.UseCaseScenarioSupportType {
	var s []model.UseCaseScenarioSupportType
	top := 5
	if r.Intn(4) == 0 {
		top = 5 + r.Intn(8) // now and then numbers beyond the usual five, with gaps
	}
	subset := func() []model.UseCaseScenarioSupportType {
		var l []model.UseCaseScenarioSupportType
		for x := 1; x <= top; x++ {
			if r.Intn(2) == 0 {
				l = append(l, model.UseCaseScenarioSupportType(x))
			}
		}
		return l
	}
	switch x := r.Intn(20); {
	case x < 4: // no scenarios at all
		return nil
	case x < 5: // an empty list that is not nil
		return []model.UseCaseScenarioSupportType{}
	case x < 11: // the tidy list
		return subset()
	case x < 14: // any order
		s = subset()
		r.Shuffle(len(s), func(i, j int) { s[i], s[j] = s[j], s[i] })
	case x < 15: // descending
		s = subset()
		sort.Slice(s, func(i, j int) bool { return s[i] > s[j] })
	case x < 17: // ascending, some numbers more than once (adjacent repeats)
		for _, v := range subset() {
			for n := 1 + r.Intn(2); n > 0; n-- {
				s = append(s, v)
			}
		}
	default: // collected from several modules: any order, some numbers repeated anywhere
		for m := 1 + r.Intn(3); m > 0; m-- {
			l := subset()
			r.Shuffle(len(l), func(i, j int) { l[i], l[j] = l[j], l[i] })
			s = append(s, l...)
		}
	}
	return s
}

func c20IsOdd(v string, l []string) bool {
	for _, x := range l {
		if x == v {
			return true
		}
	}
	return false
}

// c20ScenClass names the shape of a scenario list (measured, not assumed from the generator's branch).
func c20ScenClass(s []model.UseCaseScenarioSupportType) string {
	if s == nil {
		return "nil"
	}
	if len(s) == 0 {
		return "empty-non-nil"
	}
	asc, desc, dup := true, true, false
	seen := map[model.UseCaseScenarioSupportType]bool{}
	for i, v := range s {
		if seen[v] {
			dup = true
		}
		seen[v] = true
		if i > 0 && s[i-1] > v {
			asc = false
		}
		if i > 0 && s[i-1] < v {
			desc = false
		}
	}
	switch {
	case len(s) == 1:
		return "single"
	case asc && !dup:
		return "ascending-unique"
	case asc && dup:
		return "ascending-with-repeats"
	case desc && !dup:
		return "descending-unique"
	case !dup:
		return "unordered-unique"
	}
	return "unordered-with-repeats"
}

func c20RandKey(r *rand.Rand, e int) c20Key {
	if e < 0 {
		e = r.Intn(c20NE)
	}
	return c20Key{e, r.Intn(c20NA), r.Intn(c20NN)}
}

// c20PickKey picks a key of entity e (any entity if e<0) that is present / absent in ref if there is one.
func c20PickKey(r *rand.Rand, ref c20Ref, e int, present bool) (c20Key, bool) {
	var ks []c20Key
	for _, k := range c20AllKeys() {
		if e >= 0 && k.E != e {
			continue
		}
		if _, ok := ref[k]; ok == present {
			ks = append(ks, k)
		}
	}
	if len(ks) == 0 {
		return c20Key{}, false
	}
	return ks[r.Intn(len(ks))], true
}

func c20ActorCount(ref c20Ref, e, a int) int {
	n := 0
	for k := range ref {
		if k.E == e && k.A == a {
			n++
		}
	}
	return n
}

// c20Gen draws the next operation for entity e (any if e<0) given the reference state; withEntityOps
// allows RemoveEntity/AddEntity (sequential part only).
func c20Gen(r *rand.Rand, ref c20Ref, e int, withEntityOps bool, onDevice []bool) c20Op {
	x := r.Intn(100)
	var o c20Op
	switch {
	case x < 40:
		k := c20RandKey(r, e)
		if r.Intn(3) == 0 { // re-add an existing name
			if kk, ok := c20PickKey(r, ref, e, true); ok {
				k = kk
			}
		}
		o = c20GenAdd(r, k)
	case x < 62:
		k, ok := c20PickKey(r, ref, e, r.Intn(10) < 7)
		if !ok {
			k = c20RandKey(r, e)
		}
		// prefer the last use case of an actor now and then
		if r.Intn(3) == 0 {
			for _, kk := range c20AllKeys() {
				if _, in := ref[kk]; in && (e < 0 || kk.E == e) && c20ActorCount(ref, kk.E, kk.A) == 1 {
					k = kk
					break
				}
			}
		}
		o = c20Op{Kind: "remove", K: k}
	case x < 80:
		k, ok := c20PickKey(r, ref, e, r.Intn(10) < 7)
		if !ok {
			k = c20RandKey(r, e)
		}
		o = c20Op{Kind: "setavail", K: k, Avail: r.Intn(2) == 0}
	case x < 88:
		o = c20Op{Kind: "removeall", K: c20RandKey(r, e)}
	case x < 96 || !withEntityOps:
		o = c20Op{Kind: "has", K: c20RandKey(r, e)}
	default:
		k := c20RandKey(r, e)
		if onDevice[k.E] {
			o = c20Op{Kind: "removeentity", K: k}
		} else {
			o = c20Op{Kind: "addentity", K: k}
		}
	}
	o.Shape = c20ShapeOf(o, ref)
	return o
}

func c20ShapeOf(o c20Op, ref c20Ref) string {
	_, in := ref[o.K]
	switch o.Kind {
	case "add":
		switch {
		case in:
			return "add-existing-name"
		case c20ActorCount(ref, o.K.E, o.K.A) == 0:
			return "add-first-of-actor"
		}
		return "add-new-name"
	case "remove":
		switch {
		case !in:
			return "remove-unknown"
		case c20ActorCount(ref, o.K.E, o.K.A) == 1:
			return "remove-last-of-actor"
		}
		return "remove-known"
	case "setavail":
		if !in {
			return "setavail-unknown"
		}
		return "setavail-known"
	case "removeall", "removeentity":
		if len(ref.ofEntity(o.K.E)) == 0 {
			return o.Kind + "-empty"
		}
		return o.Kind
	case "has":
		if in {
			return "has-present"
		}
		return "has-absent"
	}
	return o.Kind
}

// ---------------------------------------------------------------------------
// comparison of an observation with the reference

// c20Compare reports deviations of a decoded snapshot from ref as (deviation, detail) pairs; opE is the
// entity of the operation just executed (-1: none) and is used to name leaks into other entities.
func c20Compare(src string, s c20Snap, ref c20Ref, opE int) (devs [][2]string) {
	for _, d := range s.Defects {
		devs = append(devs, [2]string{src + "-" + d, ""})
	}
	for _, k := range c20AllKeys() {
		want, in := ref[k]
		got, has := s.M[k]
		where := ""
		if opE >= 0 && k.E != opE {
			where = "-of-other-entity"
		}
		switch {
		case in && !has:
			devs = append(devs, [2]string{src + "-missing-entry" + where, fmt.Sprintf("%s: want %s, absent", k, want)})
		case !in && has:
			devs = append(devs, [2]string{src + "-extra-entry" + where, fmt.Sprintf("%s: want absent, got %s", k, got)})
		case in && has && want != got:
			devs = append(devs, [2]string{src + "-value-differs" + where, fmt.Sprintf("%s: want %s got %s", k, want, got)})
		}
	}
	return devs
}

// ---------------------------------------------------------------------------
// sequential part

// addSubscriber connects a peer that subscribes to the local node management and never reads.
func (cw *c20World) addSubscriber(i int) (*rig.Peer, string) {
	p := cw.addPeer(i)
	mc := p.Subscribe(p.NM(), rig.LNM, model.FeatureTypeTypeNodeManagement)
	if res := rig.Classify(p.Tap.Take(), mc); res.Success != 1 || res.Errors != 0 {
		return p, "the subscription to node management was not acknowledged: " + res.String()
	}
	return p, ""
}

// c20LastNotify returns the use-case data of the last filter-less use-case notification among outs
// (n = number of use-case notifications; a notification with filters does not state the whole registry
// and is not judged).
func c20LastNotify(outs []model.DatagramType) (d *model.NodeManagementUseCaseDataType, n int) {
	for _, o := range outs {
		if o.Header.CmdClassifier == nil || *o.Header.CmdClassifier != model.CmdClassifierTypeNotify {
			continue
		}
		for _, cmd := range o.Payload.Cmd {
			isUC := cmd.NodeManagementUseCaseData != nil || (cmd.Function != nil && *cmd.Function == model.FunctionTypeNodeManagementUseCaseData)
			if !isUC {
				continue
			}
			n++
			if len(cmd.Filter) > 0 {
				d = nil
				continue
			}
			d = cmd.NodeManagementUseCaseData
			if d == nil {
				d = &model.NodeManagementUseCaseDataType{}
			}
		}
	}
	return d, n
}

func c20Seq(c *rig.Ctx) {
	cw := newC20World(c)
	defer cw.w.Close()
	p := cw.addPeer(0)
	sub, problem := cw.addSubscriber(1)
	if problem != "" {
		c.Inconclusive("%s", problem)
		return
	}
	r := c.Rand
	ref := c20Ref{}
	onDevice := []bool{true, true, true}
	n := 10 + r.Intn(21)
	// a third of the histories: no read of any kind between the judged steps
	every := 1
	if r.Intn(3) == 0 {
		every = 3 + r.Intn(3)
	}
	order := r.Perm(3) // order of the three observations of a judged step
	var hist, shapes []string
	seenShape := map[string]bool{}
	twoPopulated := false
	broken := false // a deviation other than the aliased scenarios slice ends the case
	fail := func(o c20Op, dev, detail string) {
		broken = true
		pre := o.Shape
		if every > 1 {
			pre = "sparse" // the deviating operation may be any since the last judged step
		}
		c.Violate(pre+"/"+dev, "after step %d: %s (observations every %d steps, order %v)\n %s\n reference registry: %s\n history:\n  %s", len(hist), o, every, order, detail, ref, strings.Join(hist, "\n  "))
	}
	var d, lc *model.NodeManagementUseCaseDataType
	for i := 0; i < n; i++ {
		o := c20Gen(r, ref, -1, true, onDevice)
		for every > 1 && o.Kind == "has" {
			o = c20Gen(r, ref, -1, true, onDevice)
		}
		hist = append(hist, o.String())
		shapes = append(shapes, o.Shape)
		seenShape[o.Shape] = true
		c.Seen("op_shapes", o.Shape)
		has, pan := cw.do(o)
		if pan != "" {
			fail(o, "call-panics", pan)
			break
		}
		if o.Kind == "has" {
			_, in := ref[o.K]
			c.Events(1)
			if has != in {
				fail(o, "has-differs", fmt.Sprintf("HasUseCaseSupport(%s) = %v, reference says %v", o.K, has, in))
			}
		}
		ref.apply(o)
		switch o.Kind {
		case "removeentity":
			onDevice[o.K.E] = false
		case "addentity":
			onDevice[o.K.E] = true
		}
		pop := 0
		for e := 0; e < c20NE; e++ {
			if len(ref.ofEntity(e)) > 0 {
				pop++
			}
		}
		if pop >= 2 {
			twoPopulated = true
		}
		opE := o.K.E
		// what the subscribed peer was sent because of this operation (looking at the tap is no read of the
		// stack): the last use-case notification must carry the registry
		if nd, cnt := c20LastNotify(sub.Tap.Take()); cnt > 0 {
			c.Count("notifications_seen", int64(cnt))
			if nd != nil {
				c.Events(1)
				sn := c20Decode(nd)
				cw.reportAlias("notification", sn, nd, hist)
				for _, dv := range c20Compare("notify", sn, ref, opE) {
					c.Violate(o.Shape+"/"+dv[0], "after step %d: %s\n %s\n the last use-case notification a subscribed peer received for this operation: %s\n reference registry: %s\n history:\n  %s", len(hist), o, dv[1], rig.JS(nd), ref, strings.Join(hist, "\n  "))
					broken = true
				}
			}
		}
		if judged := every == 1 || (i+1)%every == 0 || i == n-1; judged && !broken {
			c.Count("judged_steps", 1)
			for _, which := range order {
				switch which {
				case 0:
					// (a) HasUseCaseSupport for EVERY key of the domain
					for _, k := range c20AllKeys() {
						_, in := ref[k]
						got := cw.ents[k.E].HasUseCaseSupport(c20Actors[k.A], c20Names[k.N])
						c.Events(1)
						if got != in {
							where := ""
							if k.E != opE {
								where = "-of-other-entity"
							}
							dev := "has-true-for-absent"
							if in {
								dev = "has-false-for-present"
							}
							fail(o, dev+where, fmt.Sprintf("HasUseCaseSupport(%s) = %v, reference says %v", k, got, in))
						}
					}
				case 1:
					// (b) what a peer reads
					var problem string
					d, _, _, problem = cw.peerRead(p)
					if problem != "" {
						fail(o, "read-unanswered", problem)
					} else {
						c.Events(int64(len(ref)) + 1)
						sn := c20Decode(d)
						cw.reportAlias("reply", sn, d, hist)
						for _, dv := range c20Compare("reply", sn, ref, opE) {
							fail(o, dv[0], dv[1]+"\n reply: "+rig.JS(d))
						}
					}
				case 2:
					// (c) the stored function data
					lc = cw.localCopy()
					c.Events(1)
					sn := c20Decode(lc)
					cw.reportAlias("datacopy", sn, lc, hist)
					for _, dv := range c20Compare("datacopy", sn, ref, opE) {
						fail(o, dv[0], dv[1]+"\n data: "+rig.JS(lc))
					}
				}
			}
		}
		if broken {
			break
		}
	}
	if c.Failed() {
		c.Witness(map[string]any{"history": hist, "reference": ref.String(), "reply": rig.JS(d), "datacopy": rig.JS(lc), "judged_every": every, "order": order})
	}
	if every > 1 {
		c.Count("sparse_histories", 1)
	}
	c.Count("adds_with_overwritten_scenarios_buffer", cw.scribbledOps)
	c.Shape(eHash(strings.Join(shapes, ",") + fmt.Sprint(every, order)))
	c.NonTrivial(seenShape["add-existing-name"] && seenShape["remove-last-of-actor"] && twoPopulated &&
		(seenShape["remove-unknown"] || seenShape["setavail-unknown"]))
	c.Count("seq_steps", int64(len(hist)))
	c.Sample(map[string]any{"history": hist, "final_registry": ref.String(), "judged_every": every, "order": order})
}

// ---------------------------------------------------------------------------
// concurrent part

type c20Rec struct {
	Client    int
	Op        c20Op    // for owners and has-observers
	Snap      *c20Snap // for snapshot readers (local copy or peer reply)
	Src       string
	Has       bool
	Call, Ret int64
}

type c20PIn struct {
	Kind string // add remove setavail has read
	Val  c20Val
}

var c20Model = porcupine.Model{
	Init: func() any { return c20Val{} },
	Step: func(state, input, output any) (bool, any) {
		st, in := state.(c20Val), input.(c20PIn)
		switch in.Kind {
		case "add":
			return true, in.Val
		case "remove":
			return true, c20Val{}
		case "setavail":
			if st.Present {
				st.Avail = in.Val.Avail
			}
			return true, st
		case "has":
			return output.(bool) == st.Present, st
		case "read":
			return output.(c20Val) == st, st
		}
		return false, st
	},
	Equal:             func(a, b any) bool { return a.(c20Val) == b.(c20Val) },
	DescribeOperation: func(in, out any) string { return fmt.Sprintf("%v -> %v", in, out) },
}

func c20Conc(c *rig.Ctx) {
	cw := newC20World(c)
	defer cw.w.Close()
	r := c.Rand
	readers := 1 + r.Intn(2)
	var peers []*rig.Peer
	for i := 0; i < readers; i++ {
		peers = append(peers, cw.addPeer(i))
	}
	// a peer that subscribes to node management and never reads
	sub, problem := cw.addSubscriber(readers)
	if problem != "" {
		c.Inconclusive("%s", problem)
		return
	}

	// ownership units: one owner per entity; in 60% of the cases one entity is split between two owners by
	// actor. One owner of a whole entity may also remove and re-add its entity (50% of the cases).
	split := -1
	if r.Intn(5) < 3 {
		split = r.Intn(c20NE)
	}
	units := c20Units(split)
	nu := len(units)
	lifecycle := -1
	if r.Intn(2) == 0 {
		for lifecycle < 0 || units[lifecycle].A >= 0 {
			lifecycle = r.Intn(nu)
		}
	}

	// sequential prologue so that removals and overwrites have something to work on (its buffers are
	// overwritten at once: nothing else runs yet)
	ref0 := c20Ref{}
	var prologue []string
	for i, n := 0, r.Intn(7); i < n; i++ {
		o := c20GenAdd(r, c20RandKey(r, -1))
		o.Shape = c20ShapeOf(o, ref0)
		if _, pan := cw.do(o); pan != "" {
			c.Violate("prologue/call-panics", "%s: %s", o, pan)
			return
		}
		ref0.apply(o)
		prologue = append(prologue, o.String())
	}
	cw.setDefer(true)

	// per-owner histories and their prefix states
	lists := make([][]c20Op, nu)
	states := make([][]c20Ref, nu) // states[u][k] = unit u's part of the registry after its first k mutators
	var shapes []string
	entityOps := 0
	for u, un := range units {
		cur := ref0.ofUnit(un)
		states[u] = append(states[u], cur.clone())
		var onDev *bool
		if u == lifecycle {
			onDev = new(bool)
			*onDev = true
		}
		for i, n := 0, 6+r.Intn(9); i < n; i++ {
			o := c20GenUnit(r, cur, un, onDev, 18)
			lists[u] = append(lists[u], o)
			shapes = append(shapes, o.Shape)
			if o.Kind == "removeentity" || o.Kind == "addentity" {
				entityOps++
			}
			if o.Kind != "has" {
				cur.apply(o)
				states[u] = append(states[u], cur.clone())
			}
		}
		shapes = append(shapes, "|")
	}

	// hook policy
	h := rig.InstallHooks()
	defer h.Uninstall()
	policy := []string{"rendezvous2", "rendezvous3", "jitter", "rendezvous2+jitter", "none"}[r.Intn(5)]
	var bar *eBarrier
	if strings.HasPrefix(policy, "rendezvous") {
		k := 2
		if policy == "rendezvous3" {
			k = 3
		}
		bar = newEBarrier(k, time.Duration(2+r.Intn(5))*time.Millisecond, 10)
		h.On("UseCase.afterCopy", bar.arrive)
	}
	if strings.Contains(policy, "jitter") {
		h.Jitter("UseCase.afterCopy", r.Int63(), 300*time.Microsecond)
	}
	shapes = append(shapes, policy, fmt.Sprint(readers), fmt.Sprint("split", split, "lifecycle", lifecycle))

	var mu sync.Mutex
	var recs []c20Rec
	add := func(x c20Rec) { mu.Lock(); recs = append(recs, x); mu.Unlock() }
	type retained struct {
		d  *model.NodeManagementUseCaseDataType
		fp string
	}
	var kept []retained
	var inflight, snapsInFlight int64
	var ownersDone int32
	var wg, rg sync.WaitGroup
	start := make(chan struct{})
	type mutRec struct{ call, ret int64 }
	mutLog := make([][]mutRec, nu) // per unit: interval of its k-th mutator (written by its owner only, read after join)

	for u := range units {
		wg.Add(1)
		go func(u int) {
			defer wg.Done()
			role := fmt.Sprint("owner", u)
			h.Role(role)
			<-start
			for _, o := range lists[u] {
				if o.Kind != "has" {
					atomic.AddInt64(&inflight, 1)
				}
				call := rig.Seq()
				// the role of the goroutine that enters the stack (eGuard runs the call on its own goroutine)
				has, pan := cw.doAs(h, role, o)
				ret := rig.Seq()
				if o.Kind != "has" {
					atomic.AddInt64(&inflight, -1)
					mutLog[u] = append(mutLog[u], mutRec{call, ret})
				}
				if pan != "" {
					c.Violate("conc/call-panics/"+o.Kind, "%s: %s", o, pan)
				}
				add(c20Rec{Client: u, Op: o, Has: has, Call: call, Ret: ret})
				if o.Kind != "has" {
					// the owner looks at the registry between its own operations: its part must be
					// exactly its own sequential state (nobody else writes there)
					c1 := rig.Seq()
					sn := c20Decode(cw.localCopy())
					c2 := rig.Seq()
					add(c20Rec{Client: u, Snap: &sn, Src: "owner-datacopy", Call: c1, Ret: c2})
				}
			}
		}(u)
	}
	// observers: HasUseCaseSupport on random keys and decoded DataCopy snapshots
	nObs := 1 + r.Intn(2)
	for i := 0; i < nObs; i++ {
		rg.Add(1)
		seed := r.Int63()
		go func(i int) {
			defer rg.Done()
			rr := rand.New(rand.NewSource(seed))
			<-start
			for n := 0; n < 120 && atomic.LoadInt32(&ownersDone) == 0; n++ {
				if rr.Intn(3) > 0 {
					o := c20Op{Kind: "has", K: c20RandKey(rr, -1)}
					call := rig.Seq()
					has, pan := cw.do(o)
					ret := rig.Seq()
					if pan != "" {
						c.Violate("conc/call-panics/has", "%s: %s", o, pan)
					}
					add(c20Rec{Client: 10 + i, Op: o, Has: has, Call: call, Ret: ret})
				} else {
					busy := atomic.LoadInt64(&inflight) > 0
					call := rig.Seq()
					d := cw.localCopy()
					ret := rig.Seq()
					if busy || atomic.LoadInt64(&inflight) > 0 {
						atomic.AddInt64(&snapsInFlight, 1)
					}
					s := c20Decode(d)
					add(c20Rec{Client: 10 + i, Snap: &s, Src: "datacopy", Call: call, Ret: ret})
					if d != nil {
						mu.Lock()
						if len(kept) < 40 {
							kept = append(kept, retained{d, rig.JS(d)})
						}
						mu.Unlock()
					}
				}
				if rr.Intn(2) == 0 {
					runtime.Gosched()
				}
			}
		}(i)
	}
	// peers reading nodeManagementUseCaseData in a loop
	for i, p := range peers {
		rg.Add(1)
		go func(i int, p *rig.Peer) {
			defer rg.Done()
			<-start
			for n := 0; n < 150 && atomic.LoadInt32(&ownersDone) == 0; n++ {
				busy := atomic.LoadInt64(&inflight) > 0
				d, call, ret, problem := cw.peerRead(p)
				if problem != "" {
					c.Violate("conc/read-unanswered", "%s", problem)
					return
				}
				if busy || atomic.LoadInt64(&inflight) > 0 {
					atomic.AddInt64(&snapsInFlight, 1)
				}
				s := c20Decode(d)
				add(c20Rec{Client: 20 + i, Snap: &s, Src: "reply", Call: call, Ret: ret})
				runtime.Gosched()
			}
		}(i, p)
	}
	close(start)
	wg.Wait()
	atomic.StoreInt32(&ownersDone, 1)
	rg.Wait()
	if bar != nil {
		bar.disable()
		f, x := bar.stats()
		c.Count("window_forced", int64(f))
		c.Count("window_closed(rendezvous expired)", int64(x))
	}
	c.Count("hook_hits UseCase.afterCopy", int64(h.Hits("UseCase.afterCopy")))
	c.Seen("hook_orderings", eHash(strings.Join(h.Trace(), ",")))
	c.Count("entity_lifecycle_operations", int64(entityOps))
	if split >= 0 {
		c.Count("cases_with_split_entity", 1)
	}

	render := func() map[string]any {
		per := map[string]any{}
		for u := range units {
			var l []string
			for _, o := range lists[u] {
				l = append(l, o.String())
			}
			per["owner of "+units[u].String()] = l
		}
		return map[string]any{"prologue": prologue, "per_owner_histories": per, "hook_policy": policy, "readers": readers, "observers": nObs,
			"lifecycle_owner": lifecycle}
	}

	// (4) snapshots handed out earlier did not change (judged BEFORE the harness overwrites its scenarios
	// buffers: what an aliased buffer does to them is reported under c20SigAlias by the final comparison)
	for _, kp := range kept {
		c.Events(1)
		if now := rig.JS(kp.d); now != kp.fp {
			c.Violate("conc/handed-out-snapshot-changed", "a DataCopy result changed after it was handed out:\n then: %s\n now:  %s", kp.fp, now)
		}
	}
	c.Count("retained_snapshots", int64(len(kept)))

	// the application reuses the buffers it had passed to AddUseCaseSupport (all goroutines are joined)
	cw.scribbleDeferred()
	cw.setDefer(false)
	c.Count("adds_with_overwritten_scenarios_buffer", cw.scribbledOps)

	// (1) final registry = union of the per-owner sequential results
	final := c20Ref{}
	for u := range units {
		for k, v := range states[u][len(states[u])-1] {
			final[k] = v
		}
	}
	for _, k := range c20AllKeys() {
		_, in := final[k]
		c.Events(1)
		if got := cw.ents[k.E].HasUseCaseSupport(c20Actors[k.A], c20Names[k.N]); got != in {
			c.Violate("conc/final-has-differs-from-union", "HasUseCaseSupport(%s) = %v after all goroutines finished, union of the per-owner results says %v\n expected registry: %s", k, got, in, final)
		}
	}
	if d, _, _, problem := cw.peerRead(peers[0]); problem != "" {
		c.Violate("conc/read-unanswered", "%s", problem)
	} else {
		c.Events(int64(len(final)) + 1)
		sn := c20Decode(d)
		cw.reportAlias("final reply", sn, d, render())
		for _, dv := range c20Compare("final-reply", sn, final, -1) {
			c.Violate("conc/"+dv[0]+"-vs-union", "%s\n expected registry (union of per-owner results): %s\n reply: %s", dv[1], final, rig.JS(d))
		}
	}
	{
		lc := cw.localCopy()
		c.Events(1)
		sn := c20Decode(lc)
		cw.reportAlias("final datacopy", sn, lc, render())
		for _, dv := range c20Compare("final-datacopy", sn, final, -1) {
			c.Violate("conc/"+dv[0]+"-vs-union", "%s\n expected registry (union of per-owner results): %s\n data: %s", dv[1], final, rig.JS(lc))
		}
	}
	// the subscribed peer: the last use-case notification it was sent carries the final registry (the
	// notifications were decoded when they were sent, i.e. before the buffers were overwritten)
	if nd, cnt := c20LastNotify(sub.Tap.Take()); cnt > 0 && nd != nil {
		c.Count("notifications_seen", int64(cnt))
		c.Events(1)
		sn := c20Decode(nd)
		cw.reportAlias("last notification", sn, nd, render())
		for _, dv := range c20Compare("last-notify", sn, final, -1) {
			c.Violate("conc/"+dv[0]+"-vs-union", "%s\n the last of %d use-case notifications the subscribed peer received: %s\n expected registry (union of per-owner results): %s", dv[1], cnt, rig.JS(nd), final)
		}
	}

	// (2) every snapshot is, per ownership unit, a prefix state allowed by its interval
	snaps := 0
	for _, x := range recs {
		if x.Snap == nil {
			continue
		}
		snaps++
		c.Events(1)
		for _, d := range x.Snap.Defects {
			c.Violate("conc/snapshot-"+d, "%s snapshot taken in [%d,%d] has a %s: %s", x.Src, x.Call, x.Ret, d, x.Snap.M)
		}
		for u, un := range units {
			lo, hi := 0, 0
			for _, m := range mutLog[u] {
				if m.ret < x.Call {
					lo++
				}
				if m.call < x.Ret {
					hi++
				}
			}
			part := x.Snap.M.ofUnit(un)
			ok, anyPrefix := false, -1
			for k := range states[u] {
				if c20Equal(part, states[u][k]) {
					if k >= lo && k <= hi {
						ok = true
					}
					anyPrefix = k
				}
			}
			if !ok {
				dev := "snapshot-not-a-prefix-state"
				if anyPrefix >= 0 {
					dev = "snapshot-stale-or-early-prefix-state"
				}
				if un.A >= 0 {
					dev += "-of-split-entity"
				}
				c.Violate("conc/"+dev, "%s snapshot [%d,%d]: the part of owner %s, %s, is not one of the states after %d..%d of its mutators (matches prefix %d)\n states: %v",
					x.Src, x.Call, x.Ret, un, part, lo, hi, anyPrefix, states[u])
			}
		}
	}
	c.Count("snapshots_judged", int64(snaps))
	c.Count("snapshots_during_mutation", atomic.LoadInt64(&snapsInFlight))

	// (3) linearizability per (entity, actor, name) against a register
	undecided := 0
	for _, k := range c20AllKeys() {
		var ops []porcupine.Operation
		if v, ok := ref0[k]; ok { // the prologue state enters as a completed add
			ops = append(ops, porcupine.Operation{ClientId: 99, Input: c20PIn{Kind: "add", Val: v}, Call: -2, Return: -1})
		}
		perClientSnaps := map[int]int{}
		for _, x := range recs {
			switch {
			case x.Snap != nil:
				if perClientSnaps[x.Client] >= 40 {
					continue
				}
				perClientSnaps[x.Client]++
				ops = append(ops, porcupine.Operation{ClientId: x.Client, Input: c20PIn{Kind: "read"}, Output: x.Snap.M[k], Call: x.Call, Return: x.Ret})
			case (x.Op.Kind == "removeall" || x.Op.Kind == "removeentity") && x.Op.K.E == k.E:
				ops = append(ops, porcupine.Operation{ClientId: x.Client, Input: c20PIn{Kind: "remove"}, Call: x.Call, Return: x.Ret})
			case x.Op.Kind == "removeall" || x.Op.Kind == "removeentity" || x.Op.Kind == "addentity" || x.Op.K != k:
			case x.Op.Kind == "add":
				ops = append(ops, porcupine.Operation{ClientId: x.Client, Input: c20PIn{Kind: "add", Val: c20ValOf(x.Op)}, Call: x.Call, Return: x.Ret})
			case x.Op.Kind == "remove":
				ops = append(ops, porcupine.Operation{ClientId: x.Client, Input: c20PIn{Kind: "remove"}, Call: x.Call, Return: x.Ret})
			case x.Op.Kind == "setavail":
				ops = append(ops, porcupine.Operation{ClientId: x.Client, Input: c20PIn{Kind: "setavail", Val: c20Val{Avail: fmt.Sprint(x.Op.Avail)}}, Call: x.Call, Return: x.Ret})
			case x.Op.Kind == "has":
				ops = append(ops, porcupine.Operation{ClientId: x.Client, Input: c20PIn{Kind: "has"}, Output: x.Has, Call: x.Call, Return: x.Ret})
			}
		}
		res := porcupine.CheckOperationsTimeout(c20Model, ops, 20*time.Second)
		c.Count("porcupine_"+string(res), 1)
		c.Events(int64(len(ops)))
		switch res {
		case porcupine.Illegal:
			var l []string
			for _, o := range ops {
				l = append(l, fmt.Sprintf("c%d [%d,%d] %v -> %v", o.ClientId, o.Call, o.Return, o.Input, o.Output))
			}
			c.Violate("conc/not-linearizable", "history of %s is not linearizable against a register:\n %s", k, strings.Join(l, "\n "))
		case porcupine.Unknown:
			undecided++
		}
	}
	if undecided > 0 {
		c.Inconclusive("porcupine could not decide %d partitions within 20s", undecided)
	}

	if c.Failed() {
		c.Witness(render())
	}
	c.Shape(eHash(strings.Join(shapes, ",")))
	c.NonTrivial(atomic.LoadInt64(&snapsInFlight) > 0 && undecided == 0)
	c.Seen("hook_policies", policy)
	c.Sample(render())
}

// doAs is do with the hook role of the executing goroutine set (eGuard runs the call on its own goroutine).
func (cw *c20World) doAs(h *rig.Hooks, role string, o c20Op) (bool, string) {
	var has bool
	pan := eGuard(cw.c, "use case operation "+o.Kind, func() {
		h.Role(role)
		has = cw.call(o)
	})
	return has, pan
}

// ---------------------------------------------------------------------------
// burst: many unforced concurrent read-modify-write cycles on disjoint entities

// c20Burst aims at windows that no hook point opens (e.g. a store that slipped out of the critical
// section, or a critical section that no longer covers all writers of one entity): two owners hammer their
// own entities (one of them also removes and re-adds its entity now and then), two more share the third
// entity split by actor; after EVERY operation the owner compares its part of the stored data with its own
// sequential state, and at the end the registry must be the union.
func c20Burst(c *rig.Ctx) {
	cw := newC20World(c)
	defer cw.w.Close()
	p := cw.addPeer(0)
	// every third case: a subscribed peer (each store then also encodes a notification, which slows the cycles down)
	var sub *rig.Peer
	if c.Index%3 == 0 {
		var problem string
		if sub, problem = cw.addSubscriber(1); problem != "" {
			c.Inconclusive("%s", problem)
			return
		}
	}
	r := c.Rand
	n := 400
	if c.Race {
		n = 100
	}
	if c.Thorough() {
		n *= 2
	}
	split := r.Intn(c20NE)
	units := c20Units(split)
	nu := len(units)
	lifecycle := r.Intn(nu)
	for units[lifecycle].A >= 0 {
		lifecycle = r.Intn(nu)
	}
	lists := make([][]c20Op, nu)
	states := make([][]c20Ref, nu)
	kinds := map[string]int{}
	for u, un := range units {
		cur := c20Ref{}
		states[u] = append(states[u], cur.clone())
		var onDev *bool
		if u == lifecycle {
			onDev = new(bool)
			*onDev = true
		}
		for len(lists[u]) < n {
			o := c20GenUnit(r, cur, un, onDev, 2)
			if o.Kind == "has" || (o.Kind == "removeall" && r.Intn(4) > 0) {
				continue
			}
			lists[u] = append(lists[u], o)
			kinds[o.Shape]++
			cur.apply(o)
			states[u] = append(states[u], cur.clone())
		}
	}
	type deviation struct {
		u, k      int
		op        c20Op
		want, got string
	}
	var mu sync.Mutex
	var devs []deviation
	var wg sync.WaitGroup
	start := make(chan struct{})
	var judged int64
	cw.setDefer(true)
	for u := range units {
		wg.Add(1)
		go func(u int) {
			defer wg.Done()
			<-start
			pan := eGuard(c, "burst of use case operations", func() {
				bad := 0
				for k, o := range lists[u] {
					cw.call(o)
					part := c20Decode(cw.localCopy()).M.ofUnit(units[u])
					atomic.AddInt64(&judged, 1)
					if !c20Equal(part, states[u][k+1]) {
						mu.Lock()
						devs = append(devs, deviation{u, k, o, states[u][k+1].String(), part.String()})
						mu.Unlock()
						if bad++; bad >= 3 {
							return
						}
					}
					if k%128 == 127 {
						c.Progress()
					}
				}
			})
			if pan != "" {
				c.Violate("burst/call-panics", "%s", pan)
			}
		}(u)
	}
	// The dynamically appearing EV: two more goroutines add and remove FRESH entities that never declare a use case
	// (DeviceLocal.AddEntity / RemoveEntity, addresses [10] and [11]) for as long as the owners work. They are not use
	// case operations and touch no entity of the registry, so every expectation stays what it is: "operations on one
	// entity never affect another entity's use cases", and the registry is the union of the owners' results. (An entity
	// management path that stores use-case data outside the use-case critical section loses an owner's update.)
	var churnStop atomic.Bool
	var churned int64
	var cwg sync.WaitGroup
	for g := 0; g < 2; g++ {
		cwg.Add(1)
		go func(g int) {
			defer cwg.Done()
			<-start
			pan := eGuard(c, "AddEntity/RemoveEntity of a fresh entity", func() {
				for i := 0; i < 200000 && !churnStop.Load(); i++ {
					ev := spine.NewEntityLocal(cw.w.Local, model.EntityTypeTypeEV, spine.NewAddressEntityType([]uint{uint(10 + g)}), 4*time.Second)
					cw.w.Local.AddEntity(ev)
					if i%2 == 1 {
						runtime.Gosched()
					}
					cw.w.Local.RemoveEntity(ev)
					atomic.AddInt64(&churned, 1)
				}
			})
			if pan != "" {
				c.Violate("burst/call-panics", "%s", pan)
			}
		}(g)
	}
	close(start)
	wg.Wait()
	churnStop.Store(true)
	cwg.Wait()
	c.Events(atomic.LoadInt64(&judged))
	c.Count("burst_operations", atomic.LoadInt64(&judged))
	c.Count("burst_fresh_entities_added_and_removed_meanwhile", atomic.LoadInt64(&churned))
	for i, d := range devs {
		if i >= 3 {
			break
		}
		sig := "burst/own-entity-differs-from-own-sequential-state"
		if units[d.u].A >= 0 {
			sig = "burst/own-actor-of-shared-entity-differs-from-own-sequential-state"
		}
		c.Violate(sig, "owner of %s after its operation #%d (%s), while the other owners (units %v) modified their parts concurrently:\n want %s\n got  %s", units[d.u], d.k, d.op, units, d.want, d.got)
	}
	// the application reuses the buffers it had passed to AddUseCaseSupport (all goroutines are joined)
	cw.scribbleDeferred()
	cw.setDefer(false)
	c.Count("adds_with_overwritten_scenarios_buffer", cw.scribbledOps)
	final := c20Ref{}
	for u := range units {
		for k, v := range states[u][len(states[u])-1] {
			final[k] = v
		}
	}
	var ks []string
	for k, v := range kinds {
		ks = append(ks, fmt.Sprintf("%s:%d", k, v))
	}
	sort.Strings(ks)
	setup := map[string]any{"operations_per_owner": n, "owners": fmt.Sprint(units), "lifecycle_owner": units[lifecycle].String(), "shapes": ks}
	for _, k := range c20AllKeys() {
		_, in := final[k]
		c.Events(1)
		if got := cw.ents[k.E].HasUseCaseSupport(c20Actors[k.A], c20Names[k.N]); got != in {
			c.Violate("burst/final-has-differs-from-union", "HasUseCaseSupport(%s) = %v after all goroutines finished, union of the per-owner results says %v", k, got, in)
		}
	}
	if d, _, _, problem := cw.peerRead(p); problem != "" {
		c.Violate("burst/read-unanswered", "%s", problem)
	} else {
		c.Events(int64(len(final)) + 1)
		sn := c20Decode(d)
		cw.reportAlias("final reply", sn, d, setup)
		for _, dv := range c20Compare("final-reply", sn, final, -1) {
			c.Violate("burst/"+dv[0]+"-vs-union", "%s\n expected registry (union of per-owner results): %s\n reply: %s", dv[1], final, rig.JS(d))
		}
	}
	{
		lc := cw.localCopy()
		c.Events(1)
		sn := c20Decode(lc)
		cw.reportAlias("final datacopy", sn, lc, setup)
		for _, dv := range c20Compare("final-datacopy", sn, final, -1) {
			c.Violate("burst/"+dv[0]+"-vs-union", "%s\n expected registry (union of per-owner results): %s\n data: %s", dv[1], final, rig.JS(lc))
		}
	}
	if sub == nil {
	} else if nd, cnt := c20LastNotify(sub.Tap.Take()); cnt > 0 && nd != nil {
		c.Count("notifications_seen", int64(cnt))
		c.Events(1)
		sn := c20Decode(nd)
		cw.reportAlias("last notification", sn, nd, setup)
		for _, dv := range c20Compare("last-notify", sn, final, -1) {
			c.Violate("burst/"+dv[0]+"-vs-union", "%s\n the last of %d use-case notifications the subscribed peer received: %s\n expected registry (union of per-owner results): %s", dv[1], cnt, rig.JS(nd), final)
		}
	}
	if c.Failed() {
		setup["deviations"] = len(devs)
		c.Witness(setup)
	}
	c.Shape(eHash(strings.Join(ks, ",") + fmt.Sprint(units, lifecycle)))
	c.NonTrivial(true)
	setup["final_registry"] = final.String()
	c.Sample(setup)
}
