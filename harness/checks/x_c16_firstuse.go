package checks

import (
	"fmt"
	"runtime"
	"sort"
	"strings"
	"sync"
	"sync/atomic"
	"time"

	"github.com/enbility/spine-go/api"
	"github.com/enbility/spine-go/model"
	"github.com/enbility/spine-go/spine"

	"verifharness/rig"
)

// C16, part firstuse: the FIRST heartbeat calls an entity ever sees arrive from several goroutines at once.
//
// The quantifier is "all histories and interleavings of AddFunctionType(heartbeat), StartHeartbeat, StopHeartbeat,
// IsHeartbeatRunning and RemoveEntity calls from several goroutines". The other parts fetch the entity's heartbeat
// manager once, single-threaded, while they set the case up, and make every call on that object: whatever the stack
// does when the heartbeat of a fresh entity is touched for the first time (creating, registering, wiring its state)
// has long happened when their goroutines start. An application does not do that: it calls
// entity.HeartbeatManager().X() (or DeviceLocal.RemoveEntity, or FeatureLocal.AddFunctionType) wherever it needs to.
//
// Here every call goes through the accessor at the moment it is made, and NOTHING touches the heartbeat of an entity
// before its group of 2-4 goroutines does: exactly one of them adds the heartbeat function (which starts the
// heartbeat), the others make one IsHeartbeatRunning / StopHeartbeat / StartHeartbeat / RemoveEntity call. One case
// does this for 40-80 fresh entities (one try costs a few milliseconds, the silence afterwards is awaited ONCE for all
// of them). How a group is released is the forced interleaving:
//
//	"convoy"  the mutex of the entity is held by the harness while the goroutines arrive one after the other in a
//	          seeded order (through the public API: a feature implementation of the harness whose Type() - called by
//	          EntityLocal.FeatureOfTypeAndRole under the entity's mutex - parks until the case opens it), let go and
//	          taken again at once, 2-3 rounds. Whatever the first use does under that mutex, the calls queue up behind
//	          each other for more than a millisecond; the call woken by the first release finds the mutex taken again,
//	          which puts a sync.Mutex into its hand-over mode: from then on every locked step of call 1 is followed by
//	          the same step of call 2 ... - the interleaving that a check-then-act made of individually locked steps
//	          cannot stand (and that the race detector cannot see). On a tree whose first use does not take that mutex
//	          the calls simply run. (Holding the mutex once is not enough: the woken call re-acquires it at once and
//	          completes check AND act before the next one is scheduled - measured: 0 of 160 vs. 1 of 2 groups.)
//	"spin"    the goroutines spin on one flag and make their call after a seeded skew of 0-2000 spins
//	"chan"    they are released by closing a channel
//
// Then, sequentially: optionally a StartHeartbeat or IsHeartbeatRunning, and a closing StopHeartbeat or RemoveEntity
// - at once ("early") or only after the first wait ("late": the heartbeat stays running meanwhile). Oracles, all on
// logged order: no call panics; IsHeartbeatRunning (asked through the accessor after the group returned, if no
// Stop/RemoveEntity was among the group's calls, after a sequential start, and after the closing call) agrees with
// the last call that returned; after the closing call returned at most ONE more refresh becomes visible in the
// function data (counter read right after the return vs. after >= 4 periods and at the very end) and the data then
// reads the same. The hook gauge (stream goroutines entered/left per manager object) is only counted.

// c16GateFeature is a feature implementation whose Type() parks while armed (once per round): the caller (the
// harness's own FeatureOfTypeAndRole call) holds the entity's mutex meanwhile. Everything else is the embedded
// FeatureLocal.
type c16GateFeature struct {
	*spine.FeatureLocal
	left    atomic.Int32 // rounds still to park
	inside  []chan struct{}
	release []chan struct{}
	expired atomic.Int32
}

func newC16GateFeature(ent *spine.EntityLocal, rounds int) *c16GateFeature {
	g := &c16GateFeature{FeatureLocal: spine.NewFeatureLocal(ent.NextFeatureId(), ent, model.FeatureTypeTypeGeneric, model.RoleTypeClient)}
	for i := 0; i < rounds; i++ {
		g.inside = append(g.inside, make(chan struct{}))
		g.release = append(g.release, make(chan struct{}))
	}
	return g
}

func (g *c16GateFeature) Type() model.FeatureTypeType {
	if n := g.left.Load(); n > 0 && g.left.CompareAndSwap(n, n-1) {
		k := len(g.inside) - int(n)
		close(g.inside[k])
		select {
		case <-g.release[k]:
		case <-time.After(2 * time.Second): // a harness callback never parks for good
			g.expired.Add(1)
		}
	}
	return g.FeatureLocal.Type()
}

type c16FUCall struct {
	Op        string
	Call, Ret int64
	Res       string
}

type c16FU struct {
	idx     int
	ent     *spine.EntityLocal
	dd      api.FeatureLocalInterface
	gate    *c16GateFeature
	added   bool // passed to DeviceLocal.AddEntity
	ops     []string
	order   []int // order in which the goroutines are started (convoy) / their skews are drawn
	mode    string
	mid     string
	closing string
	late    bool

	mu    sync.Mutex
	calls []c16FUCall

	convoy    bool  // the entity's mutex was held while the whole group arrived
	groupRet  int64 // rig.Seq after every call of the group had returned
	vG        uint64
	vGok      bool
	closeRet  int64
	v0        uint64
	v0ok      bool
	d0        string
	vA        uint64
	vAok      bool
	dA        string
	expectRun int // what IsHeartbeatRunning must answer before the closing call (-1: not decided)
}

func (u *c16FU) log(op string, cl, rt int64, res string) {
	u.mu.Lock()
	u.calls = append(u.calls, c16FUCall{op, cl, rt, res})
	u.mu.Unlock()
}

func (u *c16FU) history() string {
	u.mu.Lock()
	defer u.mu.Unlock()
	cs := append([]c16FUCall(nil), u.calls...)
	sort.SliceStable(cs, func(i, j int) bool { return cs[i].Call < cs[j].Call })
	var l []string
	for _, c := range cs {
		s := fmt.Sprintf("[%d,%d] %s", c.Call, c.Ret, c.Op)
		if c.Res != "" {
			s += "=" + c.Res
		}
		l = append(l, s)
	}
	return fmt.Sprintf("entity %s (in the device's entity list: %v), group released by %q (entity mutex held while the calls arrived: %v), first calls %v started in the order %v; calls: %s",
		rkEnt(u.ent.Address().Entity), u.added, u.mode, u.convoy, u.ops, u.order, strings.Join(l, " "))
}

// do makes one call the way an application does: the manager is asked for at the moment of the call.
func (u *c16FU) do(w *rig.World, op string) (res string) {
	cl := rig.Seq()
	switch op {
	case "add":
		u.dd.AddFunctionType(model.FunctionTypeDeviceDiagnosisHeartbeatData, true, false)
	case "remove":
		w.Local.RemoveEntity(u.ent)
	default:
		hm := u.ent.HeartbeatManager()
		if hm == nil {
			res = "no-manager"
			break
		}
		switch op {
		case "start":
			if err := hm.StartHeartbeat(); err != nil {
				res = "error: " + err.Error()
			}
		case "stop":
			hm.StopHeartbeat()
		case "isrunning":
			res = fmt.Sprint(hm.IsHeartbeatRunning())
		}
	}
	u.log(op, cl, rig.Seq(), res)
	return res
}

// guarded: a sequential call under the watchdog; a panic is a verdict.
func (u *c16FU) guarded(c *rig.Ctx, w *rig.World, op string) (res string) {
	if p := eGuard(c, op, func() { res = u.do(w, op) }); p != "" {
		c.Violate("call-panics/"+op, "%s panicked: %s\n %s", op, p, u.history())
		return "panic"
	}
	return res
}

func (u *c16FU) counter() (uint64, bool) { return c16CounterOf(u.dd) }

func (u *c16FU) data() string {
	v := u.dd.DataCopy(model.FunctionTypeDeviceDiagnosisHeartbeatData)
	if rig.IsNil(v) {
		return "<none>"
	}
	return rig.JS(v)
}

// group runs the first calls of the entity concurrently. false: a call did not return (the case is over).
func (u *c16FU) group(c *rig.Ctx, w *rig.World, skews []int) bool {
	n := len(u.ops)
	var wg sync.WaitGroup
	var ready atomic.Int32
	var goFlag atomic.Bool
	startC := make(chan struct{})
	run := func(k int, wait func()) {
		defer wg.Done()
		defer func() {
			if p := recover(); p != nil {
				buf := make([]byte, 8<<10)
				buf = buf[:runtime.Stack(buf, false)]
				c.Violate("call-panics/"+u.ops[k], "%s, one of the first heartbeat calls of a fresh entity, panicked: %v @ %s\n %s", u.ops[k], p, rig.InnermostSpineFrame(string(buf)), u.history())
			}
		}()
		wait()
		ready.Add(1)
		u.do(w, u.ops[k])
	}
	wg.Add(n)
	switch u.mode {
	case "convoy":
		// the harness holds the entity's mutex (parked inside Type() of its own feature, called by the entity's lookup)
		g := u.gate
		rounds := len(g.inside)
		g.left.Store(int32(rounds))
		holder := make(chan struct{})
		go func() {
			defer close(holder)
			// hold, let go and take again at once, hold, ...: the call that was woken by the first release finds the
			// mutex taken again after having waited for more than a millisecond
			for i := 0; i < rounds; i++ {
				u.ent.FeatureOfTypeAndRole(model.FeatureTypeTypeGeneric, model.RoleTypeClient)
			}
		}()
		select {
		case <-g.inside[0]:
			u.convoy = true
		case <-time.After(200 * time.Millisecond):
			// this tree does not ask the features for their type under the entity's mutex: nothing to hold
			g.left.Store(0)
			c.Count("firstuse_convoy_not_established", 1)
		}
		for i, k := range u.order {
			go run(k, func() {})
			// the next call arrives once this one has been on its way for a moment (arrival order = queue order)
			rig.WaitFor(50*time.Millisecond, func() bool { return int(ready.Load()) > i })
			time.Sleep(time.Duration(150+50*skews[k]%300) * time.Microsecond)
		}
		// long enough for every queued call to count as starving (> 1 ms): from the second round on the mutex is handed
		// over in arrival order
		time.Sleep(2500 * time.Microsecond)
		for i := 0; i < rounds; i++ {
			close(g.release[i])
			if i+1 < rounds && u.convoy {
				select {
				case <-g.inside[i+1]:
				case <-holder:
				case <-time.After(200 * time.Millisecond):
				}
				time.Sleep(time.Duration(300+skews[0]%500) * time.Microsecond)
			}
		}
		select {
		case <-holder:
		case <-time.After(30 * time.Second):
			c.Inconclusive("the lookup holding the entity's mutex did not return within 30s; parking for the hang monitor")
			for {
				time.Sleep(time.Hour)
			}
		}
	case "spin":
		for _, k := range u.order {
			sk := skews[k]
			go run(k, func() {
				for i := 0; !goFlag.Load(); i++ {
					if i%256 == 255 {
						runtime.Gosched()
					}
				}
				x := 0
				for i := 0; i < sk; i++ {
					x += i
				}
				_ = x
			})
		}
		time.Sleep(300 * time.Microsecond)
		goFlag.Store(true)
	default: // chan
		for _, k := range u.order {
			go run(k, func() { <-startC })
		}
		time.Sleep(200 * time.Microsecond)
		close(startC)
	}
	done := make(chan struct{})
	go func() { wg.Wait(); close(done) }()
	select {
	case <-done:
	case <-time.After(30 * time.Second):
		c.Inconclusive("the first heartbeat calls of %s did not return within 30s; parking for the hang monitor", u.history())
		for {
			time.Sleep(time.Hour)
		}
	}
	u.groupRet = rig.Seq()
	u.vG, u.vGok = u.counter()
	if u.gate != nil && u.gate.expired.Load() > 0 {
		c.Count("firstuse_convoy_gate_expired", 1)
	}
	return true
}

var c16FUTimeouts = []time.Duration{100 * time.Millisecond, 2100 * time.Millisecond, 150 * time.Millisecond, 100 * time.Millisecond}

func c16FirstUse(c *rig.Ctx) {
	r := c.Rand
	timeout := c16FUTimeouts[c.Index%len(c16FUTimeouts)]
	period := timeout
	if period > 2*time.Second {
		period -= 2 * time.Second
	}
	n := c.Pick(40, 80)
	if c.Race {
		n = c.Pick(16, 32)
	}
	w := rig.NewWorld(c.Tag())
	h := rig.InstallHooks()
	// gauge: stream goroutines per manager object (only counted: a manager nobody can reach any more has no owner
	// the harness could name)
	var gmu sync.Mutex
	entered, left := map[any]int{}, map[any]int{}
	h.On("Heartbeat.stream.enter", func(obj any) { gmu.Lock(); entered[obj]++; gmu.Unlock() })
	h.On("Heartbeat.stream.exit", func(obj any) { gmu.Lock(); left[obj]++; gmu.Unlock() })
	liveStreams := func() (live int) {
		gmu.Lock()
		defer gmu.Unlock()
		for m, e := range entered {
			live += e - left[m]
		}
		return live
	}
	var us []*c16FU
	defer func() {
		for _, u := range us {
			rig.Guard(10*time.Second, func() {
				if hm := u.ent.HeartbeatManager(); hm != nil {
					hm.StopHeartbeat()
				}
			})
		}
		rig.WaitFor(5*time.Second, func() bool { return liveStreams() == 0 })
		h.Uninstall()
		w.Close()
	}()

	others := []string{"isrunning", "isrunning", "stop", "start", "remove", "remove"}
	modes := []string{"convoy", "spin", "convoy", "chan"}
	shapes := map[string]int{}
	for i := 0; i < n && !c.Failed(); i++ {
		u := &c16FU{idx: i, added: (i/4+i)%4 != 3, mode: modes[(i+c.Index)%len(modes)], expectRun: -1}
		u.ent = spine.NewEntityLocal(w.Local, model.EntityTypeTypeCEM, spine.NewAddressEntityType([]uint{uint(10 + i)}), timeout)
		if u.added {
			w.Local.AddEntity(u.ent)
		}
		if u.mode == "convoy" {
			// the harness's own feature comes first in the entity's list
			u.gate = newC16GateFeature(u.ent, 2+r.Intn(2))
			u.ent.AddFeature(u.gate)
		}
		u.dd = u.ent.GetOrAddFeature(model.FeatureTypeTypeDeviceDiagnosis, model.RoleTypeServer)
		// the first calls: one AddFunctionType(heartbeat) and 1-3 others, started in a seeded order
		u.ops = []string{"add"}
		for k := 1 + r.Intn(3); k > 0; k-- {
			u.ops = append(u.ops, others[r.Intn(len(others))])
		}
		u.order = r.Perm(len(u.ops))
		// the add arrives first in one third of the entities, last in another third, anywhere in the rest
		if last := len(u.order) - 1; i%3 < 2 {
			to := []int{0, last}[i%3]
			for j, k := range u.order {
				if k == 0 {
					u.order[to], u.order[j] = u.order[j], u.order[to]
					break
				}
			}
		}
		skews := make([]int, len(u.ops))
		for k := range skews {
			skews[k] = r.Intn(2000)
		}
		u.mid = []string{"", "", "isrunning", "start"}[r.Intn(4)]
		u.closing = []string{"stop", "remove"}[r.Intn(2)]
		u.late = r.Intn(4) == 0
		us = append(us, u)
		if !u.group(c, w, skews) {
			return
		}
		c.Events(int64(len(u.ops)))
		stops := false
		for _, op := range u.ops {
			if op == "stop" || op == "remove" {
				stops = true
			}
		}
		if !stops {
			u.expectRun = 1 // AddFunctionType returned and started the heartbeat, nothing stopped it
		}
		if u.convoy {
			c.Count("firstuse_groups_that_arrived_while_the_entity_mutex_was_held", 1)
		}
		c.Count("firstuse_groups:"+u.mode, 1)
		// what the state is now, asked the way an application asks
		if u.expectRun >= 0 {
			got := u.guarded(c, w, "isrunning")
			c.Events(1)
			if got != "panic" && got != "true" {
				c.Violate("first-use/isrunning-disagrees-with-last-call", "IsHeartbeatRunning() = %s after AddFunctionType(heartbeat) and the other first calls of the entity had returned, none of which stops the heartbeat\n %s", got, u.history())
			}
		}
		switch u.mid {
		case "isrunning":
			u.guarded(c, w, "isrunning")
		case "start":
			res := u.guarded(c, w, "start")
			got := u.guarded(c, w, "isrunning")
			c.Events(1)
			if res != "panic" && got != "panic" && got != "true" {
				c.Violate("first-use/isrunning-disagrees-with-last-call", "IsHeartbeatRunning() = %s after a sequential StartHeartbeat (result %q) that followed the returned AddFunctionType(heartbeat)\n %s", got, res, u.history())
			}
			u.expectRun = 1
		}
		if !u.late {
			u.close(c, w)
		}
		shapes[fmt.Sprintf("%s n=%d stops=%v mid=%s closing=%s late=%v added=%v", u.mode, len(u.ops), stops, u.mid, u.closing, u.late, u.added)]++
		if i%8 == 7 {
			c.Progress()
		}
	}
	wait := 4*period + 50*time.Millisecond
	// waiting on the stack's own tickers; what is judged is the ORDER (closing call returned -> how many refreshes
	// became visible afterwards), a longer wait only shows more of them
	time.Sleep(wait)
	for _, u := range us {
		if u.closeRet != 0 {
			u.vA, u.vAok = u.counter()
			u.dA = u.data()
		}
	}
	lateN := 0
	for _, u := range us {
		if u.closeRet == 0 && !c.Failed() {
			// it ran all the time; now it is closed as well
			if v, ok := u.counter(); ok && u.vGok && v > u.vG {
				c.Count("firstuse_late_entities_refreshed_while_running", 1)
			}
			u.close(c, w)
			lateN++
		}
	}
	time.Sleep(wait)
	gaugeOK := rig.WaitFor(10*time.Second, func() bool { return liveStreams() == 0 })
	judged := 0
	for _, u := range us {
		if u.closeRet == 0 {
			continue
		}
		vB, vBok := u.counter()
		dB := u.data()
		c.Events(2)
		judged++
		after := 0
		if u.v0ok && vBok && vB > u.v0 {
			after = int(vB - u.v0)
		}
		switch {
		case u.v0ok && (!vBok || vB < u.v0):
			c.Violate("first-use/"+u.closing+"/data-changed-after-return", "the heartbeat data had counter %d right after %s returned (seq %d) and reads %s at the end\n %s", u.v0, u.closing, u.closeRet, dB, u.history())
		case after >= 2:
			c.Violate("first-use/"+u.closing+"/refreshes-continue-after-return", "after %s returned (seq %d) the heartbeat counter in the function data went from %d to %d: %d refreshes became visible, at most one can have been in flight (IsHeartbeatRunning() asked through the entity now: %s; stream goroutines alive in the process: %d)\n %s",
				u.closing, u.closeRet, u.v0, vB, after, u.guarded(c, w, "isrunning"), liveStreams(), u.history())
		case u.vAok && vBok && u.vA == vB && u.dA != dB:
			c.Violate("first-use/"+u.closing+"/data-changed-after-return", "after %s returned (seq %d) the heartbeat data was rewritten with the same counter: it read %s after the first wait and %s at the end\n %s", u.closing, u.closeRet, u.dA, dB, u.history())
		case u.v0ok && vBok && u.v0 == vB && u.d0 != dB:
			c.Violate("first-use/"+u.closing+"/data-changed-after-return", "the heartbeat data read %s right after %s returned (seq %d) and %s at the end: same counter, different content\n %s", u.d0, u.closing, u.closeRet, dB, u.history())
		}
		if after == 1 {
			c.Count("firstuse_one_refresh_in_flight_at_the_return", 1)
		}
	}
	if !gaugeOK {
		c.Count("firstuse_cases_with_stream_goroutines_alive_at_the_end", 1)
	}
	gmu.Lock()
	nm, ns := len(entered), 0
	for _, e := range entered {
		ns += e
	}
	gmu.Unlock()
	c.Count("firstuse_entities", int64(len(us)))
	c.Count("firstuse_entities_closed_late", int64(lateN))
	c.Count("firstuse_manager_objects_with_a_stream", int64(nm))
	c.Count("stream_goroutines", int64(ns))
	for s := range shapes {
		c.Seen("firstuse_group_shapes", s)
	}
	c.Seen("timeouts", timeout.String())
	var keys []string
	for s, k := range shapes {
		keys = append(keys, fmt.Sprintf("%s x%d", s, k))
	}
	sort.Strings(keys)
	c.Shape(fmt.Sprintf("firstuse %s n=%d %s", timeout, n, eHash(strings.Join(keys, ";"))))
	c.NonTrivial(judged == len(us) && judged >= n && gaugeOK)
	sm := map[string]any{"timeout": timeout.String(), "entities": len(us), "group_shapes": keys}
	if len(us) > 0 {
		sm["first_entity"] = us[0].history()
		sm["last_entity"] = us[len(us)-1].history()
	}
	c.Sample(sm)
	if c.Failed() {
		var hs []string
		for _, u := range us {
			hs = append(hs, u.history())
		}
		sm["entities_histories"] = hs
		c.Witness(sm)
	}
}

// close makes the closing call (StopHeartbeat through the accessor, or RemoveEntity), reads the data right after it
// returned and asks for the state.
func (u *c16FU) close(c *rig.Ctx, w *rig.World) {
	if u.guarded(c, w, u.closing) == "panic" {
		return
	}
	u.closeRet = rig.Seq()
	u.v0, u.v0ok = u.counter()
	u.d0 = u.data()
	got := u.guarded(c, w, "isrunning")
	c.Events(1)
	if got != "panic" && got != "false" {
		c.Violate("first-use/isrunning-disagrees-with-last-call", "IsHeartbeatRunning() = %s after %s had returned\n %s", got, u.closing, u.history())
	}
}
