package checks

import (
	"encoding/json"
	"fmt"
	"math/rand"
	"reflect"

	"github.com/enbility/spine-go/model"

	"verifharness/rig"
)

// Strengthening after wave 7: the FORM of the time values is a dimension of the histories.
//
// rig.GenVal pins every timePeriod to "absolute startTime (+ absolute endTime)" so that the one type of the data
// model that has its own JSON encoder and decoder (TimePeriodType: an endTime without startTime is re-expressed
// while it is written and read) never interferes with properties that compare DATA. C11 does not compare data, it
// compares a retained value with ITSELF (fingerprint of the Go value, which follows every pointer), so for C11
// the pin was a blind spot: every time value that takes the special path through the encoder lives two pointer
// levels below the list (item -> timePeriod -> endTime) and is therefore shared by the store, by every DataCopy
// result, by the list clones of an update and by every command that is encoded. Whatever the stack does to such
// a value WHILE IT ENCODES OR DECODES it (notify to a subscriber, reply to a read, the application encoding one
// copy) must not be visible in any value handed out earlier.
//
// c11TimeForms rewrites, right after an update was generated and before anything was handed to the stack, the time
// values of the update's items into one of the forms an application or a peer can legitimately supply:
//
//	timePeriod   as generated (absolute start) | only endTime, a duration literal (the form that never arrives from the
//	             wire: the decoder turns it into an absolute time) | only endTime, absolute | start and end both
//	             durations | only startTime (duration) | empty
//	other absoluteOrRelativeTime / duration values: a duration literal or an absolute time instead of a random string
//
// All literals are drawn from the case's random source; none depends on the clock. Over the wire the decoder
// of the stack turns "only endTime, duration" into now+duration: the stored VALUE then depends on the clock, which
// is of no concern here, no oracle of C11 looks at what an update does to the data.
var c11TimePeriodT = reflect.TypeOf(model.TimePeriodType{})
var c11AbsRelT = reflect.TypeOf(model.AbsoluteOrRelativeTimeType(""))
var c11DurationT = reflect.TypeOf(model.DurationType(""))

var c11DurationLits = []string{"PT%dH", "PT%dM", "PT%dS", "P1DT%dH", "P%dD", "PT1H%dM"}

func c11DurationLit(r *rand.Rand) string {
	return fmt.Sprintf(c11DurationLits[r.Intn(len(c11DurationLits))], 1+r.Intn(47))
}

func c11AbsLit(r *rand.Rand) string {
	return fmt.Sprintf("20%02d-%02d-%02dT%02d:00:00Z", 31+r.Intn(4), 1+r.Intn(12), 1+r.Intn(28), r.Intn(24))
}

// c11TimePeriodForm returns a fresh timePeriod in a randomly chosen form ("" = keep what was generated).
func c11TimePeriodForm(r *rand.Rand) (tp model.TimePeriodType, form string) {
	art := func(s string) *model.AbsoluteOrRelativeTimeType { return model.NewAbsoluteOrRelativeTimeType(s) }
	switch r.Intn(10) {
	case 0, 1, 2:
		return tp, ""
	case 3, 4, 5:
		return model.TimePeriodType{EndTime: art(c11DurationLit(r))}, "end-only-duration"
	case 6:
		return model.TimePeriodType{EndTime: art(c11AbsLit(r))}, "end-only-absolute"
	case 7:
		return model.TimePeriodType{StartTime: art(c11DurationLit(r)), EndTime: art("P3DT" + fmt.Sprint(r.Intn(24)) + "H")}, "start-and-end-durations"
	case 8:
		return model.TimePeriodType{StartTime: art(c11DurationLit(r))}, "start-only-duration"
	}
	return model.TimePeriodType{}, "empty"
}

// c11TimeForms rewrites the time values of the items of u (see above). The items were generated a moment ago and
// nothing else refers to them yet. Returns the number of values rewritten.
func c11TimeForms(c *rig.Ctx, li *rig.ListInfo, u *rig.Update) int {
	n := 0
	for i, it := range u.Items {
		if !it.IsValid() {
			continue
		}
		if !it.CanSet() {
			nv := reflect.New(it.Type()).Elem()
			nv.Set(it)
			u.Items[i], it = nv, nv
		}
		n += c11ReformTimes(c, it, 0)
	}
	if n > 0 {
		c.Seen("functions_with_time_values_in_varied_form", string(li.Fn))
	}
	return n
}

func c11ReformTimes(c *rig.Ctx, v reflect.Value, depth int) int {
	if depth > 6 || !v.IsValid() {
		return 0
	}
	r := c.Rand
	switch v.Kind() {
	case reflect.Ptr:
		if v.IsNil() {
			return 0
		}
		switch v.Type().Elem() {
		case c11TimePeriodT:
			if !v.CanSet() {
				return 0
			}
			tp, form := c11TimePeriodForm(r)
			if form == "" {
				c.Count("time_period_form:as-generated(absolute start)", 1)
				return 0
			}
			v.Set(reflect.ValueOf(&tp))
			c.Count("time_period_form:"+form, 1)
			return 1
		case c11AbsRelT, c11DurationT:
			if !v.CanSet() {
				return 0
			}
			s, form := "", ""
			switch x := r.Intn(4); {
			case x == 0:
				return 0
			case x == 1 && v.Type().Elem() == c11AbsRelT:
				s, form = c11AbsLit(r), "absolute"
			default:
				s, form = c11DurationLit(r), "duration"
			}
			p := reflect.New(v.Type().Elem())
			p.Elem().SetString(s)
			v.Set(p)
			c.Count("time_value_form:"+form, 1)
			return 1
		}
		return c11ReformTimes(c, v.Elem(), depth+1)
	case reflect.Struct:
		if v.Type() == c11TimePeriodT {
			if !v.CanSet() {
				return 0
			}
			tp, form := c11TimePeriodForm(r)
			if form == "" {
				return 0
			}
			v.Set(reflect.ValueOf(tp))
			c.Count("time_period_form:"+form, 1)
			return 1
		}
		n := 0
		for i := 0; i < v.NumField(); i++ {
			if v.Type().Field(i).PkgPath != "" {
				continue
			}
			n += c11ReformTimes(c, v.Field(i), depth+1)
		}
		return n
	case reflect.Slice:
		n := 0
		for i := 0; i < v.Len(); i++ {
			n += c11ReformTimes(c, v.Index(i), depth+1)
		}
		return n
	}
	return 0
}

// c11AppEncode: the APPLICATION encodes one of the values it holds (json.Marshal of a retained snapshot, event
// payload or returned value, chosen at random). That is a read of that value by its owner; it is not an operation
// on the stack and must not change any value handed out (the encoded one included: the caller re-fingerprints all
// of them). The encoders of the data model run on the application's goroutine here, exactly as they do when
// the stack encodes the store for a peer.
func (k *c11Keeper) appEncode(r *rand.Rand) (what string, ok bool) {
	set := k.cur
	if len(set) == 0 {
		set = k.old
	}
	if len(set) == 0 {
		return "", false
	}
	e := set[r.Intn(len(set))]
	if rig.IsNil(e.v) {
		return e.src + " (no data)", true
	}
	if _, err := json.Marshal(e.v); err != nil {
		// whether a value can be encoded is not C11's subject
		k.c.Count("app_encode_errors", 1)
	}
	k.c.Count("app_encode:"+e.src, 1)
	return e.src, true
}
