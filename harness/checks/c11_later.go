package checks

import (
	"encoding/json"
	"fmt"
	"math/rand"
	"reflect"

	"github.com/enbility/spine-go/model"
	"github.com/enbility/spine-go/spine"
	"github.com/enbility/spine-go/util"

	"verifharness/rig"
)

// C11, strengthening after wave 6 (seeded changes C11-m11, C11-m12). Two dimensions were pinned to one value:
//
//  1. WHAT HAPPENS "LATER". Between taking a value and looking at it again the monitor only ever made the stack
//     process UPDATES of the function. An application also READS in between, and the stack serves reads from
//     the same store: read requests of the peer (full, with a selector, with elements: the reply is built from
//     a copy of the outer struct that shares its lists with the store), subscriptions (every later update is
//     encoded for the subscriber), FeatureLocal.RequestRemoteData, the typed helpers
//     Local/RemoteFeatureDataCopyOfType, DeviceRemote.UseCases(), EntityLocal.HasUseCaseSupport, and changes of
//     the device tree the data talks ABOUT (the peer removes or adds an entity its use case data names, a local
//     entity is removed and added again). A read that "tidies up" what it returns writes through the shared
//     backing array into every value handed out before. c11ReadOp (lists, race) and the read / entity steps of
//     the use case histories execute such operations between the updates; every retained value is
//     re-fingerprinted after each of them (signature <source>/changed-by/read/<operation>).
//     The use case data of the peer was random and three levels deep, i.e. its entries never carried an entity
//     address: c11PeerUseCases builds entries that name entities the peer has, had (removed by a discovery
//     notify) or never had, with and without device address, so that code which relates the data to the device
//     tree has something to relate.
//
//  2. THE FORM OF THE FILTERS. Every update carried the one well-formed filter pair of its shape. The statement
//     quantifies over updates, not over well-formed ones: c11OddFilters turns the filters of every sixth update
//     into a legal but unusual form (a delete filter that names neither selector nor elements, filters without
//     cmdControl, with both controls, selector of another function, filters swapped, an empty filter, a partial
//     filter with elements, a delete filter together with items that carry identifiers), through every path.
//     What such an update does to the data is not judged; the clauses are the usual ones: not persisted or
//     reported as failed => the store is as it was; values handed out earlier do not change.

// ---------------------------------------------------------------------------
// odd filter forms

var c11OddForms = []string{"bare-delete", "bare-delete-alone", "no-cmdcontrol", "both-controls", "foreign-selector", "swapped", "empty-delete", "empty-partial", "partial-with-elements", "delete-filter-with-items"}

func c11BareDelete() *model.FilterType {
	return &model.FilterType{CmdControl: &model.CmdControlType{Delete: &model.ElementTagType{}}}
}

// c11OddFilters derives an unusual filter pair from the well-formed pair (fp, fd) of u. It may add items that
// carry identifiers to an update that has none (a delete filter does not forbid a payload). ok=false: the form
// does not exist for this list type.
//
// wire=false (the application calls FeatureLocal/FeatureRemote.UpdateData itself): the selector of another function
// is not generated. The API takes the filters as given, and an application that hands over a selector of the wrong
// type is outside what the statement quantifies over (the unchanged tree panics in FilterType.SetDataForFunction
// when it builds the notify for such a call: reported as a side observation, not judged here).
func c11OddFilters(r *rand.Rand, li *rig.ListInfo, u *rig.Update, fp, fd *model.FilterType, wire bool) (ofp, ofd *model.FilterType, form string, ok bool) {
	clone := func(f *model.FilterType) *model.FilterType {
		if f == nil {
			return nil
		}
		c := *f
		return &c
	}
	withItems := func() {
		if len(u.Items) == 0 && len(li.Keys) > 0 {
			for _, id := range r.Perm(c02Dom)[:1+r.Intn(2)] {
				u.Items = append(u.Items, li.NewItem(r, id))
			}
		}
	}
	form = c11OddForms[r.Intn(len(c11OddForms))]
	if form == "foreign-selector" && !wire {
		form = "bare-delete"
	}
	ofp, ofd = clone(fp), clone(fd)
	switch form {
	case "bare-delete":
		// cmdControl.delete and nothing else, next to whatever partial filter the shape has
		ofd = c11BareDelete()
		if r.Intn(2) == 0 {
			withItems()
		}
	case "bare-delete-alone":
		ofp, ofd = nil, c11BareDelete()
		withItems()
	case "no-cmdcontrol":
		if ofp == nil && ofd == nil {
			if !li.SelCoversKeys {
				return nil, nil, form, false
			}
			_, ofd, _ = li.Filters(rig.Update{Kind: "delete-sel", SelKey: -1, DelSel: r.Intn(c02Dom)})
		}
		if ofp != nil {
			ofp.CmdControl = nil
		}
		if ofd != nil {
			ofd.CmdControl = nil
		}
	case "both-controls":
		both := func() *model.CmdControlType {
			return &model.CmdControlType{Delete: &model.ElementTagType{}, Partial: &model.ElementTagType{}}
		}
		if ofp == nil && ofd == nil {
			ofd = &model.FilterType{}
		}
		if ofp != nil {
			ofp.CmdControl = both()
		}
		if ofd != nil {
			ofd.CmdControl = both()
		}
	case "foreign-selector":
		// a delete filter whose selector belongs to another list function
		lists := rig.DiscoverLists()
		var other *rig.ListInfo
		for _, i := range r.Perm(len(lists))[:8] {
			if l := &lists[i]; l.Fn != li.Fn && l.SelCoversKeys && l.SelIdx != li.SelIdx {
				other = l
				break
			}
		}
		if other == nil {
			return nil, nil, form, false
		}
		_, ofd, _ = other.Filters(rig.Update{Kind: "delete-sel", SelKey: -1, DelSel: r.Intn(c02Dom)})
		if r.Intn(2) == 0 {
			withItems()
		}
	case "swapped":
		if ofp == nil && ofd == nil {
			return nil, nil, form, false
		}
		ofp, ofd = ofd, ofp
	case "empty-delete":
		ofd = &model.FilterType{}
		if r.Intn(2) == 0 {
			withItems()
		}
	case "empty-partial":
		ofp = &model.FilterType{}
	case "partial-with-elements":
		if li.ElT == nil || len(li.NonKeyPtr) == 0 {
			return nil, nil, form, false
		}
		_, e, eok := li.Filters(rig.Update{Kind: "delete-elem", SelKey: -1, DelSel: -1, DelElem: []int{li.NonKeyPtr[r.Intn(len(li.NonKeyPtr))]}})
		if !eok || e == nil {
			return nil, nil, form, false
		}
		e.CmdControl = &model.CmdControlType{Partial: &model.ElementTagType{}}
		if ofp != nil && li.SelIdx != li.ElIdx {
			// keep the selector the shape has
			reflect.ValueOf(e).Elem().Field(li.SelIdx).Set(reflect.ValueOf(ofp).Elem().Field(li.SelIdx))
		}
		ofp = e
		withItems()
	case "delete-filter-with-items":
		// the well-formed delete filter of a delete shape, no partial filter, and items with identifiers
		if ofd == nil || len(li.Keys) == 0 {
			return nil, nil, form, false
		}
		ofp = nil
		withItems()
	}
	return ofp, ofd, form, true
}

// wireFilters builds the datagram for the items of u (none at all if nilPayload) with exactly the given filters.
func (lw *listWorld) wireFilters(r *rand.Rand, u rig.Update, fp, fd *model.FilterType, nilPayload bool, cl model.CmdClassifierType, src, dst *model.FeatureAddressType) ([]byte, model.MsgCounterType, error) {
	mc := lw.p.NextCounter()
	fn := lw.li.Fn
	cmd := model.CmdType{}
	if !nilPayload {
		cmd.SetDataForFunction(fn, lw.li.MkList(rig.CloneItems(u.Items)))
	}
	if fp != nil || fd != nil || nilPayload {
		cmd.Function = &fn
	}
	if fd != nil {
		cmd.Filter = append(cmd.Filter, *fd)
	}
	if fp != nil {
		cmd.Filter = append(cmd.Filter, *fp)
	}
	if len(cmd.Filter) == 2 && r.Intn(2) == 0 {
		cmd.Filter[0], cmd.Filter[1] = cmd.Filter[1], cmd.Filter[0]
	}
	var ref *model.MsgCounterType
	if cl == model.CmdClassifierTypeReply {
		ref = util.Ptr(c11ReplyRef)
	}
	b, err := json.Marshal(rig.Datagram(cl, src, dst, mc, true, ref, cmd))
	return b, mc, err
}

// ---------------------------------------------------------------------------
// operations that are not updates of the function (lists, race)

var c11ReadOps = []string{"peer-read", "peer-read-selector", "peer-read-elements", "peer-read-remote-side", "request-remote-data", "peer-subscribe-toggle", "datacopy-both", "peer-read-discovery", "app-encodes-a-retained-value"}

// c11ReadOp makes the stack serve one read (or change who is notified) and re-fingerprints every retained value
// of the running history. Values the operation hands out are retained too. Never called in a blind history:
// a read served from the store is an observer just like the monitor's own DataCopy.
func c11ReadOp(c *rig.Ctx, lw *listWorld, k *c11Keeper, st *c11Stats) {
	li, r, fn := lw.li, c.Rand, lw.li.Fn
	op := c11ReadOps[r.Intn(len(c11ReadOps))]
	readCmd := func(sel, elem bool) model.CmdType {
		cmd := model.CmdType{}
		cmd.SetDataForFunction(fn, reflect.New(li.PtrT.Elem()).Interface())
		if !sel && !elem {
			return cmd
		}
		f := model.FilterType{CmdControl: &model.CmdControlType{Partial: &model.ElementTagType{}}}
		if sel && li.SelCoversKeys && len(li.Keys) > 0 {
			id := r.Intn(c02Dom)
			if ids := c11PresentIds(li, li.Items(lw.local.DataCopy(fn))); len(ids) > 0 && r.Intn(4) > 0 {
				id = ids[r.Intn(len(ids))]
			}
			reflect.ValueOf(&f).Elem().Field(li.SelIdx).Set(li.Selector(id))
		}
		if elem && li.ElT != nil && len(li.NonKeyPtr) > 0 {
			if _, e, ok := li.Filters(rig.Update{Kind: "delete-elem", SelKey: -1, DelSel: -1, DelElem: []int{li.NonKeyPtr[r.Intn(len(li.NonKeyPtr))]}}); ok && e != nil {
				reflect.ValueOf(&f).Elem().Field(li.ElIdx).Set(reflect.ValueOf(e).Elem().Field(li.ElIdx))
			}
		}
		cmd.Function = util.Ptr(model.FunctionType(""))
		cmd.Filter = []model.FilterType{f}
		return cmd
	}
	peerRead := func(cmd model.CmdType, src, dst *model.FeatureAddressType) {
		lw.p.Tap.Take()
		mc := lw.p.Send(model.CmdClassifierTypeRead, src, dst, false, nil, cmd)
		res := rig.Classify(lw.p.Tap.Take(), mc)
		c.Count(fmt.Sprintf("read_op_answered:%s replies=%d errors=%d", op, res.Replies, res.Errors), 1)
	}
	switch op {
	case "peer-read":
		peerRead(readCmd(false, false), lw.peerCli, lw.local.Address())
	case "peer-read-selector":
		peerRead(readCmd(true, false), lw.peerCli, lw.local.Address())
	case "peer-read-elements":
		peerRead(readCmd(r.Intn(2) == 0, true), lw.peerCli, lw.local.Address())
	case "peer-read-remote-side":
		// a read aimed at the local CLIENT feature (to be rejected): nothing it touches may reach the data
		peerRead(readCmd(false, false), lw.remoteAddr, lw.localCli.Address())
	case "request-remote-data":
		var sel, el any
		if li.SelCoversKeys && len(li.Keys) > 0 && r.Intn(2) == 0 {
			sel = li.Selector(r.Intn(c02Dom)).Interface()
		}
		if li.ElT != nil && r.Intn(2) == 0 {
			el = reflect.New(li.ElT).Interface()
		}
		_, _ = lw.localCli.RequestRemoteData(fn, sel, el, lw.remote)
		lw.p.Tap.Take()
	case "peer-subscribe-toggle":
		// from now on (until the next toggle) every update of the local store is encoded for the peer
		lw.p.Tap.Take()
		if k.subscribed {
			lw.p.Unsubscribe(lw.peerCli, lw.local.Address())
		} else {
			lw.p.Subscribe(lw.peerCli, lw.local.Address(), lw.T)
		}
		k.subscribed = !k.subscribed
		lw.p.Tap.Take()
	case "datacopy-both":
		lv, rv := lw.local.DataCopy(fn), lw.remote.DataCopy(fn)
		k.note("local", lv)
		k.note("remote", rv)
		k.keep("datacopy-local", lv, "read between two updates")
		k.keep("datacopy-remote", rv, "read between two updates")
	case "app-encodes-a-retained-value":
		// the application encodes one of the values it holds (x_c11_times.go): no value handed out may change
		if what, ok := k.appEncode(r); ok {
			k.hist = append(k.hist, "the application encodes (json.Marshal) a retained value obtained from "+what)
		}
	case "peer-read-discovery":
		lw.p.Tap.Take()
		lw.p.Send(model.CmdClassifierTypeRead, lw.p.NM(), rig.LNM, false, nil, model.CmdType{NodeManagementDetailedDiscoveryData: &model.NodeManagementDetailedDiscoveryDataType{}})
		lw.p.Tap.Take()
	}
	st.events += k.keepEvents(lw.w, "event of the read operation "+op)
	st.reads++
	st.shapeSeq = append(st.shapeSeq, (";r:" + op)...)
	k.hist = append(k.hist, "read operation "+op)
	c.Count("read_op:"+op, 1)
	k.recheck(k.cur, "read/"+op)
}

// ---------------------------------------------------------------------------
// use case data of the peer that talks about the peer's device tree

var (
	c11PeerEnts   = [][]uint{{1}, {1, 1}, {2}}              // entities the peer announces (and removes / adds again)
	c11NamedEnts  = [][]uint{{1}, {1, 1}, {2}, {3}, {2, 1}} // entities its use case data names ({3}, {2,1}: never announced)
	c11PeerActors = []model.UseCaseActorType{model.UseCaseActorTypeEVSE, model.UseCaseActorTypeEV, model.UseCaseActorTypeControllableSystem, model.UseCaseActorTypeMonitoredUnit}
)

func c11PeerFeats(ents [][]uint) []rig.FS {
	fs := []rig.FS{rig.NMFS}
	for _, e := range ents {
		fs = append(fs, rig.FS{Ent: e, Id: 1, Typ: model.FeatureTypeTypeGeneric, Role: model.RoleTypeServer})
	}
	return fs
}

// c11PeerUseCases builds use case data with 1-5 entries; each names an entity (rarely none), mostly with the
// device address. named reports the entity addresses used (rendered).
func c11PeerUseCases(r *rand.Rand, p *rig.Peer) (data *model.NodeManagementUseCaseDataType, named []string) {
	data = &model.NodeManagementUseCaseDataType{}
	for _, i := range r.Perm(len(c11NamedEnts))[:1+r.Intn(len(c11NamedEnts))] {
		info := model.UseCaseInformationDataType{Actor: util.Ptr(c11PeerActors[r.Intn(len(c11PeerActors))])}
		if r.Intn(8) > 0 {
			a := &model.FeatureAddressType{Entity: spine.NewAddressEntityType(c11NamedEnts[i])}
			if r.Intn(5) > 0 {
				a.Device = util.Ptr(model.AddressDeviceType(p.Addr))
			}
			info.Address = a
			named = append(named, fmt.Sprint(c11NamedEnts[i]))
		}
		for j := 0; j <= r.Intn(2); j++ {
			uc := model.UseCaseSupportType{
				UseCaseName:      util.Ptr(c11Names[r.Intn(len(c11Names))]),
				UseCaseVersion:   util.Ptr(model.SpecificationVersionType(fmt.Sprintf("1.%d.0", r.Intn(3)))),
				UseCaseAvailable: util.Ptr(r.Intn(2) == 0),
			}
			for s := 0; s <= r.Intn(3); s++ {
				uc.ScenarioSupport = append(uc.ScenarioSupport, model.UseCaseScenarioSupportType(1+r.Intn(5)))
			}
			info.UseCaseSupport = append(info.UseCaseSupport, uc)
		}
		data.UseCaseInformation = append(data.UseCaseInformation, info)
	}
	return data, named
}

// c11PeerTree is what the harness knows about the peer's announced entities.
type c11PeerTree struct {
	alive map[string]bool // fmt.Sprint(entity address) -> announced and not removed
	named []string        // entities named by the use case data the peer sent last
}

// stale: the data the peer sent last names an entity the peer does not have (any more).
func (t *c11PeerTree) stale() bool {
	for _, n := range t.named {
		if !t.alive[n] {
			return true
		}
	}
	return false
}
