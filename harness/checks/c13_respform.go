package checks

import (
	"encoding/json"
	"fmt"
	"math/rand"

	"github.com/enbility/spine-go/model"
	"github.com/enbility/spine-go/util"

	"verifharness/rig"
)

// C13: the FORM of an inbound response, and the STATE of the connection it arrives on.
//
// The statement says "a response referencing that counter re-enables sending": what makes an inbound datagram the
// response to a request is the msgCounterReference it carries on the connection the request was written to - nothing
// else. Everything else about that datagram is therefore a dimension the histories have to vary, because an
// implementation can (wrongly) make the bookkeeping depend on it:
//
//   who      the response comes from the feature the request was sent TO and goes to the feature it was sent FROM
//            (what a real peer does: NodeManagement answers a subscription call, [2]/1 answers a read to [2]/1), or
//            from one fixed announced feature to the local client feature, whatever the request was
//   srcDev   the device element of addressSource: the announced device address; omitted (the element is optional in a
//            SPINE feature address, the stack itself resolves remote features by entity and feature only); a string
//            that was never announced; the OTHER address the peer has announced on this connection (before / after a
//            re-announcement under a changed device address)
//   dstDev   the device element of addressDestination: the local device address; omitted; a foreign string
//   own      the response's own msgCounter: the peer's running counter (far away from ours); numerically EQUAL to the
//            counter it references (both sides count from 1, so this is ordinary); a small number that may repeat or
//            be lower than an earlier inbound counter (a peer that started counting again)
//   ack      ackRequest omitted, true, or an explicit false
//   cmds     one command, or the command twice
//   spec     specificationVersion present or omitted
//   path     delivered through DeviceRemote.HandleSpineMesssage or through the SHIP reader interface
//            DeviceRemote.HandleShipPayloadMessage
//
// and the connection state: the peer's device address is known (detailed discovery done), not known yet (the peer
// has not announced itself: the response arrives before, the announcement possibly later in the history), or has
// CHANGED (the peer announced itself again under another device address in the middle of the history).
//
// None of these may influence the verdicts: the reference model treats every delivered datagram that carries a
// msgCounterReference as the response to that counter.

type c13Form struct {
	natural bool
	srcDev  int // 0 current announced address, 1 omitted, 2 never announced, 3 the other address announced on this connection
	dstDev  int // 0 local device address, 1 omitted, 2 foreign
	own     int // 0 running, 1 equal to the referenced counter, 2 small
	ack     int // 0 omitted, 1 true, 2 explicit false
	two     bool
	noSpec  bool
	ship    bool
}

func (f c13Form) canonical() bool { return f == c13Form{} }

// code: a short rendering for shapes and evidence (no payload values)
func (f c13Form) code() string {
	if f.canonical() {
		return "-"
	}
	b := func(x bool) int {
		if x {
			return 1
		}
		return 0
	}
	return fmt.Sprintf("n%ds%dd%do%da%dc%dv%dp%d", b(f.natural), f.srcDev, f.dstDev, f.own, f.ack, b(f.two), b(f.noSpec), b(f.ship))
}

func (f c13Form) String() string {
	if f.canonical() {
		return "canonical form"
	}
	s := ""
	add := func(x string) {
		if s != "" {
			s += ", "
		}
		s += x
	}
	if f.natural {
		add("from the request's destination to the request's source")
	}
	switch f.srcDev {
	case 1:
		add("addressSource WITHOUT device")
	case 2:
		add("addressSource with a device string nobody announced")
	case 3:
		add("addressSource with the other device address this peer has announced")
	}
	switch f.dstDev {
	case 1:
		add("addressDestination without device")
	case 2:
		add("addressDestination with a foreign device")
	}
	switch f.own {
	case 1:
		add("own msgCounter equal to the referenced counter")
	case 2:
		add("small own msgCounter")
	}
	switch f.ack {
	case 1:
		add("ackRequest true")
	case 2:
		add("ackRequest false (explicit)")
	}
	if f.two {
		add("two commands")
	}
	if f.noSpec {
		add("no specificationVersion")
	}
	if f.ship {
		add("through HandleShipPayloadMessage")
	}
	return s
}

// c13DrawForm: 2 of 5 responses are canonical (what every test vector looks like); the others deviate in the source
// device (the most frequent deviation in the field: the element is optional) and/or in one to three other dimensions.
func c13DrawForm(r *rand.Rand) c13Form {
	var f c13Form
	if r.Intn(5) < 2 {
		return f
	}
	if r.Intn(2) == 0 {
		f.srcDev = 1 + r.Intn(3)
	}
	if r.Intn(3) == 0 {
		f.natural = true
	}
	for n := 1 + r.Intn(3); n > 0; n-- {
		switch r.Intn(8) {
		case 0:
			f.natural = true
		case 1:
			f.srcDev = 1 + r.Intn(3)
		case 2:
			f.dstDev = 1 + r.Intn(2)
		case 3:
			f.own = 1 + r.Intn(2)
		case 4:
			f.ack = 1 + r.Intn(2)
		case 5:
			f.two = true
		case 6:
			f.noSpec = true
		default:
			f.ship = true
		}
	}
	return f
}

// c13WithDev returns a copy of a whose device element follows mode (see c13Form.srcDev); other = the other address the
// peer has announced on this connection ("" = there is none: the address stays as it is).
func c13WithDev(a *model.FeatureAddressType, mode int, other string) *model.FeatureAddressType {
	if a == nil {
		return nil
	}
	b := *a
	switch mode {
	case 1:
		b.Device = nil
	case 2:
		b.Device = util.Ptr(model.AddressDeviceType("d:_n:nobody_announced"))
	case 3:
		if other != "" {
			b.Device = util.Ptr(model.AddressDeviceType(other))
		}
	}
	return &b
}

// c13Deliver builds the response (classifier cl from src to dst referencing ref, payload cmd) in form f and delivers
// it on p's connection. r draws the small own counter. The returned string is empty unless the delivery panicked
// out of the stack's reader entry point (which HandleSpineMesssage's own recover should make impossible).
func c13Deliver(p *rig.Peer, r *rand.Rand, f c13Form, cl model.CmdClassifierType, src, dst *model.FeatureAddressType, ref model.MsgCounterType, cmd model.CmdType, otherAddr string) (problem string) {
	var mc model.MsgCounterType
	switch {
	case f.own == 1 && ref != 0:
		mc = ref
	case f.own == 2:
		mc = model.MsgCounterType(1 + r.Intn(40))
	default:
		mc = p.NextCounter()
	}
	rf := ref
	d := rig.Datagram(cl, c13WithDev(src, f.srcDev, otherAddr), c13WithDev(dst, f.dstDev, ""), mc, f.ack == 1, &rf, cmd)
	if f.ack == 2 || (f.ack == 0 && p.AckFalse) {
		d.Datagram.Header.AckRequest = util.Ptr(false)
	}
	if f.two {
		d.Datagram.Payload.Cmd = append(d.Datagram.Payload.Cmd, cmd)
	}
	if f.noSpec {
		d.Datagram.Header.SpecificationVersion = nil
	}
	b, err := json.Marshal(d)
	if err != nil {
		return "harness: cannot marshal the response: " + err.Error()
	}
	if !f.ship {
		if rec := p.Raw(b); rec != "" {
			return "HandleSpineMesssage panicked: " + rec
		}
		return ""
	}
	rd, ok := p.RD.(interface{ HandleShipPayloadMessage(message []byte) })
	if !ok {
		p.Raw(b)
		return ""
	}
	defer func() {
		if x := recover(); x != nil {
			problem = fmt.Sprintf("HandleShipPayloadMessage panicked: %v", x)
		}
	}()
	rd.HandleShipPayloadMessage(b)
	return ""
}
