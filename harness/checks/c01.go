package checks

import (
	"encoding/json"
	"fmt"
	"reflect"
	"sort"
	"strings"
	"time"

	"github.com/enbility/spine-go/api"
	"github.com/enbility/spine-go/model"
	"github.com/enbility/spine-go/spine"
	"github.com/enbility/spine-go/util"

	"verifharness/rig"
)

// C01 — every inbound request gets exactly the one correctly addressed response.
//
// One case = one World (local server + client feature of one feature type T, NodeManagement, three
// identically numbered peers) in one prior state, one sending peer, and the request matrix
// classifier(6) x function(all of T / all nodeManagement functions / 2 foreign) x ack x destination
// {nm, server, client, special (a special-role feature that is not NodeManagement), unknown}; requests
// without ack carry an explicit "ackRequest": false in a seeded half of the cells. Both tiers walk
// every cell. After each injection (handling is synchronous) the complete outbound trace of
// all three connections is compared with the table written from the statement (DESIGN.md, C01).

func init() {
	types := c01Types()
	rig.Register(&rig.Check{
		ID:    "C01",
		Floor: 40,
		Rule: "case = (feature type T, prior state pristine|after a random prefix of subscribes, binds and data updates, sending peer 0..2); its cells are the request matrix classifier x function x ack (requested, omitted, explicitly false) x destination kind (NodeManagement, server, client, a special-role data feature, unknown in five address forms, foreign device part), walked in a per-case shuffled order, a fifth of the datagrams carrying the cmd twice, a third of the reply/result cells referencing a request of the stack that is really outstanding, half of the data-feature cells dressed in one of six legal cmd envelopes (optional function element naming the payload or empty, partial / delete filter with or without selector or elements), five in eight of all requests (all three parts) carrying optional header elements (addressOriginator naming another feature of the sender / the sender's numbers on another connected device / an unknown device / the addressed feature / another local feature / no device part / the source itself; absolute or relative timestamp), " +
			"enumerated completely in every case of both tiers (quick: two rounds over all feature types, prior states and senders, the second sending from the nested entity [1,1]; thorough: eight rounds with fresh prefixes and payloads). A case is non-trivial if at least one reply, one success result and one error result were observed and judged; " +
			"distinct = distinct (T, prior state, sender, set of response classes seen). Part local-tree: case = (T, sender, a history of 7 (thorough 12) changes of the local tree: entities added, removed sequentially / inside the destination lookup of an inbound datagram / concurrently with deliveries on all connections, added again under the same address with another role layout and other data, features added after having been asked for in vain), every request kind sent to feature numbers 1..3 of the changed address, of a neighbour and of the stable entity after every change; non-trivial if a reply, a success and an error result were judged and at least one change overlapped a delivery.",
		Assumptions: []string{
			"message handling is synchronous in HandleSpineMesssage when no approval callback is registered, so the trace is complete when the call returns",
			"acceptance is predicted only where the statement leaves no doubt; elsewhere the shape (exactly one of the allowed response sets, never both, never twice) is asserted",
			"the stack's re-request (a read without reference) after a rejected notify is allowed",
			"datagrams WITHOUT the request's reference are predicted from harness state on every tap: at most one re-read of the same function (addressed feature -> request source) after a notify answered with an error; at most one notify per reference subscriber of the written feature after an accepted write; at most one subscription call and one use-case read (local NodeManagement -> sender's NodeManagement) after an accepted discovery reply. Anything else is a violation of 'no more' (their presence is other properties' subject and not demanded here)",
			"a datagram carrying the same cmd twice is one request: exactly one response set, as for the single cmd",
			"a destination naming another device than the local one (a connected peer's address or an unknown one) is a destination feature that does not exist here: one error result",
			"the optional header elements addressOriginator and timestamp select neither a row of the statement's table nor an address of a response: a request carrying them gets the response set of the plain request, addressed to addressSource, from addressDestination with the local device address, referencing msgCounter (the originator values are chosen so that any other derivation yields a different address)",
			"the optional cmd elements function and filter do not select the row of the statement's table: a read of a server or special feature gets its one reply whether the function element is absent, names the payload or is empty (as senders write it next to a partial filter), and an empty update of a list restricted to 'partial' is as acceptable as the bare empty payload; the content of a reply to a read carrying a selector or elements is not compared",
			"local-tree: a datagram in flight while the application adds or removes the addressed entity may be served by the state before or after the change (exactly one of the two response sets); a datagram sent after the change has returned is judged by the state after it. The window inside the destination lookup is opened through the public api.EntityLocalInterface (an entity embedding *spine.EntityLocal); no verdict depends on the window having been reached",
			"the heartbeat timer of the DeviceDiagnosis world is stopped by the harness (it would write data and notify at wall-clock times); the expectation for reply content is the harness's own record of SetData calls and accepted full writes, after one JSON round trip",
		},
		Parts: []rig.Part{{
			Name: "matrix",
			Cases: func(t rig.Tier) int {
				// one round = every (feature type, prior state, sender) once, each walking the complete cell matrix;
				// odd rounds send from the peers' nested entity [1,1]
				if t == rig.Thorough {
					return len(types) * 2 * 3 * 8
				}
				return len(types) * 2 * 3 * 2
			},
			Run: c01Case,
		}, {
			// one case per feature type: every function x five odd filter forms x four request kinds (c01_filter.go)
			Name:  "odd-filter",
			Cases: func(t rig.Tier) int { return len(types) * map[rig.Tier]int{rig.Quick: 1, rig.Thorough: 6}[t] },
			Run:   c01OddFilter,
		}, {
			// the destination as a history: entities and features added, removed and added again by the application,
			// sequentially, inside the destination lookup of an inbound datagram, and concurrently with deliveries (c01_tree.go)
			Name:  "local-tree",
			Cases: func(t rig.Tier) int { return len(types) * map[rig.Tier]int{rig.Quick: 2, rig.Thorough: 8}[t] },
			Run:   c01Tree,
			Quiet: 150 * time.Second,
		}},
	})
}

func c01Types() []model.FeatureTypeType {
	var ts []model.FeatureTypeType
	for _, ft := range rig.FeatureTypes() {
		if ft == model.FeatureTypeTypeNodeManagement || ft == model.FeatureTypeTypeGeneric {
			continue
		}
		if len(rig.FunctionsOf(ft)) > 0 {
			ts = append(ts, ft)
		}
	}
	return ts
}

// c01PinnedRows: the number of functions the function table registers per feature type, i.e. the rows of
// the request matrix, as the unchanged tree yields them. A function silently leaving (or entering) a
// feature type's table changes what "every function registered for the addressed feature type" means
// without any cell failing, so the counts are pinned here and a difference is reported.
var c01PinnedRows = map[model.FeatureTypeType]int{
	"ActuatorLevel": 2, "ActuatorSwitch": 2, "Alarm": 1, "DataTunneling": 1, "DeviceClassification": 2, "DeviceDiagnosis": 3,
	"DirectControl": 2, "ElectricalConnection": 6, "HVAC": 8, "LoadControl": 6, "Measurement": 5, "Messaging": 1,
	"NetworkManagement": 12, "OperatingConstraints": 6, "PowerSequences": 13, "Sensing": 2, "Setpoint": 3,
	"SmartEnergyManagementPs": 4, "TaskManagement": 4, "Threshold": 3, "TimeInformation": 4, "TimeTable": 3,
	"DeviceConfiguration": 3, "SupplyCondition": 3, "TimeSeries": 3, "TariffInformation": 12, "IncentiveTable": 3,
	"Bill": 3, "Identification": 3, "StateInformation": 1,
}

// the payload fields of model.CmdType whose function name starts with "nodeManagement" (rows of the NodeManagement block)
const c01PinnedNMRows = 9

type c01Sub struct {
	peer   int
	client *model.FeatureAddressType
	// stale: the peer has re-announced its features (an accepted discovery reply) since this subscription was made
	stale bool
	// extra: entries for this same pair that the stack granted although the pair was subscribed (reported when it happened;
	// the model follows the observed state so that one deviation is reported once)
	extra int
}

type c01World struct {
	w        *rig.World
	T        model.FeatureTypeType
	fns      []rig.FnInfo
	srv, cli api.FeatureLocalInterface
	spc      api.FeatureLocalInterface // a feature of role "special" that is not NodeManagement
	writable map[model.FunctionType]bool
	subs     map[string]c01Sub // "peer|client|server" reference subscription registry
	binds    map[string]string // server -> peer|client
	// rec: the harness's own record of the data of the local server ("srv|fn") and special ("spc|fn") feature: what it set
	// through SetData and what accepted full writes carried, after one JSON round trip. Absent = never set.
	rec map[string]any
	// unknownRec: functions whose data somebody else than the harness has set (the heartbeat manager's initial value)
	unknownRec map[string]bool
	// pending: message counters of requests of the stack that are really outstanding, per peer
	pending [][]model.MsgCounterType
}

func c01Feats(T model.FeatureTypeType) []rig.FS {
	return []rig.FS{rig.NMFS, {Ent: []uint{1}, Id: 1, Typ: T, Role: model.RoleTypeClient}, {Ent: []uint{1}, Id: 2, Typ: T, Role: model.RoleTypeServer},
		{Ent: []uint{1, 1}, Id: 1, Typ: T, Role: model.RoleTypeClient}, {Ent: []uint{1, 1}, Id: 2, Typ: T, Role: model.RoleTypeServer}}
}

func newC01World(c *rig.Ctx, T model.FeatureTypeType) *c01World {
	cw := &c01World{w: rig.NewWorld(c.Tag()), T: T, fns: rig.FunctionsOf(T), writable: map[model.FunctionType]bool{}, subs: map[string]c01Sub{}, binds: map[string]string{},
		rec: map[string]any{}, unknownRec: map[string]bool{}}
	e := cw.w.AddEntity(model.EntityTypeTypeCEM, []uint{1}, 4*time.Second)
	cw.srv = e.GetOrAddFeature(T, model.RoleTypeServer) // [1]/1
	for i, f := range cw.fns {
		wr := i%2 == 0
		cw.srv.AddFunctionType(f.Fn, true, wr)
		cw.writable[f.Fn] = wr
	}
	cw.cli = e.GetOrAddFeature(T, model.RoleTypeClient)  // [1]/2
	cw.spc = e.GetOrAddFeature(T, model.RoleTypeSpecial) // [1]/3
	for i, f := range cw.fns {
		cw.spc.AddFunctionType(f.Fn, true, i%2 == 0)
	}
	// the heartbeat manager of a DeviceDiagnosis server feature writes its data and notifies subscribers at
	// wall-clock times: stop the timer; its initial value is data the harness did not set
	if hm := e.HeartbeatManager(); hm != nil {
		hm.StopHeartbeat()
	}
	if T == model.FeatureTypeTypeDeviceDiagnosis {
		cw.unknownRec["srv|"+string(model.FunctionTypeDeviceDiagnosisHeartbeatData)] = true
	}
	for i := 0; i < 3; i++ {
		p := cw.w.AddPeer(i)
		p.Ctr = uint64(i+1) * 100000
		p.Announce(c01Feats(T))
		// what the stack has asked this peer and nobody answered: the subscription call and the use case read
		// (the discovery read carries counter 1, which Announce references)
		var pend []model.MsgCounterType
		for _, d := range p.Tap.Take() {
			if d.Header.MsgCounter != nil && d.Header.CmdClassifier != nil && (*d.Header.CmdClassifier == model.CmdClassifierTypeRead || *d.Header.CmdClassifier == model.CmdClassifierTypeCall) {
				pend = append(pend, *d.Header.MsgCounter)
			}
		}
		cw.pending = append(cw.pending, pend)
	}
	cw.w.Core.Take()
	return cw
}

// c01RT: the value as a receiver of the wire form sees it (fidelity of the encoding is C18's subject).
func c01RT(fn rig.FnInfo, v any) any {
	b, err := json.Marshal(rig.CmdFor(fn.Fn, v))
	if err != nil {
		return v
	}
	var cmd model.CmdType
	if err := json.Unmarshal(b, &cmd); err != nil {
		return v
	}
	cd, err := cmd.Data()
	if err != nil || cd.Function == nil || *cd.Function != fn.Fn {
		return v
	}
	return cd.Value
}

func (cw *c01World) setData(which string, f rig.FnInfo, v any) {
	feat := cw.srv
	if which == "spc" {
		feat = cw.spc
	}
	feat.SetData(f.Fn, v)
	cw.rec[which+"|"+string(f.Fn)] = c01RT(f, v)
	delete(cw.unknownRec, which+"|"+string(f.Fn))
}

type c01Cell struct {
	dest  string // nm | server | client | special | unknown | foreign
	fn    rig.FnInfo
	cl    model.CmdClassifierType
	ack   bool
	ackf  bool // without ack: the header carries an explicit "ackRequest": false instead of omitting the element
	gen   bool // generated payload instead of an empty one
	nodev bool // the device part of the destination address is omitted (legal; it defaults to the recipient)
	form  int  // unknown: which address form; foreign: which device name
	two   bool // the datagram carries the cmd twice
	real  bool // reply/result: the reference is a request of the stack that is really outstanding
	env   int  // which optional cmd elements (function, filter) accompany the payload: index into c01Envelopes
	hdr   int  // which optional header elements (addressOriginator, timestamp) the request carries: index into c01HeaderDresses
}

var c01UnknownForms = []string{"[1]/9 unknown feature", "[9]/1 unknown entity", "[1,9]/1 unknown nested entity", "[1,1]/1 existing feature number under an entity that does not exist", "[0]/9 unknown feature of the device information entity"}

func (x c01Cell) String() string {
	s := fmt.Sprintf("%s %s %s ack=%v explicitFalse=%v gen=%v nodev=%v", x.dest, x.cl, x.fn.Fn, x.ack, x.ackf, x.gen, x.nodev)
	if x.dest == "unknown" {
		s += " form=" + c01UnknownForms[x.form]
	}
	if x.dest == "foreign" {
		s += fmt.Sprintf(" device=%d", x.form)
	}
	if x.two {
		s += " cmd-twice"
	}
	if x.real {
		s += " real-reference"
	}
	if x.env != 0 {
		s += " envelope=" + c01Envelopes[x.env]
	}
	if x.hdr != 0 {
		s += " header[" + c01HeaderDresses[x.hdr] + "]"
	}
	return s
}

var c01Classifiers = []model.CmdClassifierType{model.CmdClassifierTypeRead, model.CmdClassifierTypeReply, model.CmdClassifierTypeNotify,
	model.CmdClassifierTypeWrite, model.CmdClassifierTypeCall, model.CmdClassifierTypeResult}

func c01NMFns() []rig.FnInfo {
	var nmFns []rig.FnInfo
	for _, f := range rig.CmdFields() {
		if strings.HasPrefix(string(f.Fn), "nodeManagement") {
			nmFns = append(nmFns, f)
		}
	}
	return nmFns
}

func c01Cells(cw *c01World) []c01Cell {
	var cells []c01Cell
	nmFns := c01NMFns()
	// two functions foreign to T
	var foreign []rig.FnInfo
	other := model.FeatureTypeTypeMeasurement
	if cw.T == other {
		other = model.FeatureTypeTypeLoadControl
	}
	if fs := rig.FunctionsOf(other); len(fs) >= 2 {
		foreign = fs[:2]
	}
	result := rig.FnInfo{Fn: "RESULT"}
	for _, dest := range []string{"nm", "server", "client", "special", "unknown", "foreign"} {
		fns := cw.fns
		if dest == "nm" {
			fns = nmFns
		} else if dest == "server" {
			fns = append(append([]rig.FnInfo(nil), cw.fns...), foreign...)
		}
		for _, f := range append(append([]rig.FnInfo(nil), fns...), result) {
			for _, cl := range c01Classifiers {
				if (f.Fn == "RESULT") != (cl == model.CmdClassifierTypeResult) {
					continue
				}
				for _, ack := range []bool{false, true} {
					for _, nodev := range []bool{false, true} {
						if dest == "foreign" && nodev {
							continue // the foreign device part IS the point
						}
						cells = append(cells, c01Cell{dest: dest, fn: f, cl: cl, ack: ack, nodev: nodev})
					}
				}
			}
		}
	}
	return cells
}

// c01Allowed is one datagram without the request's reference that the stack may emit after the current request.
type c01Allowed struct {
	peer     int
	cl       model.CmdClassifierType
	src, dst string // JSON of the addresses
	fn       model.FunctionType
	kind     string
	used     bool
}

func c01FnOf(d model.DatagramType) model.FunctionType {
	if len(d.Payload.Cmd) != 1 {
		return model.FunctionType(fmt.Sprintf("(%d cmds)", len(d.Payload.Cmd)))
	}
	cd, err := d.Payload.Cmd[0].Data()
	if err != nil || cd.Function == nil {
		return "(none)"
	}
	return *cd.Function
}

func c01Case(c *rig.Ctx) {
	types := c01Types()
	T := types[(c.Index/6)%len(types)]
	round := c.Index / (6 * len(types))
	srcEnt := []uint{1}
	if round%2 == 1 {
		srcEnt = []uint{1, 1}
	}
	prefixed := c.Index%2 == 1
	sender := (c.Index / 2) % 3
	cw := newC01World(c, T)
	defer cw.w.Close()
	w := cw.w
	r := c.Rand

	// the rows of the matrix are what the function table yields: pinned
	if n := len(cw.fns); n != c01PinnedRows[T] {
		c.Violate("matrix/function-rows-differ-from-pinned", "feature type %s registers %d functions, the pinned request matrix has %d rows for it: %v", T, n, c01PinnedRows[T], cw.fns)
	}
	if c.Index == 0 {
		for ft, n := range c01PinnedRows {
			if got := len(rig.FunctionsOf(ft)); got != n {
				c.Violate("matrix/function-rows-differ-from-pinned", "feature type %s registers %d functions, the pinned request matrix has %d rows for it", ft, got, n)
			}
		}
		if len(types) != len(c01PinnedRows) {
			c.Violate("matrix/function-rows-differ-from-pinned", "%d feature types with functions, pinned %d", len(types), len(c01PinnedRows))
		}
		if n := len(c01NMFns()); n != c01PinnedNMRows {
			c.Violate("matrix/function-rows-differ-from-pinned", "%d nodeManagement payload fields in model.CmdType, pinned %d", n, c01PinnedNMRows)
		}
	}

	srvAddr, cliAddr := cw.srv.Address(), cw.cli.Address()
	peerClient := func(p *rig.Peer) *model.FeatureAddressType { return rig.FA(p.Addr, srcEnt, 1) }
	peerServer := func(p *rig.Peer) *model.FeatureAddressType { return rig.FA(p.Addr, srcEnt, 2) }
	key := func(p *rig.Peer, server *model.FeatureAddressType) string {
		return p.Ski + "|" + peerClient(p).String() + "|" + server.String()
	}
	holder := func(p *rig.Peer) string { return p.Ski + "|" + peerClient(p).String() }
	peerIdx := func(p *rig.Peer) int {
		for i, q := range w.Peers {
			if q == p {
				return i
			}
		}
		return -1
	}

	if prefixed {
		// data for (nearly) every function of both data features, then subscriptions, bindings and re-set data
		for _, f := range cw.fns {
			if r.Intn(6) != 0 {
				cw.setData("srv", f, rig.GenVal(r, reflect.PtrTo(f.T), 0).Interface())
			}
			if r.Intn(6) != 0 {
				cw.setData("spc", f, rig.GenVal(r, reflect.PtrTo(f.T), 0).Interface())
			}
		}
		for i := 0; i < 6; i++ {
			p := w.Peers[r.Intn(3)]
			switch r.Intn(3) {
			case 0:
				p.Subscribe(peerClient(p), srvAddr, T)
				cw.subs[key(p, srvAddr)] = c01Sub{peer: peerIdx(p), client: peerClient(p)}
			case 1:
				if _, bound := cw.binds[srvAddr.String()]; !bound {
					p.Bind(peerClient(p), srvAddr, T)
					cw.binds[srvAddr.String()] = holder(p)
				}
			default:
				f := cw.fns[r.Intn(len(cw.fns))]
				cw.setData("srv", f, rig.GenVal(r, reflect.PtrTo(f.T), 0).Interface())
				cw.setData("spc", f, rig.GenVal(r, reflect.PtrTo(f.T), 0).Interface())
			}
		}
		for _, p := range w.Peers {
			p.Tap.Take()
		}
	}

	cells := c01Cells(cw)
	// the order of the requests is part of the history: a fresh one per case
	r.Shuffle(len(cells), func(a, b int) { cells[a], cells[b] = cells[b], cells[a] })
	classesSeen := map[string]bool{}
	var replies, oks, errs int
	var trace []string
	p := w.Peers[sender]

	// send delivers one datagram carrying cmd once or twice
	send := func(cl model.CmdClassifierType, src, dst *model.FeatureAddressType, ack, ackf, twice bool, ref *model.MsgCounterType, cmd model.CmdType, hdr int) model.MsgCounterType {
		mc := p.NextCounter()
		d := rig.Datagram(cl, src, dst, mc, ack, ref, cmd)
		c01DressHeader(w, p, &d, hdr)
		if !ack && ackf {
			d.Datagram.Header.AckRequest = util.Ptr(false)
		}
		if twice {
			d.Datagram.Payload.Cmd = append(d.Datagram.Payload.Cmd, cmd)
		}
		b, err := json.Marshal(d)
		if err != nil {
			panic("harness: cannot marshal datagram: " + err.Error())
		}
		p.Raw(b)
		return mc
	}
	// collect takes every tap; it returns the classification of the sender's tap, reports referencing datagrams on
	// other taps and judges every datagram without the reference against the allowed ones
	foreignDest := false
	collect := func(id string, reqCl model.CmdClassifierType, mc model.MsgCounterType, allowed []c01Allowed, judgeUnref bool) rig.Resp {
		var res rig.Resp
		for qi, q := range w.Peers {
			o := rig.Classify(q.Tap.Take(), mc)
			if q == p {
				res = o
			} else if len(o.All) > 0 {
				c.Violate("response-on-other-peer", "%s\n peer %d received %s", id, qi, rig.JS(o.All))
			}
			c.Events(int64(len(o.Unref)))
			for _, d := range o.Unref {
				cl := model.CmdClassifierType("(none)")
				if d.Header.CmdClassifier != nil {
					cl = *d.Header.CmdClassifier
				}
				fn := c01FnOf(d)
				ok := false
				for ai := range allowed {
					a := &allowed[ai]
					if !a.used && a.peer == qi && a.cl == cl && a.fn == fn && a.src == rig.JS(d.Header.AddressSource) && a.dst == rig.JS(d.Header.AddressDestination) && d.Header.MsgCounterReference == nil {
						a.used, ok = true, true
						c.Count("unreferenced-allowed:"+a.kind, 1)
						if a.kind != "notify-to-subscriber" && d.Header.MsgCounter != nil && qi == sender {
							cw.pending[sender] = append(cw.pending[sender], *d.Header.MsgCounter)
						}
						break
					}
				}
				if !ok && foreignDest {
					// the destination names another device: whatever the request caused beyond its one error result is the
					// local feature of these numbers having served it (one signature for that whole class)
					c.Violate("foreign-device-destination/not-exactly-one-error", "%s\n a datagram that does not answer the request was written to peer %d although the destination names another device:\n %s", id, qi, rig.JS(d))
				} else if !ok && judgeUnref {
					where := "sender"
					if q != p {
						where = "other-peer"
					}
					c.Violate("unreferenced/"+string(cl)+"/after-"+string(reqCl)+"/"+where, "%s\n a datagram that does not answer the request was written to peer %d and is none of the datagrams the request may cause %s:\n %s", id, qi, rig.JS(allowed), rig.JS(d))
				}
			}
		}
		return res
	}
	// judgeReply: exactly one cmd, the function read, and the content of the harness's own record
	judgeReply := func(id string, res rig.Resp, which string, f rig.FnInfo) {
		for _, d := range res.All {
			if d.Header.CmdClassifier == nil || *d.Header.CmdClassifier != model.CmdClassifierTypeReply {
				continue
			}
			if len(d.Payload.Cmd) != 1 {
				c.Violate("reply-cmd-count", "%s\n the reply carries %d cmds: %s", id, len(d.Payload.Cmd), rig.JS(d.Payload))
				continue
			}
			cd, err := d.Payload.Cmd[0].Data()
			if err != nil || cd.Function == nil || *cd.Function != f.Fn {
				c.Violate("reply-function", "%s\n reply payload is not recognised as %s: %s", id, f.Fn, rig.JS(d.Payload))
				continue
			}
			if which == "" {
				continue
			}
			k := which + "|" + string(f.Fn)
			if cw.unknownRec[k] {
				c.Count("not-judged:reply-content-of-data-the-harness-did-not-set", 1)
				continue
			}
			want, set := cw.rec[k]
			if !set || rig.IsNil(want) {
				want = reflect.New(f.T).Interface()
			}
			c.Count("reply-content-compared", 1)
			if rig.CanonAny(cd.Value) != rig.CanonAny(want) {
				c.Violate("reply-data", "%s\n reply %s != the data set (SetData / accepted write) %s", id, rig.JS(cd.Value), rig.JS(want))
			}
		}
	}

	for ci, cell := range cells {
		cell.ackf = !cell.ack && r.Intn(2) == 0
		cell.gen = r.Intn(2) == 0 && cell.cl != model.CmdClassifierTypeRead && cell.cl != model.CmdClassifierTypeResult && cell.dest != "nm"
		cell.two = r.Intn(5) == 0
		cell.form = r.Intn(len(c01UnknownForms))
		var src, dst *model.FeatureAddressType
		var destFeat api.FeatureLocalInterface
		which := ""
		switch cell.dest {
		case "nm":
			src, dst, destFeat = p.NM(), rig.LNM, w.Local.NodeManagement()
		case "server":
			src, dst, destFeat, which = peerClient(p), srvAddr, cw.srv, "srv"
		case "client":
			src, dst, destFeat = peerServer(p), cliAddr, cw.cli
		case "special":
			src, dst, destFeat, which = peerClient(p), cw.spc.Address(), cw.spc, "spc"
		case "unknown":
			src = peerClient(p)
			switch cell.form {
			case 0:
				dst = rig.FA(rig.LocalAddr, []uint{1}, 9)
			case 1:
				dst = rig.FA(rig.LocalAddr, []uint{9}, 1)
			case 2:
				dst = rig.FA(rig.LocalAddr, []uint{1, 9}, 1)
			case 3:
				dst = rig.FA(rig.LocalAddr, []uint{1, 1}, 1)
			default:
				dst = rig.FA(rig.LocalAddr, []uint{0}, 9)
			}
		case "foreign":
			// the numbers of the local server feature under another device's name
			src = peerClient(p)
			cell.form %= 2
			dev := "ghost"
			if cell.form == 1 {
				dev = w.Peers[(sender+1)%3].Addr
			}
			dst = rig.FA(dev, []uint{1}, 1)
		}
		var cmd model.CmdType
		var ref *model.MsgCounterType
		fn := cell.fn.Fn
		if fn == "RESULT" {
			cmd = model.CmdType{ResultData: &model.ResultDataType{ErrorNumber: util.Ptr(model.ErrorNumberType(ci % 2))}}
			ref = util.Ptr(model.MsgCounterType(77))
		} else if cell.gen {
			cmd = rig.CmdFor(fn, rig.GenVal(r, reflect.PtrTo(cell.fn.T), 0).Interface())
		} else {
			cmd = rig.CmdFor(fn, reflect.New(cell.fn.T).Interface())
		}
		if cell.cl == model.CmdClassifierTypeReply {
			ref = util.Ptr(model.MsgCounterType(77))
		}
		if ref != nil && len(cw.pending[sender]) > 0 && r.Intn(3) == 0 {
			cell.real = true
			ref = util.Ptr(cw.pending[sender][r.Intn(len(cw.pending[sender]))])
		}
		// the optional cmd elements next to the payload
		if cell.env = c01PickEnvelope(r, cell); cell.env != 0 {
			cell.env = c01ApplyEnvelope(r, &cmd, fn, cell.env)
		}
		// well-formed bodies for the node management calls and announcements
		class, want := "", []string(nil)
		okIfAck := "reply=0 ok=0 err=0"
		if cell.ack {
			okIfAck = "reply=0 ok=1 err=0"
		}
		const oneErr, oneReply, nothing = "reply=0 ok=0 err=1", "reply=1 ok=0 err=0", "reply=0 ok=0 err=0"
		isCall := cell.cl == model.CmdClassifierTypeCall
		local := cell.dest != "unknown" && cell.dest != "foreign"
		switch {
		case cmd.NodeManagementSubscriptionRequestCall != nil:
			cmd.NodeManagementSubscriptionRequestCall = spine.NewNodeManagementSubscriptionRequestCallType(peerClient(p), srvAddr, T)
			if isCall && local {
				if sub, has := cw.subs[key(p, srvAddr)]; has && sub.stale {
					class, want = "call-subscribe-duplicate-after-reannouncement->error", []string{oneErr}
				} else if has {
					class, want = "call-subscribe-duplicate->error", []string{oneErr}
				} else {
					class, want = "call-subscribe->accepted", []string{okIfAck}
					cw.subs[key(p, srvAddr)] = c01Sub{peer: sender, client: peerClient(p)}
				}
			}
		case cmd.NodeManagementSubscriptionDeleteCall != nil:
			cmd.NodeManagementSubscriptionDeleteCall = spine.NewNodeManagementSubscriptionDeleteCallType(peerClient(p), srvAddr)
			if isCall && local {
				if _, has := cw.subs[key(p, srvAddr)]; has {
					class, want = "call-unsubscribe->accepted", []string{okIfAck}
					delete(cw.subs, key(p, srvAddr))
				} else {
					class, want = "call-unsubscribe-absent->error", []string{oneErr}
				}
			}
		case cmd.NodeManagementBindingRequestCall != nil:
			cmd.NodeManagementBindingRequestCall = spine.NewNodeManagementBindingRequestCallType(peerClient(p), srvAddr, T)
			if isCall && local {
				if _, bound := cw.binds[srvAddr.String()]; bound {
					class, want = "call-bind-bound->error", []string{oneErr}
				} else {
					class, want = "call-bind->accepted", []string{okIfAck}
					cw.binds[srvAddr.String()] = holder(p)
				}
			}
		case cmd.NodeManagementBindingDeleteCall != nil:
			cmd.NodeManagementBindingDeleteCall = spine.NewNodeManagementBindingDeleteCallType(peerClient(p), srvAddr)
			if isCall && local {
				if cw.binds[srvAddr.String()] == holder(p) {
					class, want = "call-unbind->accepted", []string{okIfAck}
					delete(cw.binds, srvAddr.String())
				} else {
					class, want = "call-unbind-absent->error", []string{oneErr}
				}
			}
		case cmd.NodeManagementDetailedDiscoveryData != nil && (cell.cl == model.CmdClassifierTypeReply || cell.cl == model.CmdClassifierTypeNotify):
			cmd.NodeManagementDetailedDiscoveryData = p.Discovery(c01Feats(T), nil, nil)
		}

		inT := false
		for _, f := range cw.fns {
			if f.Fn == fn {
				inT = true
			}
		}
		if class == "" {
			switch {
			case cell.cl == model.CmdClassifierTypeResult:
				class, want = "result->nothing", []string{nothing}
			case cell.dest == "unknown":
				class, want = "unknown-destination->error", []string{oneErr}
			case cell.dest == "foreign":
				class, want = "foreign-device-destination->error", []string{oneErr}
			case cell.cl == model.CmdClassifierTypeRead && cell.dest == "client":
				class, want = "read-client->error", []string{oneErr}
			case cell.cl == model.CmdClassifierTypeRead && cell.dest == "server" && inT:
				class, want = "read-server->reply", []string{oneReply}
			case cell.cl == model.CmdClassifierTypeRead && cell.dest == "server":
				class, want = "read-foreign-function->error", []string{oneErr}
			case cell.cl == model.CmdClassifierTypeRead && cell.dest == "special" && inT:
				class, want = "read-special->reply", []string{oneReply}
			case cell.cl == model.CmdClassifierTypeRead && cell.dest == "nm" && c01NMReadable(fn):
				class, want = "read-nodemanagement->reply", []string{oneReply}
			case cell.cl == model.CmdClassifierTypeRead:
				class, want = "read-other(shape)", []string{oneReply, oneErr}
			case cell.cl == model.CmdClassifierTypeWrite && cell.dest == "server" && inT && cw.writable[fn] && cw.binds[srvAddr.String()] == holder(p):
				class, want = "write-authorised(count)", []string{okIfAck, oneErr}
			case cell.cl == model.CmdClassifierTypeWrite:
				class, want = "write-unauthorised->error", []string{oneErr}
			case (cell.cl == model.CmdClassifierTypeReply || cell.cl == model.CmdClassifierTypeNotify) && cell.dest == "client" && inT && !cell.gen && !c01EnvFiltered(cell.env):
				class, want = "reply/notify-own-type->accepted", []string{okIfAck}
			case (cell.cl == model.CmdClassifierTypeReply || cell.cl == model.CmdClassifierTypeNotify) && cell.dest == "client" && inT && !cell.gen && !c01EnvSelects(cell.env) && rig.ListByFn(fn) != nil:
				// an update of a list restricted to "partial" that names no item changes nothing and is as acceptable as the
				// bare empty payload, whether the optional function element is empty or names the list
				class, want = "reply/notify-own-type-partial-list->accepted", []string{okIfAck}
			case (cell.cl == model.CmdClassifierTypeReply || cell.cl == model.CmdClassifierTypeNotify) && cell.dest == "client" && inT && !cell.gen:
				// what a filter makes of an empty payload is the data layer's business (C02): count and addressing only
				class, want = "reply/notify-own-type-filtered(shape)", []string{okIfAck, oneErr}
			case isCall && cell.dest != "nm":
				class, want = "call-on-data-feature->error", []string{oneErr}
			case isCall && (cmd.NodeManagementSubscriptionData != nil || cmd.NodeManagementBindingData != nil):
				class = "call-registry-list(shape)"
				w := "reply=1 ok=0 err=0"
				if cell.ack {
					w = "reply=1 ok=1 err=0"
				}
				want = []string{okIfAck, oneErr, w}
			default:
				class, want = "other(shape)", []string{okIfAck, oneErr}
			}
		}
		for _, q := range w.Peers {
			q.Tap.Take()
		}
		if cell.nodev {
			nd := *dst
			nd.Device = nil
			dst = &nd
		}
		// the optional header elements: they select no row of the table and no address of a response
		cell.hdr = c01PickHeaderDress(r)
		mc := send(cell.cl, src, dst, cell.ack, cell.ackf, cell.two, ref, cmd, cell.hdr)
		c.Events(1)
		id := fmt.Sprintf("T=%s prefixed=%v peer=%d srcEntity=%v :: %s", T, prefixed, sender, srcEnt, cell)
		if n := p.PanicCount(); n > 0 {
			c.Violate("panic/"+cell.dest+"/"+string(cell.cl), "%s :: %s", id, p.Panics[n-1])
			p.Panics = nil
			continue
		}
		// datagrams without the reference that this request may cause (decided after looking at the referenced
		// responses only for "was it answered with an error")
		sendTap := w.Peers[sender].Tap.Peek()
		pre := rig.Classify(sendTap, mc)
		var allowed []c01Allowed
		switch {
		case cell.cl == model.CmdClassifierTypeNotify && destFeat != nil && pre.Errors > 0:
			allowed = append(allowed, c01Allowed{peer: sender, cl: model.CmdClassifierTypeRead, src: rig.JS(destFeat.Address()), dst: rig.JS(src), fn: fn, kind: "re-read-after-rejected-notify"})
		case cell.cl == model.CmdClassifierTypeReply && cell.dest == "nm" && fn == model.FunctionTypeNodeManagementDetailedDiscoveryData && pre.Errors == 0:
			allowed = append(allowed,
				c01Allowed{peer: sender, cl: model.CmdClassifierTypeCall, src: rig.JS(rig.LNM), dst: rig.JS(p.NM()), fn: model.FunctionTypeNodeManagementSubscriptionRequestCall, kind: "subscribe-after-discovery-reply"},
				c01Allowed{peer: sender, cl: model.CmdClassifierTypeRead, src: rig.JS(rig.LNM), dst: rig.JS(p.NM()), fn: model.FunctionTypeNodeManagementUseCaseData, kind: "usecase-read-after-discovery-reply"})
		case class == "write-authorised(count)" && pre.Errors == 0:
			for _, sub := range cw.subs {
				for n := 0; n <= sub.extra; n++ {
					allowed = append(allowed, c01Allowed{peer: sub.peer, cl: model.CmdClassifierTypeNotify, src: rig.JS(srvAddr), dst: rig.JS(sub.client), fn: fn, kind: "notify-to-subscriber"})
				}
			}
		}
		got := pre.String()
		match := false
		for _, x := range want {
			if x == got {
				match = true
			}
		}
		// a foreign-device destination that was served like a local one is reported below, once; what else it caused is not judged again
		foreignDest = cell.dest == "foreign"
		res := collect(id, cell.cl, mc, allowed, !foreignDest)
		foreignDest = false
		c.Events(int64(len(res.All)))
		classesSeen[class] = true
		c.Count("class:"+class, 1)
		c.Count("envelope:"+c01Envelopes[cell.env], 1)
		c.Count("header:"+c01HeaderDresses[cell.hdr], 1)
		if cell.hdr != 0 && len(res.All) > 0 {
			c.Count("header-dressed-request-answered:"+string(cell.cl)+"/"+cell.dest, 1)
			c.Count("responses-to-header-dressed-requests-judged", int64(len(res.All)))
		}
		if cell.env != 0 {
			c.Count("envelope-by-classifier:"+string(cell.cl)+":"+c01Envelopes[cell.env], 1)
		}
		if cell.two {
			c.Count("datagrams-with-the-cmd-twice", 1)
		}
		if cell.real {
			c.Count("reply/result-referencing-an-outstanding-request", 1)
		}
		if cell.dest == "unknown" {
			c.Count("unknown-form:"+c01UnknownForms[cell.form], 1)
		}
		replies += res.Replies
		oks += res.Success
		errs += res.Errors
		if len(trace) < 12 {
			trace = append(trace, fmt.Sprintf("%s -> %s [%s]", cell, got, class))
		}
		if !match || res.OtherRef > 0 {
			sig := class + "/got:" + strings.ReplaceAll(got, " ", ",")
			if cell.dest == "foreign" {
				// one signature for the whole class: the destination names another device and is served all the same
				sig = "foreign-device-destination/not-exactly-one-error"
				if cell.cl == model.CmdClassifierTypeWrite && res.Errors == 0 {
					// the write went into the local feature with these numbers: its data is no longer what the harness set
					cw.unknownRec["srv|"+string(fn)] = true
				}
			}
			if class == "call-subscribe-duplicate-after-reannouncement->error" {
				sig = "call-subscribe-duplicate-after-reannouncement/granted"
				if res.Errors == 0 {
					sub := cw.subs[key(p, srvAddr)]
					sub.extra++
					sub.stale = false
					cw.subs[key(p, srvAddr)] = sub
				}
			}
			c.Violate(sig, "%s\n want one of %v got %s (other referencing datagrams: %d)\n request destination %s\n responses: %s", id, want, got, res.OtherRef, rig.JS(dst), rig.JS(res.All))
		}
		// addressing and reference of every response
		for _, d := range res.All {
			if rig.JS(d.Header.AddressDestination) != rig.JS(src) {
				c.Violate("response-destination", "%s\n response destination %s != request source %s", id, rig.JS(d.Header.AddressDestination), rig.JS(src))
			}
			wantSrc := *dst
			wantSrc.Device = util.Ptr(model.AddressDeviceType(rig.LocalAddr))
			if ((cell.dest == "unknown" && cell.nodev) || cell.dest == "foreign") && d.Header.AddressSource != nil {
				// no local feature is addressed and the request names no (or another) device: the statement does not fix the device part
				wantSrc.Device = d.Header.AddressSource.Device
			}
			if rig.JS(d.Header.AddressSource) != rig.JS(&wantSrc) {
				c.Violate("response-source", "%s\n response source %s != addressed local feature %s", id, rig.JS(d.Header.AddressSource), rig.JS(&wantSrc))
			}
			if d.Header.MsgCounter == nil {
				c.Violate("response-without-counter", "%s", id)
			}
		}
		if cell.cl == model.CmdClassifierTypeReply && cell.dest == "nm" && fn == model.FunctionTypeNodeManagementDetailedDiscoveryData && res.Errors == 0 {
			// the peer's tree has been announced again
			for k, sub := range cw.subs {
				if sub.peer == sender {
					sub.stale = true
					cw.subs[k] = sub
				}
			}
		}
		if class == "write-authorised(count)" && match && res.Errors == 0 {
			// accepted: a write without filters replaces the data
			cd, _ := cmd.Data()
			if c01EnvFiltered(cell.env) {
				// a filtered write merges into / deletes from the data: what the function holds afterwards is C02's subject
				cw.unknownRec["srv|"+string(fn)] = true
			} else {
				cw.rec["srv|"+string(fn)] = c01RT(cell.fn, cd.Value)
				delete(cw.unknownRec, "srv|"+string(fn))
			}
			// and a read right after it returns exactly that
			mc3 := send(model.CmdClassifierTypeRead, src, srvAddr, false, false, false, nil, rig.CmdFor(fn, reflect.New(cell.fn.T).Interface()), c01PickHeaderDress(r))
			id3 := id + " (read after the accepted write)"
			res3 := collect(id3, model.CmdClassifierTypeRead, mc3, nil, true)
			c.Events(1 + int64(len(res3.All)))
			c.Count("class:read-after-accepted-write->reply", 1)
			if got3 := res3.String(); got3 != oneReply || res3.OtherRef > 0 {
				c.Violate("read-after-accepted-write->reply/got:"+strings.ReplaceAll(got3, " ", ","), "%s\n want %s got %s\n responses: %s", id3, oneReply, got3, rig.JS(res3.All))
			}
			replies += res3.Replies
			judgeReply(id3, res3, "srv", cell.fn)
		}
		// an authorised write that the DATA LAYER refuses (a partial write naming an identifier the list does not
		// hold cannot be applied) is a rejected message: exactly one error result, whatever ack says
		if class == "write-authorised(count)" {
			if li := rig.ListByFn(fn); li != nil && len(li.Keys) > 0 && li.AllUint {
				u := rig.Update{Kind: "partial", SelKey: -1, DelSel: -1, Items: []reflect.Value{li.NewItem(r, 1000+r.Intn(9))}}
				mc2 := send(model.CmdClassifierTypeWrite, src, dst, cell.ack, false, false, nil, li.Cmd(u), c01PickHeaderDress(r))
				id2 := id + " (then a partial write of an identifier the list does not hold)"
				res2 := collect(id2, model.CmdClassifierTypeWrite, mc2, nil, true)
				c.Events(1 + int64(len(res2.All)))
				c.Count("class:write-refused-by-data-layer->error", 1)
				classesSeen["write-refused-by-data-layer->error"] = true
				errs += res2.Errors
				if got2 := res2.String(); got2 != oneErr || res2.OtherRef > 0 {
					c.Violate("write-refused-by-data-layer->error/got:"+strings.ReplaceAll(got2, " ", ","), "%s\n want %s got %s\n responses: %s", id2, oneErr, got2, rig.JS(res2.All))
				}
				for _, d := range res2.All {
					if rig.JS(d.Header.AddressDestination) != rig.JS(src) {
						c.Violate("response-destination", "%s (refused write)\n response destination %s != request source %s", id, rig.JS(d.Header.AddressDestination), rig.JS(src))
					}
				}
			}
		}
		// every reply: exactly one cmd; where a reply is demanded: the function read and its content
		if res.Replies > 0 {
			switch class {
			case "read-server->reply", "read-special->reply":
				if c01EnvSelects(cell.env) {
					// a read restricted to selected items / elements: the function of the reply is judged, not its content
					c.Count("not-judged:reply-content-of-a-read-with-selector-or-elements", 1)
					which = ""
				}
				judgeReply(id, res, which, cell.fn)
			case "read-nodemanagement->reply":
				judgeReply(id, res, "", cell.fn)
				c01JudgeNMReply(c, cw, id, res, fn, p)
			default:
				for _, d := range res.All {
					if d.Header.CmdClassifier != nil && *d.Header.CmdClassifier == model.CmdClassifierTypeReply && len(d.Payload.Cmd) != 1 {
						c.Violate("reply-cmd-count", "%s\n the reply carries %d cmds: %s", id, len(d.Payload.Cmd), rig.JS(d.Payload))
					}
				}
			}
		}
		if c.Failed() && len(trace) > 0 {
			c.Witness(map[string]any{"feature_type": T, "prefixed": prefixed, "sender": sender, "last_cell": cell.String(), "first_cells": trace})
		}
	}
	var cl []string
	for k := range classesSeen {
		cl = append(cl, k)
	}
	sort.Strings(cl)
	c.Shape(fmt.Sprintf("%s/%v/%d/%v/%s", T, prefixed, sender, srcEnt, strings.Join(cl, ",")))
	c.NonTrivial(replies > 0 && oks > 0 && errs > 0)
	c.Seen("feature_types", string(T))
	for _, k := range cl {
		c.Seen("response_classes", k)
	}
	c.Sample(map[string]any{"feature_type": T, "prefixed": prefixed, "sender": sender, "source_entity": srcEnt, "cells": trace, "replies": replies, "success_results": oks, "error_results": errs})
}

// c01JudgeNMReply: what the statement fixes about the content of a NodeManagement reply — it carries the CURRENT data:
// the local device (by its address) in the destination list and in the discovery data with every local entity and
// feature, and exactly the requesting device's entries of the subscription and binding registries.
func c01JudgeNMReply(c *rig.Ctx, cw *c01World, id string, res rig.Resp, fn model.FunctionType, p *rig.Peer) {
	for _, d := range res.All {
		if d.Header.CmdClassifier == nil || *d.Header.CmdClassifier != model.CmdClassifierTypeReply || len(d.Payload.Cmd) != 1 {
			continue
		}
		cmd := d.Payload.Cmd[0]
		switch fn {
		case model.FunctionTypeNodeManagementDestinationListData:
			dl := cmd.NodeManagementDestinationListData
			ok := dl != nil && len(dl.NodeManagementDestinationData) == 1
			if ok {
				dd := dl.NodeManagementDestinationData[0].DeviceDescription
				ok = dd != nil && dd.DeviceAddress != nil && dd.DeviceAddress.Device != nil && string(*dd.DeviceAddress.Device) == rig.LocalAddr
			}
			if !ok {
				c.Violate("reply-data/destination-list", "%s\n the destination list does not name exactly the local device %s: %s", id, rig.LocalAddr, rig.JS(d.Payload))
			}
		case model.FunctionTypeNodeManagementDetailedDiscoveryData:
			dd := cmd.NodeManagementDetailedDiscoveryData
			ents, feats := 0, 0
			for _, e := range cw.w.Local.Entities() {
				ents++
				feats += len(e.Features())
			}
			ok := dd != nil && dd.DeviceInformation != nil && dd.DeviceInformation.Description != nil && dd.DeviceInformation.Description.DeviceAddress != nil &&
				dd.DeviceInformation.Description.DeviceAddress.Device != nil && string(*dd.DeviceInformation.Description.DeviceAddress.Device) == rig.LocalAddr &&
				len(dd.EntityInformation) == ents && len(dd.FeatureInformation) == feats
			if !ok {
				c.Violate("reply-data/detailed-discovery", "%s\n the discovery reply does not describe the local device %s with its %d entities and %d features: %s", id, rig.LocalAddr, ents, feats, rig.JS(d.Payload))
			}
		case model.FunctionTypeNodeManagementSubscriptionData:
			want := 0
			for k, sub := range cw.subs {
				if strings.HasPrefix(k, p.Ski+"|") {
					want += 1 + sub.extra
				}
			}
			if sd := cmd.NodeManagementSubscriptionData; sd == nil || len(sd.SubscriptionEntry) != want {
				c.Violate("reply-data/subscription-list", "%s\n the requesting device holds %d subscriptions: %s", id, want, rig.JS(d.Payload))
			}
		case model.FunctionTypeNodeManagementBindingData:
			want := 0
			for _, h := range cw.binds {
				if strings.HasPrefix(h, p.Ski+"|") {
					want++
				}
			}
			if bd := cmd.NodeManagementBindingData; bd == nil || len(bd.BindingEntry) != want {
				c.Violate("reply-data/binding-list", "%s\n the requesting device holds %d bindings: %s", id, want, rig.JS(d.Payload))
			}
		}
	}
}

func c01NMReadable(fn model.FunctionType) bool {
	switch fn {
	case model.FunctionTypeNodeManagementDetailedDiscoveryData, model.FunctionTypeNodeManagementUseCaseData, model.FunctionTypeNodeManagementDestinationListData,
		model.FunctionTypeNodeManagementSubscriptionData, model.FunctionTypeNodeManagementBindingData:
		return true
	}
	return false
}
