package checks

import (
	"fmt"
	"reflect"
	"sort"
	"strings"
	"time"

	"github.com/enbility/spine-go/api"
	"github.com/enbility/spine-go/model"
	"github.com/enbility/spine-go/spine"
	"github.com/enbility/spine-go/util"

	"verifharness/rig"
)

// C01 — every inbound request gets exactly the one correctly addressed response.
//
// One case = one World (local server + client feature of one feature type T, NodeManagement, three
// identically numbered peers) in one prior state, one sending peer, and the request matrix
// classifier(6) x function(all of T / all nodeManagement functions / 2 foreign) x ack x destination
// {nm, server, client, special (a special-role feature that is not NodeManagement), unknown}; requests
// without ack carry an explicit "ackRequest": false in a seeded half of the cells. Both tiers walk
// every cell. After each injection (handling is synchronous) the complete outbound trace of
// all three connections is compared with the table written from the statement (DESIGN.md, C01).

func init() {
	types := c01Types()
	rig.Register(&rig.Check{
		ID:    "C01",
		Floor: 40,
		Rule: "case = (feature type T, prior state pristine|after a random prefix of subscribes, binds and data updates, sending peer 0..2); its cells are the request matrix classifier x function x ack (requested, omitted, explicitly false) x destination kind (NodeManagement, server, client, a special-role data feature, unknown), " +
			"enumerated completely in every case of both tiers (quick: two rounds over all feature types, prior states and senders, the second sending from the nested entity [1,1]; thorough: eight rounds with fresh prefixes and payloads). A case is non-trivial if at least one reply, one success result and one error result were observed and judged; " +
			"distinct = distinct (T, prior state, sender, set of response classes seen).",
		Assumptions: []string{
			"message handling is synchronous in HandleSpineMesssage when no approval callback is registered, so the trace is complete when the call returns",
			"acceptance is predicted only where the statement leaves no doubt; elsewhere the shape (exactly one of the allowed response sets, never both, never twice) is asserted",
			"the stack's re-request (a read without reference) after a rejected notify is allowed",
		},
		Parts: []rig.Part{{
			Name: "matrix",
			Cases: func(t rig.Tier) int {
				// one round = every (feature type, prior state, sender) once, each walking the complete cell matrix;
				// odd rounds send from the peers' nested entity [1,1]
				if t == rig.Thorough {
					return len(types) * 2 * 3 * 8
				}
				return len(types) * 2 * 3 * 2
			},
			Run: c01Case,
		}},
	})
}

func c01Types() []model.FeatureTypeType {
	var ts []model.FeatureTypeType
	for _, ft := range rig.FeatureTypes() {
		if ft == model.FeatureTypeTypeNodeManagement || ft == model.FeatureTypeTypeGeneric {
			continue
		}
		if len(rig.FunctionsOf(ft)) > 0 {
			ts = append(ts, ft)
		}
	}
	return ts
}

type c01World struct {
	w        *rig.World
	T        model.FeatureTypeType
	fns      []rig.FnInfo
	srv, cli api.FeatureLocalInterface
	spc      api.FeatureLocalInterface // a feature of role "special" that is not NodeManagement
	writable map[model.FunctionType]bool
	subs     map[string]bool   // "peer|server" reference subscription registry
	binds    map[string]string // server -> peer|client
}

func c01Feats(T model.FeatureTypeType) []rig.FS {
	return []rig.FS{rig.NMFS, {Ent: []uint{1}, Id: 1, Typ: T, Role: model.RoleTypeClient}, {Ent: []uint{1}, Id: 2, Typ: T, Role: model.RoleTypeServer},
		{Ent: []uint{1, 1}, Id: 1, Typ: T, Role: model.RoleTypeClient}, {Ent: []uint{1, 1}, Id: 2, Typ: T, Role: model.RoleTypeServer}}
}

func newC01World(c *rig.Ctx, T model.FeatureTypeType) *c01World {
	cw := &c01World{w: rig.NewWorld(c.Tag()), T: T, fns: rig.FunctionsOf(T), writable: map[model.FunctionType]bool{}, subs: map[string]bool{}, binds: map[string]string{}}
	e := cw.w.AddEntity(model.EntityTypeTypeCEM, []uint{1}, 4*time.Second)
	cw.srv = e.GetOrAddFeature(T, model.RoleTypeServer) // [1]/1
	for i, f := range cw.fns {
		wr := i%2 == 0
		cw.srv.AddFunctionType(f.Fn, true, wr)
		cw.writable[f.Fn] = wr
	}
	cw.cli = e.GetOrAddFeature(T, model.RoleTypeClient)  // [1]/2
	cw.spc = e.GetOrAddFeature(T, model.RoleTypeSpecial) // [1]/3
	for i, f := range cw.fns {
		cw.spc.AddFunctionType(f.Fn, true, i%2 == 0)
	}
	for i := 0; i < 3; i++ {
		p := cw.w.AddPeer(i)
		p.Ctr = uint64(i+1) * 100000
		p.Announce(c01Feats(T))
		p.Tap.Take()
	}
	cw.w.Core.Take()
	return cw
}

type c01Cell struct {
	dest  string // nm | server | client | special | unknown
	fn    rig.FnInfo
	cl    model.CmdClassifierType
	ack   bool
	ackf  bool // without ack: the header carries an explicit "ackRequest": false instead of omitting the element
	gen   bool // generated payload instead of an empty one
	nodev bool // the device part of the destination address is omitted (legal; it defaults to the recipient)
}

func (x c01Cell) String() string {
	return fmt.Sprintf("%s %s %s ack=%v explicitFalse=%v gen=%v nodev=%v", x.dest, x.cl, x.fn.Fn, x.ack, x.ackf, x.gen, x.nodev)
}

var c01Classifiers = []model.CmdClassifierType{model.CmdClassifierTypeRead, model.CmdClassifierTypeReply, model.CmdClassifierTypeNotify,
	model.CmdClassifierTypeWrite, model.CmdClassifierTypeCall, model.CmdClassifierTypeResult}

func c01Cells(cw *c01World) []c01Cell {
	var cells []c01Cell
	var nmFns []rig.FnInfo
	for _, f := range rig.CmdFields() {
		if strings.HasPrefix(string(f.Fn), "nodeManagement") {
			nmFns = append(nmFns, f)
		}
	}
	// two functions foreign to T
	var foreign []rig.FnInfo
	other := model.FeatureTypeTypeMeasurement
	if cw.T == other {
		other = model.FeatureTypeTypeLoadControl
	}
	if fs := rig.FunctionsOf(other); len(fs) >= 2 {
		foreign = fs[:2]
	}
	result := rig.FnInfo{Fn: "RESULT"}
	for _, dest := range []string{"nm", "server", "client", "special", "unknown"} {
		fns := cw.fns
		if dest == "nm" {
			fns = nmFns
		} else if dest == "server" {
			fns = append(append([]rig.FnInfo(nil), cw.fns...), foreign...)
		}
		for _, f := range append(append([]rig.FnInfo(nil), fns...), result) {
			for _, cl := range c01Classifiers {
				if (f.Fn == "RESULT") != (cl == model.CmdClassifierTypeResult) {
					continue
				}
				for _, ack := range []bool{false, true} {
					for _, nodev := range []bool{false, true} {
						cells = append(cells, c01Cell{dest: dest, fn: f, cl: cl, ack: ack, nodev: nodev})
					}
				}
			}
		}
	}
	return cells
}

func c01Case(c *rig.Ctx) {
	types := c01Types()
	T := types[(c.Index/6)%len(types)]
	round := c.Index / (6 * len(types))
	srcEnt := []uint{1}
	if round%2 == 1 {
		srcEnt = []uint{1, 1}
	}
	prefixed := c.Index%2 == 1
	sender := (c.Index / 2) % 3
	cw := newC01World(c, T)
	defer cw.w.Close()
	w := cw.w
	r := c.Rand

	srvAddr, cliAddr := cw.srv.Address(), cw.cli.Address()
	peerClient := func(p *rig.Peer) *model.FeatureAddressType { return rig.FA(p.Addr, srcEnt, 1) }
	peerServer := func(p *rig.Peer) *model.FeatureAddressType { return rig.FA(p.Addr, srcEnt, 2) }
	key := func(p *rig.Peer, server *model.FeatureAddressType) string {
		return p.Ski + "|" + peerClient(p).String() + "|" + server.String()
	}
	holder := func(p *rig.Peer) string { return p.Ski + "|" + peerClient(p).String() }

	if prefixed {
		for i := 0; i < 6; i++ {
			p := w.Peers[r.Intn(3)]
			switch r.Intn(3) {
			case 0:
				p.Subscribe(peerClient(p), srvAddr, T)
				cw.subs[key(p, srvAddr)] = true
			case 1:
				if _, bound := cw.binds[srvAddr.String()]; !bound {
					p.Bind(peerClient(p), srvAddr, T)
					cw.binds[srvAddr.String()] = holder(p)
				}
			default:
				f := cw.fns[r.Intn(len(cw.fns))]
				cw.srv.SetData(f.Fn, rig.GenVal(r, reflect.PtrTo(f.T), 0).Interface())
				cw.spc.SetData(f.Fn, rig.GenVal(r, reflect.PtrTo(f.T), 0).Interface())
			}
		}
		for _, p := range w.Peers {
			p.Tap.Take()
		}
	}

	cells := c01Cells(cw)
	classesSeen := map[string]bool{}
	var replies, oks, errs int
	var trace []string
	p := w.Peers[sender]
	for ci, cell := range cells {
		cell.ackf = !cell.ack && r.Intn(2) == 0
		cell.gen = r.Intn(2) == 0 && cell.cl != model.CmdClassifierTypeRead && cell.cl != model.CmdClassifierTypeResult && cell.dest != "nm"
		var src, dst *model.FeatureAddressType
		var destFeat api.FeatureLocalInterface
		switch cell.dest {
		case "nm":
			src, dst, destFeat = p.NM(), rig.LNM, w.Local.NodeManagement()
		case "server":
			src, dst, destFeat = peerClient(p), srvAddr, cw.srv
		case "client":
			src, dst, destFeat = peerServer(p), cliAddr, cw.cli
		case "special":
			src, dst, destFeat = peerClient(p), cw.spc.Address(), cw.spc
		case "unknown":
			src, dst = peerClient(p), rig.FA(rig.LocalAddr, []uint{1}, 9)
		}
		var cmd model.CmdType
		var ref *model.MsgCounterType
		fn := cell.fn.Fn
		if fn == "RESULT" {
			cmd = model.CmdType{ResultData: &model.ResultDataType{ErrorNumber: util.Ptr(model.ErrorNumberType(ci % 2))}}
			ref = util.Ptr(model.MsgCounterType(77))
		} else if cell.gen {
			cmd = rig.CmdFor(fn, rig.GenVal(r, reflect.PtrTo(cell.fn.T), 0).Interface())
		} else {
			cmd = rig.CmdFor(fn, reflect.New(cell.fn.T).Interface())
		}
		if cell.cl == model.CmdClassifierTypeReply {
			ref = util.Ptr(model.MsgCounterType(77))
		}
		// well-formed bodies for the node management calls and announcements
		class, want := "", []string(nil)
		okIfAck := "reply=0 ok=0 err=0"
		if cell.ack {
			okIfAck = "reply=0 ok=1 err=0"
		}
		const oneErr, oneReply, nothing = "reply=0 ok=0 err=1", "reply=1 ok=0 err=0", "reply=0 ok=0 err=0"
		isCall := cell.cl == model.CmdClassifierTypeCall
		switch {
		case cmd.NodeManagementSubscriptionRequestCall != nil:
			cmd.NodeManagementSubscriptionRequestCall = spine.NewNodeManagementSubscriptionRequestCallType(peerClient(p), srvAddr, T)
			if isCall {
				if cw.subs[key(p, srvAddr)] {
					class, want = "call-subscribe-duplicate->error", []string{oneErr}
				} else {
					class, want = "call-subscribe->accepted", []string{okIfAck}
					cw.subs[key(p, srvAddr)] = true
				}
			}
		case cmd.NodeManagementSubscriptionDeleteCall != nil:
			cmd.NodeManagementSubscriptionDeleteCall = spine.NewNodeManagementSubscriptionDeleteCallType(peerClient(p), srvAddr)
			if isCall {
				if cw.subs[key(p, srvAddr)] {
					class, want = "call-unsubscribe->accepted", []string{okIfAck}
					delete(cw.subs, key(p, srvAddr))
				} else {
					class, want = "call-unsubscribe-absent->error", []string{oneErr}
				}
			}
		case cmd.NodeManagementBindingRequestCall != nil:
			cmd.NodeManagementBindingRequestCall = spine.NewNodeManagementBindingRequestCallType(peerClient(p), srvAddr, T)
			if isCall {
				if _, bound := cw.binds[srvAddr.String()]; bound {
					class, want = "call-bind-bound->error", []string{oneErr}
				} else {
					class, want = "call-bind->accepted", []string{okIfAck}
					cw.binds[srvAddr.String()] = holder(p)
				}
			}
		case cmd.NodeManagementBindingDeleteCall != nil:
			cmd.NodeManagementBindingDeleteCall = spine.NewNodeManagementBindingDeleteCallType(peerClient(p), srvAddr)
			if isCall {
				if cw.binds[srvAddr.String()] == holder(p) {
					class, want = "call-unbind->accepted", []string{okIfAck}
					delete(cw.binds, srvAddr.String())
				} else {
					class, want = "call-unbind-absent->error", []string{oneErr}
				}
			}
		case cmd.NodeManagementDetailedDiscoveryData != nil && (cell.cl == model.CmdClassifierTypeReply || cell.cl == model.CmdClassifierTypeNotify):
			cmd.NodeManagementDetailedDiscoveryData = p.Discovery(c01Feats(T), nil, nil)
		}

		var pre any
		if destFeat != nil && fn != "RESULT" {
			pre = destFeat.DataCopy(fn)
		}
		inT := false
		for _, f := range cw.fns {
			if f.Fn == fn {
				inT = true
			}
		}
		if class == "" {
			switch {
			case cell.cl == model.CmdClassifierTypeResult:
				class, want = "result->nothing", []string{nothing}
			case cell.dest == "unknown":
				class, want = "unknown-destination->error", []string{oneErr}
			case cell.cl == model.CmdClassifierTypeRead && cell.dest == "client":
				class, want = "read-client->error", []string{oneErr}
			case cell.cl == model.CmdClassifierTypeRead && cell.dest == "server" && inT:
				class, want = "read-server->reply", []string{oneReply}
			case cell.cl == model.CmdClassifierTypeRead && cell.dest == "server":
				class, want = "read-foreign-function->error", []string{oneErr}
			case cell.cl == model.CmdClassifierTypeRead && cell.dest == "special" && inT:
				class, want = "read-special->reply", []string{oneReply}
			case cell.cl == model.CmdClassifierTypeRead && cell.dest == "nm" && c01NMReadable(fn):
				class, want = "read-nodemanagement->reply", []string{oneReply}
			case cell.cl == model.CmdClassifierTypeRead:
				class, want = "read-other(shape)", []string{oneReply, oneErr}
			case cell.cl == model.CmdClassifierTypeWrite && cell.dest == "server" && inT && cw.writable[fn] && cw.binds[srvAddr.String()] == holder(p):
				class, want = "write-authorised(count)", []string{okIfAck, oneErr}
			case cell.cl == model.CmdClassifierTypeWrite:
				class, want = "write-unauthorised->error", []string{oneErr}
			case (cell.cl == model.CmdClassifierTypeReply || cell.cl == model.CmdClassifierTypeNotify) && cell.dest == "client" && inT && !cell.gen:
				class, want = "reply/notify-own-type->accepted", []string{okIfAck}
			case isCall && cell.dest != "nm":
				class, want = "call-on-data-feature->error", []string{oneErr}
			case isCall && (cmd.NodeManagementSubscriptionData != nil || cmd.NodeManagementBindingData != nil):
				class = "call-registry-list(shape)"
				w := "reply=1 ok=0 err=0"
				if cell.ack {
					w = "reply=1 ok=1 err=0"
				}
				want = []string{okIfAck, oneErr, w}
			default:
				class, want = "other(shape)", []string{okIfAck, oneErr}
			}
		}
		for _, q := range w.Peers {
			q.Tap.Take()
		}
		if cell.nodev {
			nd := *dst
			nd.Device = nil
			dst = &nd
		}
		p.AckFalse = cell.ackf
		mc := p.Send(cell.cl, src, dst, cell.ack, ref, cmd)
		c.Events(1)
		id := fmt.Sprintf("T=%s prefixed=%v peer=%d srcEntity=%v :: %s", T, prefixed, sender, srcEnt, cell)
		if n := p.PanicCount(); n > 0 {
			c.Violate("panic/"+cell.dest+"/"+string(cell.cl), "%s :: %s", id, p.Panics[n-1])
			p.Panics = nil
			continue
		}
		res := rig.Classify(p.Tap.Take(), mc)
		c.Events(int64(len(res.All)))
		got := res.String()
		classesSeen[class] = true
		c.Count("class:"+class, 1)
		replies += res.Replies
		oks += res.Success
		errs += res.Errors
		if len(trace) < 12 {
			trace = append(trace, fmt.Sprintf("%s -> %s [%s]", cell, got, class))
		}
		match := false
		for _, x := range want {
			if x == got {
				match = true
			}
		}
		if !match || res.OtherRef > 0 {
			c.Violate(class+"/got:"+strings.ReplaceAll(got, " ", ","), "%s\n want one of %v got %s (other referencing datagrams: %d)\n responses: %s", id, want, got, res.OtherRef, rig.JS(res.All))
		}
		for qi, q := range w.Peers {
			if q == p {
				continue
			}
			if o := rig.Classify(q.Tap.Take(), mc); len(o.All) > 0 {
				c.Violate("response-on-other-peer", "%s\n peer %d received %s", id, qi, rig.JS(o.All))
			}
		}
		// addressing and reference of every response
		for _, d := range res.All {
			if rig.JS(d.Header.AddressDestination) != rig.JS(src) {
				c.Violate("response-destination", "%s\n response destination %s != request source %s", id, rig.JS(d.Header.AddressDestination), rig.JS(src))
			}
			wantSrc := *dst
			wantSrc.Device = util.Ptr(model.AddressDeviceType(rig.LocalAddr))
			if cell.dest == "unknown" && cell.nodev && d.Header.AddressSource != nil {
				// no local feature is addressed and the request names no device: the statement does not fix the device part
				wantSrc.Device = d.Header.AddressSource.Device
			}
			if rig.JS(d.Header.AddressSource) != rig.JS(&wantSrc) {
				c.Violate("response-source", "%s\n response source %s != addressed local feature %s", id, rig.JS(d.Header.AddressSource), rig.JS(&wantSrc))
			}
			if d.Header.MsgCounter == nil {
				c.Violate("response-without-counter", "%s", id)
			}
		}
		// an authorised write that the DATA LAYER refuses (a partial write naming an identifier the list does not
		// hold cannot be applied) is a rejected message: exactly one error result, whatever ack says
		if class == "write-authorised(count)" {
			if li := rig.ListByFn(fn); li != nil && len(li.Keys) > 0 && li.AllUint {
				u := rig.Update{Kind: "partial", SelKey: -1, DelSel: -1, Items: []reflect.Value{li.NewItem(r, 1000+r.Intn(9))}}
				for _, q := range w.Peers {
					q.Tap.Take()
				}
				mc2 := p.Send(model.CmdClassifierTypeWrite, src, dst, cell.ack, nil, li.Cmd(u))
				res2 := rig.Classify(p.Tap.Take(), mc2)
				c.Events(1 + int64(len(res2.All)))
				c.Count("class:write-refused-by-data-layer->error", 1)
				classesSeen["write-refused-by-data-layer->error"] = true
				errs += res2.Errors
				if got2 := res2.String(); got2 != oneErr || res2.OtherRef > 0 {
					c.Violate("write-refused-by-data-layer->error/got:"+strings.ReplaceAll(got2, " ", ","), "%s\n then a partial write of an identifier the list does not hold: want %s got %s\n responses: %s", id, oneErr, got2, rig.JS(res2.All))
				}
				for _, d := range res2.All {
					if rig.JS(d.Header.AddressDestination) != rig.JS(src) {
						c.Violate("response-destination", "%s (refused write)\n response destination %s != request source %s", id, rig.JS(d.Header.AddressDestination), rig.JS(src))
					}
				}
			}
		}
		if (class == "read-server->reply" || class == "read-special->reply") && res.Replies == 1 {
			for _, d := range res.All {
				if d.Header.CmdClassifier == nil || *d.Header.CmdClassifier != model.CmdClassifierTypeReply || len(d.Payload.Cmd) != 1 {
					continue
				}
				cd, err := d.Payload.Cmd[0].Data()
				switch {
				case err != nil || cd.Function == nil || *cd.Function != fn:
					c.Violate("reply-function", "%s\n reply payload is not recognised as %s: %s", id, fn, rig.JS(d.Payload))
				case rig.IsNil(pre):
					if rig.CanonAny(cd.Value) != rig.CanonAny(reflect.New(cell.fn.T).Interface()) {
						c.Violate("reply-data", "%s\n no data stored, reply carries %s", id, rig.JS(cd.Value))
					}
				case rig.JS(cd.Value) != rig.JS(pre):
					c.Violate("reply-data", "%s\n reply %s != current data %s", id, rig.JS(cd.Value), rig.JS(pre))
				}
			}
		}
		if c.Failed() && len(trace) > 0 {
			c.Witness(map[string]any{"feature_type": T, "prefixed": prefixed, "sender": sender, "last_cell": cell.String(), "first_cells": trace})
		}
	}
	var cl []string
	for k := range classesSeen {
		cl = append(cl, k)
	}
	sort.Strings(cl)
	c.Shape(fmt.Sprintf("%s/%v/%d/%v/%s", T, prefixed, sender, srcEnt, strings.Join(cl, ",")))
	c.NonTrivial(replies > 0 && oks > 0 && errs > 0)
	c.Seen("feature_types", string(T))
	for _, k := range cl {
		c.Seen("response_classes", k)
	}
	c.Sample(map[string]any{"feature_type": T, "prefixed": prefixed, "sender": sender, "source_entity": srcEnt, "cells": trace, "replies": replies, "success_results": oks, "error_results": errs})
}

func c01NMReadable(fn model.FunctionType) bool {
	switch fn {
	case model.FunctionTypeNodeManagementDetailedDiscoveryData, model.FunctionTypeNodeManagementUseCaseData, model.FunctionTypeNodeManagementDestinationListData,
		model.FunctionTypeNodeManagementSubscriptionData, model.FunctionTypeNodeManagementBindingData:
		return true
	}
	return false
}
