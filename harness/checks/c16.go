package checks

import (
	"bufio"
	"bytes"
	"encoding/json"
	"fmt"
	"math"
	"os"
	"os/exec"
	"path/filepath"
	"sort"
	"strconv"
	"strings"
	"sync"
	"sync/atomic"
	"time"

	"github.com/enbility/spine-go/api"
	"github.com/enbility/spine-go/model"
	"github.com/enbility/spine-go/spine"

	"verifharness/rig"
)

// C16 — heartbeat: monotone, periodic, stoppable.
//
// Observations: a peer subscribed to the local DeviceDiagnosis server feature whose writer (c16Tap)
// records every heartbeat notify with its rig.Seq at entry and exit, the writing goroutine, counter,
// timestamp and announced timeout; the hook points Heartbeat.stream.period/enter/exit (which stream
// goroutines live, which ticker period each chose); a sampler of DataCopy(heartbeat data); every call
// bracketed by rig.Seq under rig.Guard. Real tickers are waited on by observing their effect.
//
// Oracles (DESIGN.md C16): (1) counters on the tap strictly increase, timestamps never decrease and are
// "current" (causal sandwich between two harness clock readings, 1.5 s slack for the rounding to a
// second); (2) every chosen ticker period <= the announced timeout (deciding), median gap only as a
// sanity cross-check (inconclusive); (3) every refresh seen by sampling DataCopy appears as a notify;
// (4) at quiescence never two live streams that both tick; (5) after Stop/RemoveEntity returned no
// refresh completes that provably STARTED after the return (a refresh that follows, on the same stream
// goroutine, one that completed after the return); (6) no call panics, no process-level panic.
//
// Slow connection: besides the Stop-during-a-slow-write cases the slowtap part lets the observed subscriber's writer
// hold ONE notification for longer than a period plus the resolution and tolerance of the timestamp (no call
// meanwhile); the next refresh of that stream was built after the held write returned and must say so (oracle 1,
// lower bound = end of the previous write). Concurrent state queries: the conc parts repeat Stop / Start / restart
// and make the final RemoveEntity while 4-8 goroutines poll IsHeartbeatRunning in a tight loop (oracles 4 and 5).
//
// In every second case a "mute" peer (x_mute.go: SetupRemoteDevice with a nil writer, every send to it fails)
// subscribed to the DeviceDiagnosis feature before the observed peer: its send fault must not cost the observed
// peer any refresh (oracle 3). The seq part also removes entities that are not in the device's entity list while
// their heartbeat runs (histories "restart-after-remove" and "never-added"), judged by oracle (5).
//
// Steady slow connection (seq, generated histories with a timeout of 100-300 ms, thorough also 1 and 1.25 s): after the
// call-free run of 8 refreshes with a fast subscriber a second call-free run of 8 refreshes follows during which the
// observed subscriber's connection takes a fixed 40, 50 or 60 % of the announced timeout for EVERY heartbeat
// notification (c16Env.slowRun, c16Tap.share). The ticker of a stream keeps its schedule, so the gaps stay around the
// period; the effective-gap oracle judges such a run against announced timeout + half of the time the connection took
// (every gap above it = the period depends on the subscribers: period/effective-gaps-exceed-announced-timeout), with
// a tighter starvation guard (harness timer late by more than a quarter of the timeout in more than 10% of its
// wake-ups => inconclusive).
//
// Second entity: in two of three cases of seq and conc a second entity ([2], or nested [1,1]) has its own DeviceDiagnosis
// feature, heartbeat manager, timeout and subscription; nothing but its AddFunctionType is ever called for it. After
// every checkpoint of entity [1] it must still report running and two more of its refreshes must arrive (oracle 7:
// <op>/stops-the-heartbeat-of-another-entity, .../ends-the-stream-of-another-entity); its own notifies carry strictly
// increasing counters and its stream's period respects ITS timeout. The tap partitions the notifies by addressSource;
// source and destination address of every notify are judged, and a stream goroutine (attributed to its manager by the
// hook) must write its own entity's address (oracle 8). Refresh/data coherence: inside the writer DataCopy of the source
// feature must already show the notified counter (oracle 9, causal); at stopped checkpoints the whole heartbeat data
// (not only the counter) must stay unchanged. A second healthy peer subscribes while the heartbeat runs and must get
// every refresh that was provably built after its subscription returned (oracle 10). "Refreshed periodically": a
// running checkpoint whose watchdog expires without a single refresh is a violation if IsHeartbeatRunning is true, the
// last returned call started the heartbeat and the harness's own timer was on time (<op>/running-without-a-stream when
// the hook gauge shows no live stream goroutine, else <op>/no-refresh-while-running). The announced timeout is parsed
// from the PT..S string of the datagram by the check itself. Part entity0: AddFunctionType(heartbeat) and the
// heartbeat calls on entity [0], which has no heartbeat manager, each history in a child process; only "no panic".

// First use (x_c16_firstuse.go, parts firstuse / firstuse-race): no other part lets the goroutines of the quantifier be the
// FIRST to touch the heartbeat of an entity - the manager used to be fetched once during the setup and every call was made
// on that object. There, and in the conc cases with a concurrent AddFunctionType and every second row of seq (c16Env.perCall),
// every call asks the entity for the manager at the moment it is made; stream goroutines are attributed to entity [1]
// unless they belong to the second entity's manager (not: only if they belong to the object fetched at the setup).

// Wave 7: (a) the peer that subscribes later is, in every second case, a clone of the observed peer as far as addresses go
// (same device address, same numbering, other SKI) and learns from the result datagram - not from the registry's list -
// that it is subscribed; (b) judgeCompletionOrder: the notifies of one entity on one connection in order of COMPLETION of
// their writes (a restart while a refresh is held in the writer must not let the new stream overtake it).
//
// 150ms and 1.25s are not multiples of the 0.1s resolution of the announced xs:duration: the announced timeout
// (PT0.1S, PT1.2S) is then shorter than the configured Go value, and the period is judged against the announced one
// exactly 2s is the last timeout whose period is not shortened (period 2s), 2.1s the first one that is (period 0.1s)
var c16Timeouts = []time.Duration{100 * time.Millisecond, 150 * time.Millisecond, 300 * time.Millisecond, time.Second, 1250 * time.Millisecond, 2 * time.Second, 2100 * time.Millisecond, 2500 * time.Millisecond, 4 * time.Second}

// timeouts of the second entity (periods 100, 200 and - shortened - 100 ms)
var c16TwinTimeouts = []time.Duration{100 * time.Millisecond, 2100 * time.Millisecond, 200 * time.Millisecond}

func init() {
	rig.Register(&rig.Check{
		ID:    "C16",
		Floor: 12,
		Rule: "seq: case = timeout (all nine in turn: 0.1, 0.15, 0.3, 1, 1.25, 2, 2.1, 2.5, 4 s) x a history, each burst of calls followed by a checkpoint (running: wait for k refreshes; stopped: three periods of silence). Rows of five cases: four rows of generated histories of bursts of " +
			"AddFunctionType(heartbeat)/StartHeartbeat/StopHeartbeat/IsHeartbeatRunning/RemoveEntity calls (RemoveEntity possibly a second time after a restart), one row 'restart-after-remove' (AddEntity, add, RemoveEntity, StartHeartbeat, RemoveEntity again), " +
			"one row 'never-added' (NewEntityLocal, add - which starts the heartbeat -, RemoveEntity without any AddEntity; observed through DataCopy). In every second case of seq, conc and slowtap a peer without write handler (every send to it fails) " +
			"subscribed to the DeviceDiagnosis feature before the observed peer; " +
			"in two of three cases of seq and conc a second entity ([2] or nested [1,1]) runs its own heartbeat (timeout 0.1, 0.2 or 2.1 s), started before or after that of entity [1] and never stopped: after every checkpoint of entity [1] it must still be running and refreshing (for [1,1] only until RemoveEntity([1])); " +
			"in every generated history of seq with a timeout of 100-300 ms (thorough: also 1 s and 1.25 s) the call-free run of 8 refreshes is followed by a second one during which the observed subscriber's connection takes 40, 50 or 60 % of the announced timeout for every heartbeat notification (less than the period), judged by the effective-gap oracle with the bound announced timeout + half of that time; " +
			"in every second generated history of seq a second healthy peer subscribes while the heartbeat runs and must receive every refresh built after its subscription returned (accepted = the result datagram that answers its request carries error number 0); in every second of these cases that peer announces the SAME device address as the observed peer (same entity and feature numbering anyway): two subscribers whose client feature addresses are identical and that differ in the SKI of their connection only; " +
			"every sequence of heartbeat notifies of one entity on one connection is judged in the order of entry into the writer AND in the order in which the writes were complete (slowtap restarts the heartbeat while a refresh is held inside the writer for 2.5 periods); " +
			"conc: 4-8 goroutines with 3-6 Start/Stop/IsRunning calls each - in case index%4 = 1|3 the AddFunctionType that creates and starts the heartbeat is one of these calls (the others begin with StartHeartbeat), in 2|3 one or two RemoveEntity calls are among them -, cyclic rendezvous of two or jitter at Heartbeat.stop.afterCheck and Heartbeat.start.afterStop, then a final sequential call that makes the expectation exact, " +
			"then (periods <= 300 ms) 2-8 trials of Stop, Start and restarting Start, and finally (all periods) RemoveEntity, each called while 4-8 other goroutines query IsHeartbeatRunning in a tight loop (bounded; they have ended before the checkpoint judges: after Stop/RemoveEntity no live stream and no refresh beyond the one in flight, after Start exactly one stream; a query that returned before the call began must report the state the preceding checkpoint established, one that began after the call returned the state the call produces - ordered through an atomic phase flag -, queries overlapping the call are only counted); " +
			"firstuse (plain and -race): the FIRST heartbeat calls an entity ever sees come from 2-4 goroutines at once, for 40 (thorough 80; -race 16/32) fresh entities per case, timeouts 0.1, 0.15 and 2.1 s: exactly one goroutine calls AddFunctionType(heartbeat), each of the others one of IsHeartbeatRunning / StopHeartbeat / StartHeartbeat (through entity.HeartbeatManager() at the moment of the call) / RemoveEntity; nothing asks the entity for its heartbeat manager before. " +
			"Release of a group (in turn): 'convoy' = the entity's mutex is held, let go and taken again at once (2-3 rounds) by a lookup of the harness that is parked inside Type() of a feature implementation of its own, while the calls arrive in a seeded order (add first / last / anywhere) - calls that take this mutex queue up for more than a millisecond and then go through their locked steps in lockstep -, 'spin' = one flag plus a seeded skew, 'chan' = a closed channel. Then sequentially an optional StartHeartbeat or IsHeartbeatRunning and a closing StopHeartbeat or RemoveEntity (in a quarter of the entities only after the first wait). " +
			"Judged on logged order: no panic; IsHeartbeatRunning after the group (if nothing in it stops), after the sequential start and after the closing call; after the closing call returned at most one more refresh in the function data (counter right after the return vs. after 4 periods and again after 8) and unchanged content for an unchanged counter; non-trivial = every entity of the case was judged and no stream goroutine was left at the end. " +
			"In the conc cases whose AddFunctionType is one of the concurrent calls, and in every second row of seq, the case never keeps the manager of entity [1]: every call asks the entity for it (nothing asks before the first call of the history), and every stream goroutine that does not belong to the second entity's manager counts as a stream of entity [1], whichever manager object runs it. " +
			"slowtap: Stop issued while a refresh is being written by a writer that is slower than the period; in four further cases (periods 300 and 500 ms) the observed subscriber's connection holds one notification for period + 2.1..2.5 s without any call being made, and the refreshes that follow must carry current timestamps; nofeature: histories that start the heartbeat although no DeviceDiagnosis heartbeat function was added, each in a child process; entity0: six histories of AddFunctionType(heartbeat) (readable / not readable), the HeartbeatManager calls (if a manager is handed out), AddEntity and RemoveEntity on the DeviceDiagnosis server feature of the device's entity [0] and of an entity [0] created by the application, each in a child process, judged for 'no panic' only (one control history without the heartbeat function). " +
			"A case is non-trivial if at least one running checkpoint (refreshes judged) and one stopped checkpoint (silence judged) were decided without a watchdog expiry. distinct = (timeout, operation sequence, hook policy).",
		Assumptions: []string{
			"'periodically': the deciding period check is the hook record period <= announced timeout (announced = the PT..S string of the notify / the function data, parsed by the check itself). A running checkpoint that shows NO refresh at all within its watchdog ((k+2) x 4 periods + 15 s) is a violation on logged order if every call has returned, the call that decided the state started the heartbeat, IsHeartbeatRunning() = true, and the harness's own sampler timer woke up regularly during the wait (at least half of the nominal wake-ups, at most 10% more than 50 ms late: the process was not starved): <op>/running-without-a-stream if the hook gauge shows that every stream goroutine that entered has left, else <op>/no-refresh-while-running; fewer refreshes than waited for, or a late harness timer, stay inconclusive",
			"'with a period not exceeding the announced timeout' holds whatever the subscribers' connections cost, as long as a notification takes less than the period: in a call-free run of >= 7 refreshes of one stream during which the subscriber's connection took h (40-60 % of the announced timeout, timeouts <= 2 s) for every notification, a stream that keeps its schedule shows gaps around the period (a late refresh is followed by a short gap), one whose period begins anew after the notification shows period + h in EVERY gap; verdict only if every gap exceeds announced + h/2 and the harness's own sampler timer (period/5) woke up at least half of the nominal times in that window with at most 10% of the wake-ups more than min(50 ms, timeout/4) late - otherwise inconclusive. Wall-clock gaps are used here because the clause is about time; the harness timer in the same scheduler is the reference",
			"a second entity for which only AddFunctionType(heartbeat) was ever called is running by the statement's own terms; that calls on entity [1] leave it running and refreshing is 'an entity's heartbeat ... while running ... refreshed periodically' applied to it. For a nested entity [1,1] nothing is judged after RemoveEntity([1]): whether removing an entity ends the heartbeats of its sub-entities is not decided by the statement. Gaps in the second entity's counter sequence are not judged (only 'strictly increasing')",
			"'notified to the subscribers of the device-diagnosis feature' names the feature: addressSource must be the DeviceDiagnosis feature of the entity whose stream wrote the notify, addressDestination the client feature subscribed to exactly that feature; a peer that subscribes while the heartbeat runs is a subscriber from the moment its subscription request returned: refreshes built after that (same-goroutine successor of a notify whose write to the first subscriber completed later, or a stream goroutine that entered later) must reach it, up to the first RemoveEntity call",
			"'carrying a strictly increasing counter ... notified to the subscribers' is judged as a subscriber gets it: a notification whose write to the connection is complete (logged rig.Seq when the writer is about to return) after the write of a notification of the same feature with a HIGHER counter was complete reached the subscriber after it (counter/not-strictly-increasing-in-order-of-completion); this takes two writes that overlap on one connection, i.e. two goroutines that refresh and notify one entity's heartbeat at the same time (the in-flight refresh of a stopped stream and the stream started afterwards). Overlapping writes as such are only counted",
			"'the subscribers of the device-diagnosis feature' are told apart by their connection (SKI), not by the address of their client feature: two remote devices that announce the same device address and numbering (clones, or devices whose address is not known) and whose subscription requests were both answered with error number 0 are two subscribers, each gets every refresh",
			"'data is refreshed ... every refresh is notified': FeatureLocal.SetData stores before it notifies, so while a notify is inside the writer DataCopy of its source feature shows a counter >= the notified one (read by the writer goroutine itself: causal); 'the data then stays unchanged' is judged on the JSON rendering of the whole heartbeat data (same counter => same content)",
			"entity [0]: whether the DeviceInformation entity has a heartbeat is not decided; AddFunctionType(heartbeat) on its DeviceDiagnosis server feature and every call the API offers there must not panic (signature entity0/add-heartbeat-function-panics: on the current tree EntityLocal.HeartbeatManager() is nil for entity [0] and FeatureLocal.AddFunctionType dereferences it)",
			"a stopped stream may complete the one refresh that was in flight when Stop/RemoveEntity returned; a further refresh on the same stream goroutine provably started after the return and is judged",
			"after RemoveEntity refreshes are counted through the heartbeat counter in DataCopy (difference to the value sampled right after the call returned) as well as on the tap: the removed entity's own subscriptions to remote features are cancelled, but the registry entries of remote subscribers to its features stay (observed: a heartbeat restarted on a removed entity is still notified), which no clause of this statement judges",
			"'every refresh is notified to the subscribers' includes a subscriber whose entry follows that of a peer with a broken connection (the mute peer of x_mute.go, which is not observed itself); when the function data shows refreshes whose notifies never reach the observed peer, the running checkpoint stops waiting and oracle (3) (sampled refreshes vs. notifies) gives the verdict",
			"'removal of the entity' is judged for every RemoveEntity call that returned, also when the entity is not (or no longer) in the device's entity list while its heartbeat runs (AddFunctionType starts it before AddEntity; StartHeartbeat restarts it after a removal)",
			"the rendezvous at the two Start/Stop windows lies inside a mutex on the current tree: it expires (counted as window_closed) and is never judged",
			"'a current timestamp' after a blocked notification: a stream builds refresh k+1 after the write of notification k returned (same goroutine), so its timestamp must not be older than the harness clock reading taken when that write was complete, minus 0.5 s (the stack rounds to whole seconds) minus 1 s tolerance (signature timestamp/older-than-the-end-of-the-previous-notification; judged for every pair of consecutive notifications of one stream in every part). The comparison is one-sided and causal (delays only make the timestamp later); it is skipped when the harness's own sampler was more than 500 ms late around that moment",
			"IsHeartbeatRunning is an operation of the quantifier: other goroutines querying the state while Stop, Start or RemoveEntity run must not change what those calls achieve; the answers of queries that provably ended before the call began or began after it returned are judged against the decided state, those overlapping the call are only counted",
			"the calls of the quantifier are made the way the API offers them: entity.HeartbeatManager().X() at the moment of the call (parts firstuse, conc with a concurrent AddFunctionType, every second row of seq) as well as on a manager object kept since the setup (the rest). 'An entity's heartbeat' is whatever refreshes the heartbeat data of that entity's DeviceDiagnosis feature: after StopHeartbeat (on the manager the entity hands out) or RemoveEntity returned, the data must stay unchanged whichever object produced the refreshes",
			"part firstuse: holding the entity's mutex (through a feature implementation whose Type() parks while the entity's own lookup calls it) only forces an interleaving of calls that take this mutex; it is never judged, and on a tree whose heartbeat calls do not take it the calls simply run. A first use guarded by a lock the harness cannot reach is only met by the unforced 'spin' / 'chan' groups (no hit in 6400 such groups on a loaded machine for a 2-statement window)",
			"histories that call StartHeartbeat before an effective AddFunctionType run in a child process, because the stream goroutine of the current tree dereferences a nil feature at its first tick and takes the process down (reported as heartbeat/start-without-feature-panics)",
		},
		Parts: []rig.Part{
			{Name: "seq", Run: c16Seq, Workers: 32, Chunk: 1, Procs: 2, Quiet: 120 * time.Second, Cases: func(t rig.Tier) int { return map[rig.Tier]int{rig.Quick: 54, rig.Thorough: 432}[t] }},
			{Name: "conc", Run: c16Conc, Workers: 20, Chunk: 1, Procs: 4, Quiet: 120 * time.Second, Cases: func(t rig.Tier) int { return map[rig.Tier]int{rig.Quick: 16, rig.Thorough: 140}[t] }},
			{Name: "conc-race", Race: true, Run: c16Conc, Workers: 16, Chunk: 1, Procs: 4, Quiet: 180 * time.Second, Cases: func(t rig.Tier) int { return map[rig.Tier]int{rig.Quick: 8, rig.Thorough: 48}[t] }},
			// the first heartbeat calls of fresh entities arrive from several goroutines at once (x_c16_firstuse.go)
			{Name: "firstuse", Run: c16FirstUse, Workers: 8, Chunk: 1, Procs: 4, Quiet: 120 * time.Second, Cases: func(t rig.Tier) int { return map[rig.Tier]int{rig.Quick: 8, rig.Thorough: 32}[t] }},
			{Name: "firstuse-race", Race: true, Run: c16FirstUse, Workers: 4, Chunk: 1, Procs: 4, Quiet: 180 * time.Second, Cases: func(t rig.Tier) int { return map[rig.Tier]int{rig.Quick: 4, rig.Thorough: 12}[t] }},
			{Name: "slowtap", Run: c16SlowTap, Workers: 12, Chunk: 1, Procs: 2, Quiet: 120 * time.Second, Cases: func(t rig.Tier) int { return map[rig.Tier]int{rig.Quick: 6 + 4, rig.Thorough: 16 + 12}[t] }},
			{Name: "nofeature", Run: c16NoFeature, Workers: 8, Chunk: 1, Procs: 2, Quiet: 120 * time.Second, Cases: func(t rig.Tier) int { return map[rig.Tier]int{rig.Quick: 6, rig.Thorough: 12}[t] }},
			// run only as a child process of a nofeature case
			{Name: "nofeature-child", Run: c16NoFeatureChild, Cases: func(rig.Tier) int { return 0 }},
			// entity [0] (DeviceInformation): histories on its DeviceDiagnosis server feature, each in a child process; only "no panic" is judged
			{Name: "entity0", Run: c16Entity0, Workers: 8, Chunk: 1, Procs: 2, Quiet: 120 * time.Second, Cases: func(t rig.Tier) int { return len(c16Entity0Histories) }},
			{Name: "entity0-child", Run: c16Entity0Child, Cases: func(rig.Tier) int { return 0 }},
		},
	})
}

// ---------------------------------------------------------------------------
// writer of the subscribed peer

type c16Notify struct {
	Seq, Done int64 // rig.Seq at entry into and exit from the writer
	At        time.Time
	DoneAt    time.Time // harness clock when the write was complete (the writer is about to return to the stream)
	Held      time.Duration
	Share     int64 // > 0: held for this percentage of the announced timeout (steady slow connection)
	Goid      int64
	Counter   uint64
	HasCtr    bool
	TS        time.Time
	HasTS     bool
	Timeout   time.Duration
	HasTO     bool
	RawTO     string // the announced timeout as it is written in the datagram
	Src, Dst  string // addressSource / addressDestination of the datagram
	// the heartbeat counter the function data of the source feature showed while this notify was inside the writer
	DataCtr   uint64
	DataHas   bool
	DataKnown bool // the source address is a DeviceDiagnosis feature of this case
}

type c16Tap struct {
	mu    sync.Mutex
	hbs   []c16Notify
	other int
	// slow writer: the next heartbeat notify is held for `hold` (schedule widening, like a congested connection)
	hold    int64 // nanoseconds, consumed by the next heartbeat notify
	entered chan struct{}
	// steady slow connection: while share > 0 every heartbeat notify whose addressSource is shareSrc is held for share
	// percent of the timeout the notify itself announces (a subscriber whose connection takes a fixed part of the period
	// per message, always less than the period)
	share    int64 // percent, atomic
	shareSrc string
	// data reads the heartbeat counter in the function data of the feature with address src (set before the
	// connection exists, never changed afterwards)
	data func(src string) (ctr uint64, has, known bool)
	// results: error number of every result datagram written to this connection, by the request counter it refers to
	// (how the peer itself learns that its subscription request was accepted)
	results map[model.MsgCounterType]uint
}

// resultOf: the error number of the result datagram that answered request mc on this connection (ok: one arrived).
func (t *c16Tap) resultOf(mc model.MsgCounterType) (errno uint, ok bool) {
	t.mu.Lock()
	defer t.mu.Unlock()
	errno, ok = t.results[mc]
	return
}

// c16ParseDuration parses an xs:duration restricted to days, hours, minutes and (fractional) seconds - PnDTnHnMn.nS -
// independently of the library's own parser: the announced heartbeat timeout is what is written in the datagram.
func c16ParseDuration(s string) (time.Duration, bool) {
	if !strings.HasPrefix(s, "P") {
		return 0, false
	}
	var total time.Duration
	inTime, seen := false, false
	num := ""
	for _, r := range s[1:] {
		switch {
		case r == 'T':
			if inTime || num != "" {
				return 0, false
			}
			inTime = true
		case (r >= '0' && r <= '9') || r == '.':
			num += string(r)
		default:
			if num == "" {
				return 0, false
			}
			f, err := strconv.ParseFloat(num, 64)
			if err != nil {
				return 0, false
			}
			var unit time.Duration
			switch {
			case r == 'D' && !inTime:
				unit = 24 * time.Hour
			case r == 'H' && inTime:
				unit = time.Hour
			case r == 'M' && inTime:
				unit = time.Minute
			case r == 'S' && inTime:
				unit = time.Second
			default:
				return 0, false // years, months, weeks: no heartbeat timeout this check could judge
			}
			total += time.Duration(math.Round(f * float64(unit)))
			num, seen = "", true
		}
	}
	if num != "" || !seen {
		return 0, false
	}
	return total, true
}

func (t *c16Tap) WriteShipMessageWithPayload(m []byte) {
	var d model.Datagram
	if err := json.Unmarshal(m, &d); err != nil || len(d.Datagram.Payload.Cmd) == 0 {
		t.mu.Lock()
		t.other++
		t.mu.Unlock()
		return
	}
	hb := d.Datagram.Payload.Cmd[0].DeviceDiagnosisHeartbeatData
	cl := d.Datagram.Header.CmdClassifier
	if hb == nil || cl == nil || *cl != model.CmdClassifierTypeNotify {
		t.mu.Lock()
		t.other++
		if rd, ref := d.Datagram.Payload.Cmd[0].ResultData, d.Datagram.Header.MsgCounterReference; rd != nil && ref != nil && cl != nil && *cl == model.CmdClassifierTypeResult {
			if t.results == nil {
				t.results = map[model.MsgCounterType]uint{}
			}
			no := uint(0)
			if rd.ErrorNumber != nil {
				no = uint(*rd.ErrorNumber)
			}
			t.results[*ref] = no
		}
		t.mu.Unlock()
		return
	}
	n := c16Notify{Seq: rig.Seq(), At: time.Now(), Goid: eGoid(), Src: rkKey(d.Datagram.Header.AddressSource), Dst: rkKey(d.Datagram.Header.AddressDestination)}
	if hb.HeartbeatCounter != nil {
		n.Counter, n.HasCtr = *hb.HeartbeatCounter, true
	}
	if hb.Timestamp != nil {
		if ts, err := hb.Timestamp.GetTime(); err == nil {
			n.TS, n.HasTS = ts, true
		}
	}
	if hb.HeartbeatTimeout != nil {
		n.RawTO = string(*hb.HeartbeatTimeout)
		if to, ok := c16ParseDuration(n.RawTO); ok {
			n.Timeout, n.HasTO = to, true
		}
	}
	// SetData stores the refresh before it notifies: the function data cannot be behind what is being notified
	if t.data != nil {
		n.DataCtr, n.DataHas, n.DataKnown = t.data(n.Src)
	}
	if h := atomic.SwapInt64(&t.hold, 0); h > 0 {
		select {
		case t.entered <- struct{}{}:
		default:
		}
		time.Sleep(time.Duration(h))
		n.Held = time.Duration(h)
	} else if sh := atomic.LoadInt64(&t.share); sh > 0 && n.HasTO && n.Src == t.shareSrc && n.Timeout <= 2*time.Second {
		h := n.Timeout * time.Duration(sh) / 100
		time.Sleep(h)
		n.Held, n.Share = h, sh
	}
	n.Done, n.DoneAt = rig.Seq(), time.Now()
	t.mu.Lock()
	t.hbs = append(t.hbs, n)
	t.mu.Unlock()
}

func (t *c16Tap) notifies() []c16Notify {
	t.mu.Lock()
	defer t.mu.Unlock()
	r := append([]c16Notify(nil), t.hbs...)
	sort.Slice(r, func(i, j int) bool { return r[i].Seq < r[j].Seq })
	return r
}

// ---------------------------------------------------------------------------
// environment of one case

type c16Stream struct {
	Goid        int64
	Enter, Exit int64
	Period      time.Duration
}

type c16Call struct {
	Op        string
	By        string
	Call, Ret int64
	Res       string
}

type c16Sample struct {
	Seq int64
	Ctr uint64
}

// c16Lag is how late the harness's own sampler woke up: evidence that the process was (not) starved
type c16Lag struct {
	At   time.Time
	Late time.Duration
}

// c16Twin is a second entity ([2], or nested [1,1]) with its own DeviceDiagnosis server feature, heartbeat manager,
// timeout and subscription of the observed peer. No Stop/RemoveEntity is ever called for it: whatever the history does to
// entity [1], the twin's heartbeat must go on ("an entity's heartbeat", per-entity counter).
type c16Twin struct {
	addr    []uint
	nested  bool
	ent     *spine.EntityLocal
	dd      api.FeatureLocalInterface
	hm      api.HeartbeatManagerInterface
	timeout time.Duration
	period  time.Duration
	src     string // address of its DeviceDiagnosis feature as it appears in addressSource
	dst     string // the peer's client feature subscribed to it
	// under c16Env.mu
	streams map[int64]*c16Stream
	periods []time.Duration
	addSeq  int64 // rig.Seq after AddFunctionType(heartbeat) returned for it (0: not yet)
	judged  int
}

// c16Late is a second healthy peer that is connected from the beginning but subscribes to the DeviceDiagnosis
// feature of entity [1] only later, while the heartbeat runs.
type c16Late struct {
	tap             *c16Tap
	peer            *rig.Peer
	dst             string
	subCall, subRet int64 // rig.Seq around the subscription request (0: not subscribed)
}

type c16Env struct {
	c   *rig.Ctx
	w   *rig.World
	ent *spine.EntityLocal
	dd  api.FeatureLocalInterface
	hm  api.HeartbeatManagerInterface // nil if perCall
	// perCall: the case never keeps the heartbeat manager of entity [1]; every call asks the entity for it at the
	// moment it is made (entity.HeartbeatManager().X(), as an application does), and nothing asks before the first
	// call of the history does
	perCall bool
	tap     *c16Tap
	h       *rig.Hooks
	timeout time.Duration
	period  time.Duration // what the harness expects the ticker to use; only used to size waits
	start   time.Time

	mu         sync.Mutex
	streams    map[int64]*c16Stream
	managers   map[any]int // manager objects that ran a stream of entity [1] (hook record)
	pendingPer map[int64]time.Duration
	periods    []time.Duration
	calls      []c16Call
	samples    []c16Sample
	lags       []c16Lag
	sampleIv   time.Duration
	removeCall int64   // Seq before the first RemoveEntity call (0: none)
	marks      []int64 // Seq at which the subscriber's connection changed its speed (slowRun): runs of notifies are cut there like at a call
	stopSample chan struct{}
	sampleWG   sync.WaitGroup

	noGapOracle                     bool // the writer is held on purpose (slowtap)
	runningCP, stoppedCP, undecided int
	trace                           []string

	srcA, dstA string // addresses every heartbeat notify of entity [1] must carry
	tw         *c16Twin
	late       *c16Late
	removed    bool // RemoveEntity was called for entity [1] (possibly by a concurrent goroutine)

	hasPeer bool      // an observed peer subscribed to the DeviceDiagnosis feature
	mute    *rig.Peer // a peer whose connection cannot send subscribed before the observed one (nil: none)
	// lost: a running checkpoint saw refreshes become visible in the function data whose notifies never reached
	// the subscribed peer's writer; it stopped waiting, oracle (3) in finish() judges them
	lost bool
}

// c16Opt: peer = an observed peer subscribes to the DeviceDiagnosis feature; mute = a peer without write handler
// (x_mute.go) subscribes before it; unadded = the entity is created with NewEntityLocal but never passed to
// DeviceLocal.AddEntity (then nobody can subscribe: refreshes are observed through DataCopy only).
// twin = address of a second entity with its own heartbeat (nil: none), twinTimeout its heartbeat timeout;
// late = a second healthy peer is connected that subscribes later (c16Env.lateSubscribe).
type c16Opt struct {
	peer, mute, unadded bool
	perCall             bool // see c16Env.perCall
	twin                []uint
	twinTimeout         time.Duration
	late                bool
	// lateClone: the peer that subscribes later announces the SAME device address as the observed peer (and numbers its
	// entities and features in the same way): the client feature addresses of the two subscribers are identical, they
	// differ in nothing but the SKI of their connection (a cloned / mis-configured device, or peers whose device address
	// is not known). They are two subscribers all the same.
	lateClone bool
}

func newC16Env(c *rig.Ctx, timeout time.Duration, withPeer bool) *c16Env {
	return newC16EnvOpt(c, timeout, c16Opt{peer: withPeer})
}

func newC16EnvOpt(c *rig.Ctx, timeout time.Duration, opt c16Opt) *c16Env {
	withPeer := opt.peer && !opt.unadded
	e := &c16Env{c: c, timeout: timeout, period: timeout, start: time.Now(), streams: map[int64]*c16Stream{}, managers: map[any]int{}, pendingPer: map[int64]time.Duration{},
		tap: &c16Tap{entered: make(chan struct{}, 1)}, stopSample: make(chan struct{})}
	if timeout > 2*time.Second {
		e.period = timeout - 2*time.Second
	}
	e.w = rig.NewWorld(c.Tag())
	if opt.unadded {
		e.ent = spine.NewEntityLocal(e.w.Local, model.EntityTypeTypeCEM, spine.NewAddressEntityType([]uint{1}), timeout)
	} else {
		e.ent = e.w.AddEntity(model.EntityTypeTypeCEM, []uint{1}, timeout)
	}
	e.dd = e.ent.GetOrAddFeature(model.FeatureTypeTypeDeviceDiagnosis, model.RoleTypeServer)
	e.perCall = opt.perCall
	if !e.perCall {
		e.hm = e.ent.HeartbeatManager()
	}
	e.srcA, e.dstA = rkKey(e.dd.Address()), rkKey(rig.FA("dev0", []uint{1}, 1))
	e.tap.shareSrc = e.srcA // before the connection exists; never changed afterwards
	if len(opt.twin) > 0 && withPeer {
		tw := &c16Twin{addr: opt.twin, nested: len(opt.twin) > 1, timeout: opt.twinTimeout, period: opt.twinTimeout, streams: map[int64]*c16Stream{}}
		if tw.timeout > 2*time.Second {
			tw.period = tw.timeout - 2*time.Second
		}
		tw.ent = e.w.AddEntity(model.EntityTypeTypeEV, opt.twin, tw.timeout)
		tw.dd = tw.ent.GetOrAddFeature(model.FeatureTypeTypeDeviceDiagnosis, model.RoleTypeServer)
		tw.hm = tw.ent.HeartbeatManager()
		tw.src, tw.dst = rkKey(tw.dd.Address()), rkKey(rig.FA("dev0", []uint{1}, 2))
		e.tw = tw
		c.Count("cases_with_a_second_entity_with_its_own_heartbeat:"+rkEnt(tw.dd.Address().Entity), 1)
	}
	e.tap.data = e.dataOf
	e.h = rig.InstallHooks()
	// the period record precedes the enter record on the same goroutine; it is attributed to the manager there
	e.h.On("Heartbeat.stream.period", func(obj any) {
		d, _ := obj.(time.Duration)
		g := eGoid()
		e.mu.Lock()
		e.pendingPer[g] = d
		e.mu.Unlock()
	})
	e.h.On("Heartbeat.stream.enter", func(obj any) {
		g := eGoid()
		s := rig.Seq()
		e.mu.Lock()
		defer e.mu.Unlock()
		// every stream goroutine of this process that does not belong to the second entity's manager is a heartbeat
		// stream of entity [1] - whichever manager object runs it (the world has no other entity with a heartbeat)
		switch {
		case e.tw != nil && obj == any(e.tw.hm):
			e.tw.streams[g] = &c16Stream{Goid: g, Enter: s, Period: e.pendingPer[g]}
			e.tw.periods = append(e.tw.periods, e.pendingPer[g])
		default:
			e.streams[g] = &c16Stream{Goid: g, Enter: s, Period: e.pendingPer[g]}
			e.periods = append(e.periods, e.pendingPer[g])
			e.managers[obj]++
		}
	})
	e.h.On("Heartbeat.stream.exit", func(obj any) {
		g := eGoid()
		s := rig.Seq()
		e.mu.Lock()
		defer e.mu.Unlock()
		switch {
		case e.tw != nil && obj == any(e.tw.hm):
			if st := e.tw.streams[g]; st != nil {
				st.Exit = s
			}
		default:
			if st := e.streams[g]; st != nil {
				st.Exit = s
			}
		}
	})
	ddClient := rig.FS{Ent: []uint{1}, Id: 1, Typ: model.FeatureTypeTypeDeviceDiagnosis, Role: model.RoleTypeClient}
	ddClient2 := rig.FS{Ent: []uint{1}, Id: 2, Typ: model.FeatureTypeTypeDeviceDiagnosis, Role: model.RoleTypeClient}
	if withPeer && opt.mute {
		// every send to this peer fails; it subscribes first, so its entry precedes the observed peer's
		e.mute = addMutePeer(e.w, 0)
		subs := []muteSub{{rig.FA(e.mute.Addr, []uint{1}, 1), e.dd.Address(), model.FeatureTypeTypeDeviceDiagnosis}}
		if e.tw != nil {
			subs = append(subs, muteSub{rig.FA(e.mute.Addr, []uint{1}, 2), e.tw.dd.Address(), model.FeatureTypeTypeDeviceDiagnosis})
		}
		if why := muteSubscribeFirst(e.w, e.mute, []rig.FS{rig.NMFS, ddClient, ddClient2}, subs); why != "" {
			c.Inconclusive("setup of the mute peer: %s", why)
		}
		c.Count("cases_with_a_mute_first_subscriber", 1)
	}
	if withPeer {
		e.hasPeer = true
		p := &rig.Peer{Ski: c.Tag() + "-ski0", Addr: "dev0", Tap: &rig.Tap{}, W: e.w, Ctr: 1000}
		e.w.Local.SetupRemoteDevice(p.Ski, e.tap)
		p.RD = e.w.Local.RemoteDeviceForSki(p.Ski)
		e.w.Peers = append(e.w.Peers, p)
		p.Announce([]rig.FS{rig.NMFS, ddClient, ddClient2})
		p.Subscribe(rig.FA(p.Addr, []uint{1}, 1), e.dd.Address(), model.FeatureTypeTypeDeviceDiagnosis)
		want := 1
		if e.mute != nil {
			want = 2
		}
		if n := len(e.w.Local.SubscriptionManager().SubscriptionsOnFeature(*e.dd.Address())); n != want {
			c.Inconclusive("the peer's subscription to the DeviceDiagnosis feature was not accepted (%d subscriptions, expected %d)", n, want)
		}
		if e.tw != nil {
			p.Subscribe(rig.FA(p.Addr, []uint{1}, 2), e.tw.dd.Address(), model.FeatureTypeTypeDeviceDiagnosis)
			if n := len(e.w.Local.SubscriptionManager().SubscriptionsOnFeature(*e.tw.dd.Address())); n != want {
				c.Inconclusive("the peer's subscription to the DeviceDiagnosis feature of the second entity was not accepted (%d subscriptions, expected %d)", n, want)
			}
		}
	}
	if withPeer && opt.late {
		// connected and announced now, subscribes later
		p := &rig.Peer{Ski: c.Tag() + "-ski1", Addr: "dev1", Tap: &rig.Tap{}, W: e.w, Ctr: 2000}
		if opt.lateClone {
			p.Addr = "dev0" // the device address the observed peer announces, too
			c.Count("cases_whose_subscribers_have_identical_client_feature_addresses", 1)
		}
		l := &c16Late{tap: &c16Tap{entered: make(chan struct{}, 1), data: e.dataOf}, peer: p, dst: rkKey(rig.FA(p.Addr, []uint{1}, 1))}
		e.w.Local.SetupRemoteDevice(p.Ski, l.tap)
		p.RD = e.w.Local.RemoteDeviceForSki(p.Ski)
		e.w.Peers = append(e.w.Peers, p)
		p.Announce([]rig.FS{rig.NMFS, ddClient})
		e.late = l
	}
	return e
}

func c16CounterOf(f api.FeatureLocalInterface) (uint64, bool) {
	v := f.DataCopy(model.FunctionTypeDeviceDiagnosisHeartbeatData)
	if rig.IsNil(v) {
		return 0, false
	}
	d, ok := v.(*model.DeviceDiagnosisHeartbeatDataType)
	if !ok || d == nil || d.HeartbeatCounter == nil {
		return 0, false
	}
	return *d.HeartbeatCounter, true
}

// dataOf is the tap's view on the function data (called from inside the writers).
func (e *c16Env) dataOf(src string) (ctr uint64, has, known bool) {
	switch {
	case src == e.srcA:
		ctr, has = c16CounterOf(e.dd)
		return ctr, has, true
	case e.tw != nil && src == e.tw.src:
		ctr, has = c16CounterOf(e.tw.dd)
		return ctr, has, true
	}
	return 0, false, false
}

// mine returns the heartbeat notifies the observed peer received from the DeviceDiagnosis feature of entity [1];
// of returns those with another addressSource.
func (e *c16Env) mine() []c16Notify { return e.of(e.srcA) }

func (e *c16Env) of(src string) []c16Notify {
	var r []c16Notify
	for _, n := range e.tap.notifies() {
		if n.Src == src {
			r = append(r, n)
		}
	}
	return r
}

// twinAdd adds the heartbeat function to the second entity's DeviceDiagnosis feature: its heartbeat starts.
func (e *c16Env) twinAdd() {
	tw := e.tw
	if tw == nil {
		return
	}
	if p := eGuard(e.c, "AddFunctionType on the second entity", func() {
		tw.dd.AddFunctionType(model.FunctionTypeDeviceDiagnosisHeartbeatData, true, false)
	}); p != "" {
		e.c.Violate("call-panics/add", "AddFunctionType(heartbeat) on the DeviceDiagnosis feature of entity %s panicked: %s\n history of entity [1]: %s", rkEnt(tw.dd.Address().Entity), p, e.history())
	}
	e.mu.Lock()
	tw.addSeq = rig.Seq()
	e.mu.Unlock()
	e.note("second entity %s: AddFunctionType(heartbeat) returned at seq %d, timeout %s", rkEnt(tw.dd.Address().Entity), tw.addSeq, tw.timeout)
}

func (e *c16Env) twinLive() int {
	e.mu.Lock()
	defer e.mu.Unlock()
	n := 0
	for _, s := range e.tw.streams {
		if s.Exit == 0 {
			n++
		}
	}
	return n
}

// twinIntact: all calls of the history of entity [1] so far have returned (seq s; op = the call that decided its
// state). No Stop and no RemoveEntity was ever called for the second entity, so its heartbeat is running and must
// be refreshed: IsHeartbeatRunning is true, and two further refreshes of it reach the peer (waited for; if none
// arrives and the hook gauge shows that it has no stream goroutine any more, that is the verdict on logged order).
// For a nested twin [1,1] nothing is judged once RemoveEntity was called for its parent [1]: whether the removal of
// an entity ends the heartbeats of its sub-entities is not decided by the statement.
func (e *c16Env) twinIntact(op string, s int64) {
	tw := e.tw
	e.mu.Lock()
	removed := e.removed
	var added bool
	if tw != nil {
		added = tw.addSeq != 0
	}
	e.mu.Unlock()
	if tw == nil || !added || (tw.nested && removed) || e.c.Failed() {
		return
	}
	ent := rkEnt(tw.dd.Address().Entity)
	running := false
	if p := eGuard(e.c, "IsHeartbeatRunning on the second entity", func() { running = tw.hm.IsHeartbeatRunning() }); p != "" {
		e.c.Violate("call-panics/isrunning", "IsHeartbeatRunning on entity %s panicked: %s", ent, p)
		return
	}
	e.c.Events(1)
	if !running {
		e.c.Violate(op+"/stops-the-heartbeat-of-another-entity", "after %s on entity [1] returned (seq %d), IsHeartbeatRunning() of entity %s is false although neither StopHeartbeat nor RemoveEntity was ever called for it (live stream goroutines of it: %d)\n history of entity [1]: %s", op, s, ent, e.twinLive(), e.history())
		return
	}
	cnt := func() int {
		n := 0
		for _, x := range e.of(tw.src) {
			if x.Seq > s {
				n++
			}
		}
		return n
	}
	from := time.Now()
	limit := 16*tw.period + 15*time.Second
	if rig.WaitFor(limit, func() bool { return cnt() >= 2 }) {
		e.c.Events(2)
		e.mu.Lock()
		tw.judged++
		e.mu.Unlock()
		return
	}
	live, n := e.twinLive(), cnt()
	switch {
	case n == 0 && live == 0 && e.samplerOnTime(from, time.Now()):
		e.c.Violate(op+"/ends-the-stream-of-another-entity", "after %s on entity [1] returned (seq %d) entity %s reports IsHeartbeatRunning() = true, but it has no live stream goroutine (hook gauge) and none of its refreshes reached the subscribed peer within %s\n history of entity [1]: %s", op, s, ent, limit, e.history())
	case n == 0 && e.samplerOnTime(from, time.Now()):
		e.c.Violate(op+"/silences-the-heartbeat-of-another-entity", "after %s on entity [1] returned (seq %d) entity %s reports IsHeartbeatRunning() = true and has %d live stream goroutines, but none of its refreshes reached the subscribed peer within %s (timeout %s) although the harness's own timer was on time\n history of entity [1]: %s", op, s, ent, live, limit, tw.timeout, e.history())
	default:
		e.undecided++
		e.c.Inconclusive("after %s on entity [1] only %d refreshes of entity %s were observed within %s", op, n, ent, limit)
	}
}

// samplerOnTime is the starvation guard: the harness's own sampler timer runs in the same scheduler as the stream
// goroutines; if it woke up regularly in the window (at least half of the nominal number of wake-ups, at most 10% of
// them more than 50 ms late) the process got the CPU and a heartbeat that is really running would have ticked.
func (e *c16Env) samplerOnTime(from, to time.Time) bool {
	e.mu.Lock()
	defer e.mu.Unlock()
	if e.sampleIv <= 0 {
		return false
	}
	n, late := 0, 0
	for _, l := range e.lags {
		if l.At.After(from) && l.At.Before(to) {
			n++
			if l.Late > 50*time.Millisecond {
				late++
			}
		}
	}
	return n > 0 && n >= int(to.Sub(from)/e.sampleIv)/2 && late*10 <= n
}

// lateSubscribe: the second healthy peer subscribes to the DeviceDiagnosis feature of entity [1] now (the heartbeat
// is running, no call is in progress). finish() judges that it receives every later refresh.
func (e *c16Env) lateSubscribe() {
	l := e.late
	if l == nil || l.subRet != 0 {
		return
	}
	// accepted = what the peer itself is told: the result datagram that answers its request carries error number 0
	// (not: what the registry lists afterwards - the list of subscribers is what the refreshes are judged against)
	call := rig.Seq()
	mc := l.peer.Subscribe(rig.FA(l.peer.Addr, []uint{1}, 1), e.dd.Address(), model.FeatureTypeTypeDeviceDiagnosis)
	ret := rig.Seq()
	var errno uint
	if !rig.WaitFor(10*time.Second, func() bool { var ok bool; errno, ok = l.tap.resultOf(mc); return ok }) || errno != 0 {
		e.c.Inconclusive("the late subscription to the DeviceDiagnosis feature was not accepted (result datagram for request %d: error number %d)", mc, errno)
		return
	}
	e.mu.Lock()
	l.subCall, l.subRet = call, ret
	e.mu.Unlock()
	e.c.Count("subscriptions_made_while_the_heartbeat_runs", 1)
	e.note("a second peer subscribed to the DeviceDiagnosis feature while the heartbeat runs (seq %d-%d)", call, ret)
}

// slowRun: a call-free run of k refreshes during which the observed subscriber's connection takes a FIXED share of the
// announced timeout for every heartbeat notification of entity [1] (always less than the period: a stream that keeps
// its schedule is never late because of it). "refreshed periodically, with a period not exceeding the announced
// timeout" does not depend on how long the subscribers take: the gaps between the refreshes of this run are judged in
// finish() against announced timeout + half of the time the connection took (a period that restarts when the
// notification is through would show announced timeout + the whole of it in EVERY gap).
func (e *c16Env) slowRun(op string, share int64, k int) {
	atomic.StoreInt64(&e.tap.share, share)
	s := rig.Seq()
	e.mu.Lock()
	e.marks = append(e.marks, s)
	e.mu.Unlock()
	e.note("from seq %d on the subscriber's connection takes %d%% of the announced timeout per heartbeat notification", s, share)
	v0, v0ok := e.counter()
	e.checkpointRunning(op, s, v0, v0ok, true, k)
	s = rig.Seq()
	e.mu.Lock()
	e.marks = append(e.marks, s)
	e.mu.Unlock()
	atomic.StoreInt64(&e.tap.share, 0)
	e.note("from seq %d on the subscriber's connection is fast again", s)
	e.c.Count("slow_subscriber_runs", 1)
}

// close stops everything this case started (the entity may have been removed from the device, so
// World.Close alone would not reach its heartbeat manager).
func (e *c16Env) close() {
	select {
	case <-e.stopSample:
	default:
		close(e.stopSample)
	}
	e.sampleWG.Wait()
	rig.Guard(10*time.Second, func() { e.mgr().StopHeartbeat() })
	if e.tw != nil {
		rig.Guard(10*time.Second, func() { e.tw.hm.StopHeartbeat() })
		rig.WaitFor(5*time.Second, func() bool { return e.twinLive() == 0 })
	}
	rig.WaitFor(5*time.Second, func() bool { return e.live() == 0 })
	e.h.Uninstall()
	if e.mute != nil {
		e.w.Local.RemoveRemoteDeviceConnection(e.mute.Ski) // World.Close does not know this peer
	}
	e.w.Close()
}

// subscribed: refreshes can be waited for on the observed peer's writer (not after RemoveEntity was called for the
// entity: what a removal does to the subscriptions of remote peers is not decided by the statement; then the
// heartbeat counter in the function data is watched instead)
func (e *c16Env) subscribed() bool {
	e.mu.Lock()
	defer e.mu.Unlock()
	return e.hasPeer && !e.removed
}

func (e *c16Env) live() int {
	e.mu.Lock()
	defer e.mu.Unlock()
	n := 0
	for _, s := range e.streams {
		if s.Exit == 0 {
			n++
		}
	}
	return n
}

func (e *c16Env) counter() (uint64, bool) { return c16CounterOf(e.dd) }

// mgr is the heartbeat manager of entity [1] as the case reaches it: the object kept since the setup, or (perCall)
// whatever the entity hands out now.
func (e *c16Env) mgr() api.HeartbeatManagerInterface {
	if e.perCall {
		return e.ent.HeartbeatManager()
	}
	return e.hm
}

// dataJSON renders the whole heartbeat data of entity [1] (counter, timestamp, timeout).
func (e *c16Env) dataJSON() string {
	v := e.dd.DataCopy(model.FunctionTypeDeviceDiagnosisHeartbeatData)
	if rig.IsNil(v) {
		return "<none>"
	}
	return rig.JS(v)
}

func (e *c16Env) startSampler() {
	iv := e.period / 5
	if iv < 5*time.Millisecond {
		iv = 5 * time.Millisecond
	}
	if iv > 100*time.Millisecond {
		iv = 100 * time.Millisecond
	}
	e.sampleIv = iv
	e.sampleWG.Add(1)
	go func() {
		defer e.sampleWG.Done()
		var last uint64
		have := false
		woke := time.Now()
		for {
			select {
			case <-e.stopSample:
				return
			case <-time.After(iv):
			}
			now := time.Now()
			e.mu.Lock()
			e.lags = append(e.lags, c16Lag{now, now.Sub(woke) - iv})
			e.mu.Unlock()
			woke = now
			if v, ok := e.counter(); ok && (!have || v != last) {
				last, have = v, true
				e.mu.Lock()
				e.samples = append(e.samples, c16Sample{rig.Seq(), v})
				e.mu.Unlock()
			}
		}
	}()
}

// call executes one API call under the watchdog and logs it; a panic is oracle (6).
func (e *c16Env) call(op, by string) (res string) {
	var cl, rt int64
	pan := eGuard(e.c, op, func() {
		e.h.Role(by)
		if op == "remove" {
			e.mu.Lock()
			if e.removeCall == 0 {
				e.removeCall = rig.Seq()
			}
			e.removed = true
			e.mu.Unlock()
		}
		cl = rig.Seq()
		switch op {
		case "add":
			e.dd.AddFunctionType(model.FunctionTypeDeviceDiagnosisHeartbeatData, true, false)
		case "add-unreadable":
			e.dd.AddFunctionType(model.FunctionTypeDeviceDiagnosisHeartbeatData, false, false)
		case "start":
			if err := e.mgr().StartHeartbeat(); err != nil {
				res = "error: " + err.Error()
			}
		case "stop":
			e.mgr().StopHeartbeat()
		case "isrunning":
			res = fmt.Sprint(e.mgr().IsHeartbeatRunning())
		case "remove":
			e.w.Local.RemoveEntity(e.ent)
		}
		rt = rig.Seq()
	})
	if pan != "" {
		e.c.Violate("call-panics/"+op, "%s by %s panicked: %s\n history: %s", op, by, pan, e.history())
		res = "panic"
	}
	e.mu.Lock()
	e.calls = append(e.calls, c16Call{Op: op, By: by, Call: cl, Ret: rt, Res: res})
	e.mu.Unlock()
	return res
}

func (e *c16Env) history() string {
	e.mu.Lock()
	defer e.mu.Unlock()
	var l []string
	for _, c := range e.calls {
		s := fmt.Sprintf("[%d,%d] %s:%s", c.Call, c.Ret, c.By, c.Op)
		if c.Res != "" {
			s += "=" + c.Res
		}
		l = append(l, s)
	}
	return strings.Join(l, " ")
}

func (e *c16Env) note(f string, a ...any) {
	e.mu.Lock()
	e.trace = append(e.trace, fmt.Sprintf(f, a...))
	e.mu.Unlock()
}

// after returns the heartbeat notifies that entered the writer after Seq s, by writing goroutine.
func (e *c16Env) after(s int64) (byG map[int64]int, total int) {
	byG = map[int64]int{}
	for _, n := range e.mine() {
		if n.Seq > s {
			byG[n.Goid]++
			total++
		}
	}
	return byG, total
}

// provableAfter counts refreshes that provably STARTED after Seq s: a notify that follows, on the same
// goroutine, a notify whose write completed after s (a stream starts its next refresh only after the
// previous SetData returned).
func (e *c16Env) provableAfter(s int64) (n int, detail []string) {
	lastDone := map[int64]int64{}
	for _, x := range e.mine() {
		if d, ok := lastDone[x.Goid]; ok && d > s {
			n++
			detail = append(detail, fmt.Sprintf("g%d: notify counter=%d entered the writer at %d, the previous one of this stream had completed at %d (> %d)", x.Goid, x.Counter, x.Seq, d, s))
		}
		lastDone[x.Goid] = x.Done
	}
	return n, detail
}

// checkpointRunning: all calls have returned (Seq s) and the heartbeat is expected to run. Waits for k
// refreshes, then judges "never two live streams that both tick".
func (e *c16Env) checkpointRunning(op string, s int64, v0 uint64, v0ok bool, subscribed bool, k int) {
	limit := time.Duration(k+2)*e.period*4 + 15*time.Second
	lost := ""
	from := time.Now()
	ok := rig.WaitFor(limit, func() bool {
		if subscribed {
			byG, total := e.after(s)
			for _, n := range byG {
				if n >= k {
					return true
				}
			}
			// refreshes that became visible in the function data since s but whose notifies did not enter the
			// subscribed peer's writer (beyond the one each live stream may have in flight): waiting longer is
			// pointless. No verdict here: oracle (3) in finish() judges every sampled refresh.
			if v, has := e.counter(); has && v0ok && v > v0 && int(v-v0)-total >= 3+e.live() {
				lost = fmt.Sprintf("the heartbeat counter in DataCopy went from %d to %d while %d notifies entered the subscribed peer's writer", v0, v, total)
				return true
			}
			return false
		}
		v, has := e.counter()
		return has && v0ok && v >= v0+uint64(k)
	})
	if lost != "" {
		e.lost = true
		e.undecided++
		e.note("checkpoint running after %s (seq %d) given up: %s", op, s, lost)
		return
	}
	if !ok {
		e.undecided++
		// "refreshed periodically while running", judged on logged order: every call has returned, the one that
		// decided the state was a start (or the AddFunctionType that starts the heartbeat), nothing was called since
		// (seq s), IsHeartbeatRunning says running - and not one refresh became visible, neither on the subscribed
		// peer's writer nor in the function data. If in addition the hook gauge shows that no stream goroutine is
		// alive, nothing is left that could ever refresh the data. Both verdicts only if the harness's own timer
		// shows that the process was not starved during the wait (otherwise inconclusive, as before).
		_, total := e.after(s)
		v, has := e.counter()
		none := total == 0 && (!has || (v0ok && v == v0))
		running, live := false, e.live()
		if p := eGuard(e.c, "IsHeartbeatRunning", func() { running = e.mgr().IsHeartbeatRunning() }); p != "" {
			e.c.Violate("call-panics/isrunning", "IsHeartbeatRunning panicked: %s", p)
			return
		}
		onTime := e.samplerOnTime(from, time.Now())
		switch {
		case none && running && live == 0 && onTime:
			e.c.Events(1)
			e.c.Violate(op+"/running-without-a-stream", "after %s returned (seq %d) IsHeartbeatRunning() = true, but no stream goroutine is alive (hook gauge: every stream that entered has left) and no refresh became visible within %s: the data of a running heartbeat is not refreshed\n history: %s", op, s, limit, e.history())
		case none && running && onTime:
			e.c.Events(1)
			e.c.Violate(op+"/no-refresh-while-running", "after %s returned (seq %d) IsHeartbeatRunning() = true and %d stream goroutines are alive, but no refresh became visible within %s (announced timeout about %s) although the harness's own timer was on time\n history: %s", op, s, live, limit, e.timeout, e.history())
		default:
			e.c.Inconclusive("after %s the heartbeat should run but fewer than %d refreshes were observed within %s (IsHeartbeatRunning=%v, live streams %d, harness timer on time: %v; history: %s)", op, k, limit, running, live, onTime, e.history())
		}
		return
	}
	byG, total := e.after(s)
	ticking := 0
	for _, n := range byG {
		if n >= 2 {
			ticking++
		}
	}
	live := e.live()
	e.c.Events(int64(total) + 1)
	e.note("checkpoint running after %s (seq %d): %d notifies by %d goroutines, live streams %d", op, s, total, len(byG), live)
	switch {
	case live >= 2 && ticking >= 2:
		e.c.Violate(op+"/two-concurrent-streams", "after %s returned (seq %d) %d stream goroutines are alive and %d of them keep refreshing (notifies per goroutine %v)\n history: %s", op, s, live, ticking, byG, e.history())
	case live >= 2 && subscribed:
		// give a stopped stream time to leave its select, then look again
		if !rig.WaitFor(5*time.Second+3*e.period, func() bool { return e.live() < 2 }) {
			byG, _ = e.after(s)
			ticking = 0
			for _, n := range byG {
				if n >= 2 {
					ticking++
				}
			}
			if ticking >= 2 {
				e.c.Violate(op+"/two-concurrent-streams", "after %s returned (seq %d) %d stream goroutines stay alive and %d of them keep refreshing (notifies per goroutine %v)\n history: %s", op, s, e.live(), ticking, byG, e.history())
			} else {
				e.undecided++
				e.c.Inconclusive("after %s the stream gauge stays at %d but only one stream is seen refreshing", op, e.live())
			}
			return
		}
	}
	e.runningCP++
	e.twinIntact(op, s)
}

// checkpointStopped: all calls have returned (Seq s), the last one was Stop or RemoveEntity.
func (e *c16Env) checkpointStopped(op string, s int64, v0 uint64, v0ok bool, extra time.Duration) {
	// "the data then stays unchanged" is judged on the whole heartbeat data (counter, timestamp, timeout): d0 right
	// after the call returned, dA after two periods of silence, dB after the third
	d0 := e.dataJSON()
	time.Sleep(2*e.period + extra) // three periods of silence: waiting on the stack's own ticker
	dA := e.dataJSON()
	vA, vAok := e.counter()
	time.Sleep(e.period)
	gaugeOK := rig.WaitFor(10*time.Second, func() bool { return e.live() == 0 })
	dB := e.dataJSON()
	vB, vBok := e.counter()
	e.c.Events(1)
	switch {
	case vAok && vBok && vA == vB && dA != dB:
		e.c.Violate(op+"/data-changed-after-return", "after %s returned (seq %d) the heartbeat data was rewritten with the same counter: after two periods of silence it read %s, one period later %s\n history: %s", op, s, dA, dB, e.history())
	case v0ok && vBok && v0 == vB && d0 != dB:
		e.c.Violate(op+"/data-changed-after-return", "the heartbeat data read %s right after %s returned (seq %d) and reads %s three periods later: same counter, different content\n history: %s", d0, op, s, dB, e.history())
	case vAok != vBok || (v0ok && !vBok):
		e.c.Violate(op+"/data-changed-after-return", "the heartbeat data was %s right after %s returned (seq %d), %s two periods later and %s after the third: it did not stay unchanged\n history: %s", d0, op, s, dA, dB, e.history())
	}
	p, detail := e.provableAfter(s)
	_, total := e.after(s)
	dc := 0
	if v, ok := e.counter(); ok && v0ok && v > v0+1 {
		dc = int(v - v0 - 1) // the first refresh after the sample may have been in flight
		if dc > p {
			detail = append(detail, fmt.Sprintf("heartbeat counter in DataCopy was %d right after the call returned and is %d now", v0, v))
			p = dc
		}
	}
	e.c.Events(int64(total) + 2)
	e.note("checkpoint stopped after %s (seq %d): %d notifies entered the writer afterwards, %d refreshes provably started afterwards, live streams %d", op, s, total, p, e.live())
	if v, ok := e.counter(); v0ok && (!ok || v < v0) {
		e.c.Violate(op+"/data-changed-after-return", "the heartbeat data had counter %d right after %s returned and now reads counter %d (present: %v): it did not stay unchanged\n history: %s", v0, op, v, ok, e.history())
	}
	switch {
	case p == 1:
		e.c.Violate(op+"/one-refresh-started-after-return", "after %s returned (seq %d) one refresh was started and completed that was not in flight at the return:\n %s\n history: %s", op, s, strings.Join(detail, "\n "), e.history())
	case p >= 2:
		e.c.Violate(op+"/refreshes-continue-after-return", "after %s returned (seq %d) %d refreshes were started and completed:\n %s\n history: %s", op, s, p, strings.Join(detail, "\n "), e.history())
	case !gaugeOK:
		e.undecided++
		e.c.Inconclusive("after %s a stream goroutine is still alive after three periods + 10s but no refresh was observed from it", op)
		return
	}
	e.stoppedCP++
	e.twinIntact(op, s)
}

// finish judges the oracles that look at the whole case: (1) monotone counters and timestamps,
// (2) period <= announced timeout, (3) sampled refreshes were notified.
func (e *c16Env) finish() {
	c := e.c
	ns := e.mine()
	// until a notify shows the announced timeout: what the function data announces (parsed by the check itself),
	// else the configured value
	announced := e.timeout
	if v, ok := e.dd.DataCopy(model.FunctionTypeDeviceDiagnosisHeartbeatData).(*model.DeviceDiagnosisHeartbeatDataType); ok && v != nil && v.HeartbeatTimeout != nil {
		if d, ok := c16ParseDuration(string(*v.HeartbeatTimeout)); ok && d > 0 {
			announced = d
		}
	}
	e.judgeAddressing()
	e.judgeTwin()
	e.judgeLate()
	e.judgeCompletionOrder("entity [1] / observed subscriber", ns)
	if e.tw != nil {
		e.judgeCompletionOrder("second entity / observed subscriber", e.of(e.tw.src))
	}
	if e.late != nil {
		e.judgeCompletionOrder("entity [1] / subscriber that subscribed later", e.late.tap.notifies())
	}
	var prev *c16Notify
	lastAtByG := map[int64]time.Time{}
	lastDoneByG := map[int64]c16Notify{}
	e.mu.Lock()
	tsLags := append([]c16Lag(nil), e.lags...)
	e.mu.Unlock()
	for i := range ns {
		n := ns[i]
		c.Events(1)
		if n.HasTO {
			announced = n.Timeout
		}
		if n.HasCtr && n.HasTS && !n.HasTO && n.RawTO != "" {
			c.Inconclusive("the announced heartbeat timeout %q is not of the form PnDTnHnMnS: cannot be judged", n.RawTO)
			continue
		}
		if !n.HasCtr || !n.HasTS || !n.HasTO {
			c.Violate("notify/incomplete-heartbeat-data", "heartbeat notify %d lacks counter, timestamp or timeout: %+v", i, n)
			continue
		}
		// the refresh is stored before it is notified: while the notify was inside the writer the function data showed
		// at least its counter (causal: read by the writer itself)
		if n.DataKnown {
			c.Events(1)
			c.Count("notifies_compared_with_the_function_data_inside_the_writer", 1)
			if !n.DataHas || n.DataCtr < n.Counter {
				c.Violate("refresh/notified-but-not-stored", "the notify with heartbeat counter %d was being written to the subscriber (seq %d) while DataCopy of the same feature showed counter %d (present: %v): the notified refresh is not in the function data\n history: %s", n.Counter, n.Seq, n.DataCtr, n.DataHas, e.history())
			}
		}
		if prev != nil {
			if n.Counter <= prev.Counter {
				c.Violate("counter/not-strictly-increasing", "notify at seq %d carries counter %d after counter %d at seq %d\n history: %s", n.Seq, n.Counter, prev.Counter, prev.Seq, e.history())
			}
			if n.TS.Before(prev.TS) {
				c.Violate("timestamp/decreasing", "notify at seq %d carries timestamp %s after %s", n.Seq, n.TS.Format(time.RFC3339), prev.TS.Format(time.RFC3339))
			}
		}
		// "current": read after the previous notify of this stream was received and before this one was
		lo := e.start
		if t, ok := lastAtByG[n.Goid]; ok {
			lo = t
		}
		if n.TS.Before(lo.Add(-1500*time.Millisecond)) || n.TS.After(n.At.Add(1500*time.Millisecond)) {
			c.Violate("timestamp/not-current", "notify counter=%d carries timestamp %s; it was produced between %s and %s (harness clock)", n.Counter, n.TS.Format(time.RFC3339), lo.UTC().Format(time.RFC3339Nano), n.At.UTC().Format(time.RFC3339Nano))
		}
		// "current" also after a notification that was held up by the subscriber's connection: a stream builds
		// refresh k+1 only after the write of notification k has returned (same goroutine), so the clock reading in
		// refresh k+1 is not older than the harness clock reading taken at the end of that write. The stack rounds
		// the timestamp to whole seconds (0.5 s); on top of that 1 s tolerance. One-sided and causal: any delay of
		// the stack or of the harness makes the timestamp later, never earlier. Not judged if the harness's own
		// sampler was more than 500 ms late around that moment (stopped process, clock step).
		if pd, ok := lastDoneByG[n.Goid]; ok && !pd.DoneAt.IsZero() {
			late := time.Duration(0)
			for _, l := range tsLags {
				if l.At.After(pd.DoneAt.Add(-time.Second)) && l.At.Before(n.At.Add(time.Second)) && l.Late > late {
					late = l.Late
				}
			}
			switch {
			case late > 500*time.Millisecond:
				c.Count("timestamps_not_judged_against_the_previous_write(sampler late)", 1)
			default:
				c.Events(1)
				c.Count("timestamps_judged_against_the_end_of_the_previous_write", 1)
				if pd.Held > 0 {
					c.Count("timestamps_judged_after_a_blocked_write", 1)
				}
				if n.TS.Before(pd.DoneAt.Add(-1500 * time.Millisecond)) {
					c.Violate("timestamp/older-than-the-end-of-the-previous-notification", "notify counter=%d carries timestamp %s, but the write of the previous notification of this stream (counter=%d, held by the subscriber's connection for %s) was complete at %s (harness clock) and this refresh was built after that: the timestamp is %s older than that moment (allowed: 0.5 s rounding + 1 s tolerance); worst lateness of the harness's sampler around it: %s",
						n.Counter, n.TS.Format(time.RFC3339), pd.Counter, pd.Held, pd.DoneAt.UTC().Format(time.RFC3339Nano), pd.DoneAt.Sub(n.TS).Round(time.Millisecond), late)
				}
			}
		}
		lastDoneByG[n.Goid] = n
		lastAtByG[n.Goid] = n.At
		prev = &ns[i]
	}
	e.mu.Lock()
	periods := append([]time.Duration(nil), e.periods...)
	samples := append([]c16Sample(nil), e.samples...)
	removeCall := e.removeCall
	e.mu.Unlock()
	periodOK := true
	for _, p := range periods {
		c.Events(1)
		c.Seen("timeout->period", fmt.Sprintf("%s->%s", announced, p))
		if p > announced || p <= 0 {
			periodOK = false
			c.Violate("period/exceeds-announced-timeout", "a heartbeat stream chose the ticker period %s, the announced heartbeat timeout is %s", p, announced)
		}
	}
	// sanity cross-check on the median gap of uninterrupted runs of one stream
	callSeqs := []int64{}
	e.mu.Lock()
	for _, cl := range e.calls {
		callSeqs = append(callSeqs, cl.Call)
	}
	callSeqs = append(callSeqs, e.marks...) // a change of the connection's speed ends a run like a call does
	e.mu.Unlock()
	var gaps []time.Duration
	for i := 1; i < len(ns); i++ {
		if ns[i].Goid != ns[i-1].Goid {
			continue
		}
		interrupted := false
		for _, s := range callSeqs {
			if s > ns[i-1].Seq && s < ns[i].Seq {
				interrupted = true
			}
		}
		if !interrupted {
			gaps = append(gaps, ns[i].At.Sub(ns[i-1].At))
		}
	}
	// effective period: a run of >= 7 notifies of one stream with no call in between, EVERY gap of which
	// exceeds the bound although the harness's own timer was never late by 100ms in that window
	e.mu.Lock()
	lags := append([]c16Lag(nil), e.lags...)
	iv := e.sampleIv
	e.mu.Unlock()
	looseBound := announced*14/10 + 300*time.Millisecond
	for i := 0; i < len(ns) && !e.noGapOracle; {
		j := i
		minGap := time.Duration(1 << 62)
		// steady slow connection (slowRun): the least time the connection took for a notification that precedes a gap
		// of this run (0: at least one of them was not slowed down)
		minHeld := time.Duration(1 << 62)
		for j+1 < len(ns) && ns[j+1].Goid == ns[i].Goid {
			interrupted := false
			for _, s := range callSeqs {
				if s > ns[j].Seq && s < ns[j+1].Seq {
					interrupted = true
				}
			}
			if interrupted {
				break
			}
			if g := ns[j+1].At.Sub(ns[j].At); g < minGap {
				minGap = g
			}
			if h := ns[j].Held; ns[j].Share <= 0 {
				minHeld = 0
			} else if h < minHeld {
				minHeld = h
			}
			j++
		}
		// The bound: the ticker of a stream keeps its schedule whatever the refresh itself costs, so with a connection
		// that takes h < period per notification the gaps stay around the period (a late refresh is followed by a
		// short gap); a period that begins anew when the notification is through shows period + h in every gap. With a
		// slowed-down connection the bound lies in the middle, announced + h/2, and the starvation guard is tighter
		// (a quarter of the announced timeout, at most 50 ms); otherwise the loose bound of 1.4 x announced + 300 ms.
		bound, tol, slow := looseBound, 50*time.Millisecond, false
		if j-i >= 6 && minHeld > 0 && announced <= 2*time.Second {
			bound, slow = announced+minHeld/2, true
			if announced/4 < tol {
				tol = announced / 4
			}
		}
		if j-i >= 6 {
			c.Events(1)
			c.Count("effective_period_runs_judged", 1)
			if slow {
				c.Count("effective_period_runs_judged_with_a_slow_subscriber", 1)
				c.Seen("slow-subscriber-runs", fmt.Sprintf("timeout %s, %d%% per notification", announced, ns[i].Share))
			}
			if minGap > bound {
				// starvation guard: the harness's own sampler timer runs in the same scheduler as the stream
				// goroutine; if at least 90% of its wake-ups in the window were on time, the process got the
				// CPU regularly and a true period within the timeout cannot have produced ONLY long gaps
				var worst time.Duration
				n, late := 0, 0
				for _, l := range lags {
					if l.At.After(ns[i].At) && l.At.Before(ns[j].At) {
						n++
						if l.Late > tol {
							late++
						}
						if l.Late > worst {
							worst = l.Late
						}
					}
				}
				window := ns[j].At.Sub(ns[i].At)
				if iv > 0 && n >= int(window/iv)/2 && late*10 <= n {
					how := ""
					if slow {
						how = fmt.Sprintf("; the subscriber's connection took %s (%d%% of the announced timeout, less than the period) for each of these notifications: the refresh period depends on how long the subscribers take", minHeld, ns[i].Share)
					}
					c.Violate("period/effective-gaps-exceed-announced-timeout", "%d consecutive refreshes of one stream, no call in between: every gap >= %s, announced timeout %s (bound %s)%s; the harness's own %s timer woke up %d times in that window, %d of them more than %s late (worst %s), so the process was not starved\n hook period records: %v", j-i+1, minGap, announced, bound, how, iv, n, late, tol, worst, periods)
				} else if periodOK || slow {
					c.Inconclusive("every gap of %d consecutive refreshes >= %s (timeout %s) but %d of the %d wake-ups of the harness's own %s timer were more than %s late (worst %s): starved machine?", j-i+1, minGap, announced, late, n, iv, tol, worst)
				}
			}
		}
		if j == i {
			j++
		}
		i = j
	}
	if len(gaps) >= 6 {
		sort.Slice(gaps, func(i, j int) bool { return gaps[i] < gaps[j] })
		med := gaps[len(gaps)/2]
		c.Count("median_gap_checked", 1)
		if periodOK && med > looseBound {
			c.Inconclusive("sanity: median gap between notifies %s exceeds timeout %s x 1.4 + 300ms although every hook period record is within the timeout (loaded machine?)", med, announced)
		}
	}
	// (3) sampled refreshes appear as notifies (only while the subscription existed)
	notified := map[uint64]bool{}
	for _, n := range ns {
		notified[n.Counter] = true
	}
	if e.live() == 0 && e.hasPeer {
		// the last value sampled before RemoveEntity may belong to a refresh whose notification was
		// overtaken by the removal of the subscriptions: only values followed by a later one are judged
		var maxBefore uint64
		for _, s := range samples {
			if (removeCall == 0 || s.Seq < removeCall) && s.Ctr > maxBefore {
				maxBefore = s.Ctr
			}
		}
		for _, s := range samples {
			if removeCall != 0 && (s.Seq > removeCall || s.Ctr >= maxBefore) {
				continue
			}
			c.Events(1)
			if !notified[s.Ctr] {
				c.Violate("refresh/not-notified", "DataCopy showed heartbeat counter %d at seq %d while the peer was subscribed, but no notify carried it (notified: %d values)\n history: %s", s.Ctr, s.Seq, len(notified), e.history())
			}
		}
	}
	c.Count("heartbeat_notifies", int64(len(ns)))
	c.Count("datacopy_refreshes_sampled", int64(len(samples)))
	e.mu.Lock()
	c.Count("stream_goroutines", int64(len(e.streams)))
	nMgr := len(e.managers)
	e.mu.Unlock()
	if e.perCall {
		c.Count("cases_reaching_the_manager_through_the_entity_at_every_call", 1)
	}
	if nMgr > 1 {
		// only counted: the statement speaks of the entity's heartbeat, not of objects; what such streams do is judged
		// by the checkpoints (they are streams of entity [1])
		c.Count("cases_in_which_several_manager_objects_ran_streams_of_entity_1", 1)
	}
	if e.lost {
		c.Count("cases_cut_short_because_refreshes_were_not_notified", 1)
	}
	c.Count("checkpoints_running", int64(e.runningCP))
	c.Count("checkpoints_stopped", int64(e.stoppedCP))
	if c.Failed() {
		c.Witness(e.sample())
	}
}

// bailLost ends a case whose first running checkpoint found refreshes that were not notified: the entity is
// removed, the streams end, finish() judges oracle (3).
func (e *c16Env) bailLost(shape string) {
	e.call("remove", "main")
	s := rig.Seq()
	v0, v0ok := e.counter()
	e.checkpointStopped("remove", s, v0, v0ok, 0)
	e.finish()
	e.c.Shape(shape)
	e.c.NonTrivial(false)
	e.c.Sample(e.sample())
}

func (e *c16Env) sample() map[string]any {
	e.mu.Lock()
	tr := append([]string(nil), e.trace...)
	var ps []string
	for _, p := range e.periods {
		ps = append(ps, p.String())
	}
	e.mu.Unlock()
	var hb []string
	for i, n := range e.mine() {
		if i >= 40 {
			hb = append(hb, "…")
			break
		}
		hb = append(hb, fmt.Sprintf("seq %d-%d g%d counter=%d ts=%s timeout=%s", n.Seq, n.Done, n.Goid, n.Counter, n.TS.Format("15:04:05"), n.Timeout))
	}
	m := map[string]any{"timeout": e.timeout.String(), "mute_first_subscriber": e.mute != nil, "observed_subscriber": e.hasPeer, "history": e.history(), "periods_chosen": ps, "checkpoints": tr, "notifies": hb}
	if tw := e.tw; tw != nil {
		e.mu.Lock()
		m["second_entity"] = map[string]any{"address": rkEnt(tw.dd.Address().Entity), "timeout": tw.timeout.String(), "notifies": len(e.of(tw.src)), "stream_goroutines": len(tw.streams), "intact_checks_passed": tw.judged}
		e.mu.Unlock()
	}
	if l := e.late; l != nil {
		m["late_subscriber"] = map[string]any{"subscribed_at_seq": l.subRet, "notifies": len(l.tap.notifies())}
	}
	return m
}

// judgeAddressing: every heartbeat notify on the observed peer's writer comes from the DeviceDiagnosis feature of
// entity [1] or of the second entity and goes to the client feature that subscribed to exactly that feature; a notify
// written by a stream goroutine (known from the hook: which manager it belongs to) carries that entity's address.
func (e *c16Env) judgeAddressing() {
	c := e.c
	e.mu.Lock()
	owner := map[int64]string{}
	for g := range e.streams {
		owner[g] = e.srcA
	}
	if e.tw != nil {
		for g := range e.tw.streams {
			owner[g] = e.tw.src
		}
	}
	e.mu.Unlock()
	for _, n := range e.tap.notifies() {
		c.Events(1)
		want := ""
		switch {
		case n.Src == e.srcA:
			want = e.dstA
		case e.tw != nil && n.Src == e.tw.src:
			want = e.tw.dst
		default:
			c.Violate("notify/wrong-source-address", "a heartbeat notify (counter %d, seq %d) carries addressSource %s; the subscribed DeviceDiagnosis features of this case are %s%s", n.Counter, n.Seq, n.Src, e.srcA, e.twinSrc())
			continue
		}
		if n.Dst != want {
			c.Violate("notify/wrong-destination-address", "the heartbeat notify of %s (counter %d, seq %d) is addressed to %s; the client feature subscribed to that feature is %s", n.Src, n.Counter, n.Seq, n.Dst, want)
		}
		if o, ok := owner[n.Goid]; ok && o != n.Src {
			c.Violate("notify/stream-of-one-entity-refreshes-another", "the stream goroutine g%d belongs to the heartbeat manager of %s (hook record), but the heartbeat notify it wrote at seq %d (counter %d) carries addressSource %s\n history: %s", n.Goid, o, n.Seq, n.Counter, n.Src, e.history())
		}
	}
	if l := e.late; l != nil {
		for _, n := range l.tap.notifies() {
			c.Events(1)
			if n.Src != e.srcA {
				c.Violate("notify/wrong-source-address", "the late subscriber, subscribed to %s only, received a heartbeat notify (counter %d) with addressSource %s", e.srcA, n.Counter, n.Src)
			} else if n.Dst != l.dst {
				c.Violate("notify/wrong-destination-address", "the heartbeat notify of %s (counter %d) to the late subscriber is addressed to %s, its subscribed client feature is %s", n.Src, n.Counter, n.Dst, l.dst)
			}
		}
	}
}

func (e *c16Env) twinSrc() string {
	if e.tw == nil {
		return ""
	}
	return " and " + e.tw.src
}

// judgeTwin: the second entity's own stream: strictly increasing counters, timestamps that never decrease, complete data
// stored before it is notified, ticker periods within ITS announced timeout.
func (e *c16Env) judgeTwin() {
	tw := e.tw
	if tw == nil {
		return
	}
	c := e.c
	ent := rkEnt(tw.dd.Address().Entity)
	ns := e.of(tw.src)
	announced := tw.timeout
	var prev *c16Notify
	for i := range ns {
		n := ns[i]
		c.Events(1)
		if !n.HasCtr || !n.HasTS || !n.HasTO {
			if n.RawTO == "" || n.HasTO {
				c.Violate("notify/incomplete-heartbeat-data", "heartbeat notify %d of entity %s lacks counter, timestamp or timeout: %+v", i, ent, n)
			}
			continue
		}
		announced = n.Timeout
		if prev != nil {
			if n.Counter <= prev.Counter {
				c.Violate("second-entity/counter-not-strictly-increasing", "entity %s: notify at seq %d carries counter %d after counter %d at seq %d (no call was ever made for this entity after its AddFunctionType)\n history of entity [1]: %s", ent, n.Seq, n.Counter, prev.Counter, prev.Seq, e.history())
			}
			if n.TS.Before(prev.TS) {
				c.Violate("second-entity/timestamp-decreasing", "entity %s: notify at seq %d carries timestamp %s after %s", ent, n.Seq, n.TS.Format(time.RFC3339), prev.TS.Format(time.RFC3339))
			}
		}
		if n.TS.Before(e.start.Add(-1500*time.Millisecond)) || n.TS.After(n.At.Add(1500*time.Millisecond)) {
			c.Violate("second-entity/timestamp-not-current", "entity %s: notify counter=%d carries timestamp %s; the case started at %s and the notify was received at %s (harness clock)", ent, n.Counter, n.TS.Format(time.RFC3339), e.start.UTC().Format(time.RFC3339Nano), n.At.UTC().Format(time.RFC3339Nano))
		}
		if n.DataKnown && (!n.DataHas || n.DataCtr < n.Counter) {
			c.Violate("refresh/notified-but-not-stored", "entity %s: the notify with heartbeat counter %d was being written to the subscriber while DataCopy of the same feature showed counter %d (present: %v)", ent, n.Counter, n.DataCtr, n.DataHas)
		}
		prev = &ns[i]
	}
	e.mu.Lock()
	periods := append([]time.Duration(nil), tw.periods...)
	nStreams := len(tw.streams)
	judged := tw.judged
	e.mu.Unlock()
	for _, p := range periods {
		c.Events(1)
		c.Seen("timeout->period", fmt.Sprintf("%s->%s", announced, p))
		if p > announced || p <= 0 {
			c.Violate("period/exceeds-announced-timeout", "the heartbeat stream of entity %s chose the ticker period %s, its announced heartbeat timeout is %s", ent, p, announced)
		}
	}
	if nStreams > 1 {
		c.Violate("second-entity/more-than-one-stream", "entity %s had %d stream goroutines although only its AddFunctionType(heartbeat) was ever called for it\n history of entity [1]: %s", ent, nStreams, e.history())
	}
	c.Count("second_entity_notifies", int64(len(ns)))
	c.Count("second_entity_intact_after_a_checkpoint_of_entity_1", int64(judged))
}

// judgeCompletionOrder: "carrying a strictly increasing counter ... notified to the subscribers", as the subscriber gets
// it: the order in which the writes of the notifications to ONE connection are COMPLETE (rig.Seq when the writer is about
// to return), not only the order in which they were handed to it. A notification whose write is complete after that of a
// notification with a higher counter of the same feature reached the subscriber after it: the counters it receives are
// not increasing. That takes two writes of one entity's heartbeat that overlap on the connection (logged: the later one
// entered before the earlier one had returned) - a refresh still in flight inside a slow connection while another
// goroutine (a restarted stream, an AddFunctionType) already refreshes and notifies: two streams feed the subscriber at
// the same time. Decided on logged order only; overlapping writes as such are only counted.
func (e *c16Env) judgeCompletionOrder(who string, ns []c16Notify) {
	c := e.c
	byDone := append([]c16Notify(nil), ns...)
	sort.SliceStable(byDone, func(i, j int) bool { return byDone[i].Done < byDone[j].Done })
	for i := 1; i < len(ns); i++ { // ns is in order of entry into the writer
		if ns[i].Seq < ns[i-1].Done {
			c.Count("notification_writes_overlapping_on_one_connection", 1)
		}
	}
	var hi *c16Notify // the highest counter among the writes completed so far
	for i := range byDone {
		n := &byDone[i]
		if !n.HasCtr {
			continue
		}
		c.Events(1)
		if hi != nil && n.Counter < hi.Counter {
			c.Violate("counter/not-strictly-increasing-in-order-of-completion", "%s: the write of the heartbeat notify with counter %d (g%d, in the writer seq %d-%d, held by the connection for %s) was complete AFTER the write of the notify with counter %d (g%d, seq %d-%d) was: the subscriber gets %d after %d; the two writes overlapped on the connection, i.e. two goroutines refreshed and notified this heartbeat at the same time\n history: %s",
				who, n.Counter, n.Goid, n.Seq, n.Done, n.Held, hi.Counter, hi.Goid, hi.Seq, hi.Done, n.Counter, hi.Counter, e.history())
			return
		}
		if hi == nil || n.Counter > hi.Counter {
			hi = n
		}
	}
	c.Count("notification_sequences_judged_in_order_of_completion", 1)
}

// judgeLate: the peer that subscribed while the heartbeat was running receives every later refresh. A refresh is
// provably later if it was built after the subscription request had returned: it follows, on the same stream
// goroutine, a notify whose write to the first subscriber was complete after that moment, or its stream goroutine
// started after it. Judged up to the first RemoveEntity call (what a removal does to the subscriptions of remote
// peers is not decided by the statement).
func (e *c16Env) judgeLate() {
	l := e.late
	if l == nil {
		return
	}
	c := e.c
	e.mu.Lock()
	subRet, removeCall := l.subRet, e.removeCall
	enter := map[int64]int64{}
	for g, st := range e.streams {
		enter[g] = st.Enter
	}
	e.mu.Unlock()
	if subRet == 0 || e.live() != 0 {
		return
	}
	got := map[uint64]bool{}
	for _, n := range l.tap.notifies() {
		if n.HasCtr {
			got[n.Counter] = true
		}
		if n.Seq < l.subCall {
			c.Violate("late-subscriber/notified-before-it-subscribed", "the second peer received the heartbeat notify with counter %d at seq %d, it asked for the subscription at seq %d", n.Counter, n.Seq, l.subCall)
		}
	}
	lastDone := map[int64]int64{}
	judged := 0
	for _, n := range e.mine() {
		d, ok := lastDone[n.Goid]
		later := (ok && d > subRet) || (enter[n.Goid] > subRet)
		lastDone[n.Goid] = n.Done
		if !later || !n.HasCtr || (removeCall != 0 && n.Done > removeCall) {
			continue
		}
		judged++
		c.Events(1)
		if !got[n.Counter] {
			c.Violate("late-subscriber/refresh-not-notified", "the refresh with heartbeat counter %d (written to the first subscriber at seq %d-%d by g%d) was built after the second peer's subscription had returned (seq %d), but that peer never received it (%d notifies reached it)\n history: %s", n.Counter, n.Seq, n.Done, n.Goid, subRet, len(got), e.history())
		}
	}
	c.Count("refreshes_judged_for_the_late_subscriber", int64(judged))
}

// ---------------------------------------------------------------------------
// seq

// c16SeqFlavors: rows of five cases (one per timeout). Four rows of generated histories, one row of history (a)
// "restart-after-remove" (AddEntity, add, RemoveEntity, StartHeartbeat, RemoveEntity again: the second removal meets
// an entity that is no longer in the device's list) and one row of history (b) "never-added" (NewEntityLocal, add -
// which starts the heartbeat -, RemoveEntity without any AddEntity).
var c16SeqFlavors = []string{"generated", "generated", "generated", "generated", "restart-after-remove", "never-added"}

func c16Seq(c *rig.Ctx) {
	r := c.Rand
	timeout := c16Timeouts[c.Index%len(c16Timeouts)]
	flavor := c16SeqFlavors[(c.Index/len(c16Timeouts))%len(c16SeqFlavors)]
	row := c.Index / len(c16Timeouts)
	opt := c16Opt{peer: flavor != "never-added", mute: c.Index%2 == 1, unadded: flavor == "never-added"}
	// a second entity with its own heartbeat in two of three cases ([2] and nested [1,1] in turn, shifted row by row
	// so that every timeout meets every kind); a peer that subscribes later in every second generated history
	switch (c.Index + row) % 3 {
	case 1:
		opt.twin = []uint{2}
	case 2:
		opt.twin = []uint{1, 1}
	}
	opt.twinTimeout = c16TwinTimeouts[(c.Index/3+row)%len(c16TwinTimeouts)]
	opt.late = flavor == "generated" && (c.Index+row)%2 == 0
	// in every second of these cases the peer that subscribes later announces the device address of the observed peer:
	// two subscribers (two connections, two SKIs) whose client feature addresses are identical
	opt.lateClone = opt.late && ((c.Index+row)/2)%2 == 0
	// every second row reaches the heartbeat manager through the entity at every call instead of keeping it
	opt.perCall = row%2 == 1
	e := newC16EnvOpt(c, timeout, opt)
	defer e.close()
	e.startSampler()
	twinFirst := r.Intn(2) == 0
	added, running, removed := false, false, false
	decider := "" // the call that decided the current running state
	var shape []string
	do := func(op string) {
		res := e.call(op, "main")
		shape = append(shape, op)
		switch op {
		case "add":
			if !added {
				added, running, decider = true, true, "add"
			}
		case "start":
			running, decider = true, "start"
		case "stop":
			running, decider = false, "stop"
		case "remove":
			running, removed, decider = false, true, "remove"
		case "isrunning":
			c.Events(1)
			if res != fmt.Sprint(running) && res != "panic" {
				c.Violate("isrunning/disagrees-with-last-call", "IsHeartbeatRunning() = %s, the calls so far say %v\n history: %s", res, running, e.history())
			}
		}
	}
	checkpoint := func(op string) {
		s := rig.Seq()
		v0, v0ok := e.counter()
		k := 3
		if e.period >= time.Second {
			k = 2
		}
		shape = append(shape, "|")
		if running {
			e.checkpointRunning(op, s, v0, v0ok, e.hasPeer && !removed, k)
		} else if added {
			e.checkpointStopped(op, s, v0, v0ok, 0)
		}
	}
	goOn := func() bool { return !c.Failed() && !e.lost }
	// before the function exists only Stop and IsRunning are generated (Start there: part nofeature)
	if r.Intn(2) == 0 {
		for n := 1 + r.Intn(3); n > 0; n-- {
			do([]string{"stop", "isrunning"}[r.Intn(2)])
		}
	}
	// the second entity's heartbeat starts before or after that of entity [1]
	if twinFirst {
		e.twinAdd()
	}
	do("add")
	if !twinFirst {
		e.twinAdd()
	}
	switch flavor {
	case "restart-after-remove":
		// the long periods judge only the second half (restart, second removal) in the quick tier
		full := e.period < 2*time.Second || c.Thorough()
		if full {
			checkpoint("add")
		}
		for n := r.Intn(3); n > 0 && goOn(); n-- {
			do([]string{"isrunning", "stop", "start", "start"}[r.Intn(4)])
		}
		if goOn() {
			do("remove") // the entity is in the device's list: the ordinary removal
			if r.Intn(3) == 0 {
				do("isrunning")
			}
			if full {
				checkpoint("remove")
			}
		}
		if goOn() {
			do("start") // the heartbeat runs again, on an entity that is not part of the device any more
			if r.Intn(3) == 0 {
				do("isrunning")
			}
			checkpoint("start-after-remove")
		}
		if goOn() {
			do("remove") // ... and this removal must stop it as well
			if r.Intn(2) == 0 {
				do("isrunning")
			}
			checkpoint("remove-after-remove")
			c.Count("removals_of_an_entity_not_in_the_device_judged", 1)
		}
	case "never-added":
		checkpoint("add") // AddFunctionType started the heartbeat although the entity was never added
		for n := r.Intn(3); n > 0 && goOn(); n-- {
			do([]string{"isrunning", "stop", "start", "start"}[r.Intn(4)])
		}
		if goOn() && !running {
			do("start")
		}
		if goOn() {
			do("remove")
			if r.Intn(2) == 0 {
				do("isrunning")
			}
			checkpoint("remove-never-added")
			c.Count("removals_of_an_entity_not_in_the_device_judged", 1)
		}
		if goOn() && (e.period < time.Second || c.Thorough()) && r.Intn(2) == 0 {
			do("start")
			checkpoint("start-after-remove")
			if goOn() {
				do("remove")
				checkpoint("remove-never-added")
				c.Count("removals_of_an_entity_not_in_the_device_judged", 1)
			}
		}
	default:
		if e.period <= 300*time.Millisecond || (c.Thorough() && row%4 == 0) {
			// a long uninterrupted run for the effective-period oracle (thorough: also for the long periods)
			s := rig.Seq()
			v0, v0ok := e.counter()
			shape = append(shape, "|")
			e.checkpointRunning("add", s, v0, v0ok, true, 8)
			// ... and a second one during which the subscriber's connection takes 40-60% of the period per heartbeat
			// notification (timeouts up to 2 s: period = announced timeout; quick: 100-300 ms, thorough up to 1.25 s)
			if goOn() && e.timeout <= 1250*time.Millisecond {
				share := int64(40 + 10*r.Intn(3))
				shape = append(shape, fmt.Sprintf("slow-subscriber(%d%%)|", share))
				e.slowRun("add", share, 8)
			}
		} else {
			checkpoint("add")
		}
		if e.late != nil && goOn() {
			// a second healthy peer subscribes while the heartbeat runs and no call is in progress; for the short
			// periods a running checkpoint follows at once, otherwise the refreshes of the bursts below are judged
			e.lateSubscribe()
			shape = append(shape, "late-subscribe")
			if e.period <= 500*time.Millisecond || c.Thorough() {
				checkpoint("late-subscribe")
			}
		}
		bursts := 3
		switch {
		case e.period >= 2*time.Second:
			bursts = c.Pick(0, 2)
		case e.period >= time.Second:
			bursts = c.Pick(1, 3)
		case e.period >= 500*time.Millisecond:
			bursts = c.Pick(2, 4)
		default:
			bursts = c.Pick(3, 5) + r.Intn(2)
		}
		for b := 0; b < bursts && goOn(); b++ {
			for n := 1 + r.Intn(4); n > 0; n-- {
				x := r.Intn(100)
				op := "stop"
				switch {
				case x < 36:
					op = "start"
				case x < 66:
					op = "stop"
				case x < 86:
					op = "isrunning"
				case x < 91:
					op = "add"
				case b >= bursts-2 && (!removed || x < 95):
					op = "remove" // also a second time, after the heartbeat was restarted on the removed entity
				}
				do(op)
			}
			checkpoint(decider)
		}
		if !c.Failed() {
			if !removed {
				do("remove")
				checkpoint("remove")
			} else if running {
				op := []string{"stop", "remove"}[r.Intn(2)]
				do(op)
				checkpoint(op)
			}
		}
	}
	if e.lost && running && !c.Failed() {
		do("remove") // the streams must have ended before oracle (3) is judged
		checkpoint("remove")
	}
	e.finish()
	c.Shape(fmt.Sprintf("%s %s mute=%v twin=%v %s", timeout, flavor, e.mute != nil, opt.twin, strings.Join(shape, " ")))
	c.NonTrivial(e.runningCP > 0 && e.stoppedCP > 0 && e.undecided == 0)
	c.Seen("timeouts", timeout.String())
	c.Count("seq_histories:"+flavor, 1)
	sm := e.sample()
	sm["flavor"] = flavor
	c.Sample(sm)
}

// ---------------------------------------------------------------------------
// conc

// contended executes one Start/Stop/RemoveEntity call while n goroutines query IsHeartbeatRunning in a tight loop
// (each a bounded number of times). The call is made once every poller is at full speed; when it has returned the
// pollers are stopped and waited for, so that whatever is judged afterwards is judged at quiescence. A state query
// is an operation of the quantifier like any other: it must not change what Stop, Start or RemoveEntity achieve.
//
// What the queries answer is judged where it is decided: the main goroutine publishes the phase (0 = the call has not
// begun, 1 = in progress, 2 = it has returned) in an atomic; a query that read phase 0 before AND after itself ended
// before the call began and must answer `before` (the state the preceding checkpoint established), one that read phase
// 2 before it began started after the call had returned and must answer `after` (-1: not decided, e.g. unknown prior
// state). Queries that overlap the call are only counted. Every poller makes at least 50 queries in phase 2.
func (e *c16Env) contended(op string, n int, before, after int) (ok bool) {
	const maxCalls = 3_000_000 // per poller
	var halt atomic.Bool
	var warm atomic.Int32
	var phase atomic.Int32
	var calls, trues, judged, wrongBefore, wrongAfter atomic.Int64
	var wg sync.WaitGroup
	b2i := func(b bool) int {
		if b {
			return 1
		}
		return 0
	}
	for i := 0; i < n; i++ {
		wg.Add(1)
		go func() {
			defer wg.Done()
			defer func() {
				if p := recover(); p != nil {
					e.c.Violate("call-panics/isrunning", "IsHeartbeatRunning panicked while polled concurrently with %s: %v", op, p)
					warm.Add(1)
				}
			}()
			var k, t, j, wb, wa, post int64
			for k = 0; k < maxCalls && !(halt.Load() && post >= 50); k++ {
				p0 := phase.Load()
				r := e.mgr().IsHeartbeatRunning()
				p1 := phase.Load()
				if r {
					t++
				}
				switch {
				case p0 == 0 && p1 == 0 && before >= 0:
					j++
					if b2i(r) != before {
						wb++
					}
				case p0 == 2:
					post++
					if after >= 0 {
						j++
						if b2i(r) != after {
							wa++
						}
					}
				}
				if k == 200 {
					warm.Add(1)
				}
			}
			calls.Add(k)
			trues.Add(t)
			judged.Add(j)
			wrongBefore.Add(wb)
			wrongAfter.Add(wa)
		}()
	}
	rig.WaitFor(10*time.Second, func() bool { return int(warm.Load()) >= n })
	phase.Store(1)
	e.call(op, "main")
	phase.Store(2)
	halt.Store(true)
	done := make(chan struct{})
	go func() { wg.Wait(); close(done) }()
	select {
	case <-done:
	case <-time.After(30 * time.Second):
		e.undecided++
		e.c.Inconclusive("the goroutines polling IsHeartbeatRunning did not finish within 30s after %s returned", op)
		return false
	}
	e.c.Count("isrunning_queries_concurrent_with_a_call", calls.Load())
	e.c.Count("isrunning_answers_judged(before the call began / after it returned)", judged.Load())
	if judged.Load() > 0 {
		e.c.Events(2) // the two classes of answers (before / after the call), not the millions of queries
	}
	if wb := wrongBefore.Load(); wb > 0 {
		e.c.Violate("isrunning/concurrent-query-disagrees-with-the-state-before-the-call", "%d IsHeartbeatRunning() queries that had returned before %s was called (phase flag read before and after the query) answered %v; the state established by the preceding checkpoint is %v\n history: %s", wb, op, before == 0, before == 1, e.history())
	}
	if wa := wrongAfter.Load(); wa > 0 {
		e.c.Violate("isrunning/concurrent-query-disagrees-with-the-returned-call", "%d IsHeartbeatRunning() queries that began after %s had returned answered %v (expected %v)\n history: %s", wa, op, after == 0, after == 1, e.history())
	}
	e.c.Count("calls_made_under_concurrent_isrunning_queries:"+op, 1)
	e.note("%s called while %d goroutines polled IsHeartbeatRunning (%d queries, %d true)", op, n, calls.Load(), trues.Load())
	return true
}

// c16Contended: trials of Stop, Start and restarting Start under concurrent state queries, each judged at quiescence
// by the ordinary checkpoints (after Stop: no live stream, no refresh after the one in flight; after Start: one stream).
func c16Contended(e *c16Env, pollers, trials int, running bool) (stillRunning, ok bool) {
	c, r := e.c, e.c.Rand
	cp := func(op string, run bool) {
		s := rig.Seq()
		v0, v0ok := e.counter()
		if run {
			e.checkpointRunning(op, s, v0, v0ok, e.subscribed(), 3)
		} else {
			e.checkpointStopped(op, s, v0, v0ok, 0)
		}
	}
	for t := 0; t < trials && !c.Failed() && !e.lost; t++ {
		if running && r.Intn(3) == 0 {
			// restart: the old stream must be stopped although its state is being queried
			if !e.contended("start", pollers, 1, 1) {
				return running, false
			}
			cp("restart-under-concurrent-isrunning-queries", true)
			continue
		}
		if running {
			if !e.contended("stop", pollers, 1, 0) {
				return running, false
			}
			running = false
			cp("stop-under-concurrent-isrunning-queries", false)
			if c.Failed() {
				break
			}
		}
		if !e.contended("start", pollers, 0, 1) {
			return running, false
		}
		running = true
		cp("start-under-concurrent-isrunning-queries", true)
	}
	return running, true
}

func c16Conc(c *rig.Ctx) {
	r := c.Rand
	timeout := []time.Duration{100 * time.Millisecond, 300 * time.Millisecond, 100 * time.Millisecond, 300 * time.Millisecond, 100 * time.Millisecond, 2500 * time.Millisecond}[c.Index%6]
	// a mute first subscriber in every second case, independent of the timeout (the index runs through six timeouts)
	opt := c16Opt{peer: true, mute: (c.Index/6+c.Index)%2 == 1, twinTimeout: c16TwinTimeouts[(c.Index/3)%len(c16TwinTimeouts)]}
	switch (c.Index/4 + c.Index) % 3 {
	case 1:
		opt.twin = []uint{2}
	case 2:
		opt.twin = []uint{1, 1}
	}
	// which calls the concurrent goroutines make besides Start/Stop/IsRunning: 1 = the AddFunctionType that creates
	// (and starts) the heartbeat is one of them, 2 = RemoveEntity is one of them, 3 = both
	variant := c.Index % 4
	lateAdd, concRemove := variant == 1 || variant == 3, variant >= 2
	// where the heartbeat is created by one of the concurrent goroutines, the goroutines are also the first to ask the
	// entity for its heartbeat manager, and every call asks again
	opt.perCall = lateAdd
	e := newC16EnvOpt(c, timeout, opt)
	defer e.close()
	e.startSampler()
	policy := []string{"rendezvous-stop", "rendezvous-start", "rendezvous-both", "jitter", "rendezvous-both+jitter"}[r.Intn(5)]
	var bars []*eBarrier
	for _, pt := range []string{"Heartbeat.stop.afterCheck", "Heartbeat.start.afterStop"} {
		short := strings.Split(pt, ".")[1]
		if strings.Contains(policy, "rendezvous-"+short) || strings.Contains(policy, "rendezvous-both") {
			b := newEBarrier(2, time.Duration(5+r.Intn(15))*time.Millisecond, 5)
			bars = append(bars, b)
			e.h.On(pt, b.arrive)
		}
		if strings.Contains(policy, "jitter") {
			e.h.Jitter(pt, r.Int63(), 400*time.Microsecond)
		}
	}
	e.twinAdd()
	if !lateAdd {
		e.call("add", "main")
		s := rig.Seq()
		v0, ok := e.counter()
		e.checkpointRunning("add", s, v0, ok, true, 2)
	}
	if e.lost {
		e.bailLost(fmt.Sprintf("%s %s cut short", timeout, policy))
		return
	}
	ng := 4 + r.Intn(5)
	lists := make([][]string, ng)
	var shape []string
	for g := range lists {
		for n := 3 + r.Intn(4); n > 0; n-- {
			lists[g] = append(lists[g], []string{"start", "stop", "start", "stop", "isrunning"}[r.Intn(5)])
		}
	}
	if lateAdd {
		// the function does not exist yet: one goroutine adds it (SetLocalFeature starts the heartbeat) while the others
		// begin with StartHeartbeat (which fails with an error until the feature is known, and restarts afterwards)
		ga := r.Intn(ng)
		for g := range lists {
			if g == ga {
				lists[g][r.Intn(2)] = "add"
			} else {
				lists[g][0] = "start"
			}
		}
	}
	if concRemove {
		// RemoveEntity by one goroutine (two in some cases) in the middle of the others' Start/Stop calls
		for n := 1 + r.Intn(2); n > 0; n-- {
			g := r.Intn(ng)
			if i := 1 + r.Intn(len(lists[g])-1); lists[g][i] != "add" {
				lists[g][i] = "remove"
			}
		}
	}
	for g := range lists {
		shape = append(shape, strings.Join(lists[g], ","))
	}
	var wg sync.WaitGroup
	startC := make(chan struct{})
	for g := range lists {
		wg.Add(1)
		go func(g int) {
			defer wg.Done()
			<-startC
			for _, op := range lists[g] {
				e.call(op, fmt.Sprint("g", g))
			}
		}(g)
	}
	close(startC)
	wg.Wait()
	for _, b := range bars {
		b.disable()
		f, x := b.stats()
		c.Count("window_forced", int64(f))
		c.Count("window_closed(rendezvous expired)", int64(x))
	}
	c.Seen("hook_orderings", eHash(strings.Join(e.h.Trace(), ",")))

	// which calls can have been the last one to take effect?
	e.mu.Lock()
	var ss []c16Call
	// a call that starts: StartHeartbeat that returned nil, the AddFunctionType that created the function (SetLocalFeature
	// starts the heartbeat); a call that stops: StopHeartbeat, RemoveEntity. A StartHeartbeat that returned an error
	// (the feature was not known yet) changes nothing; it could also not have been last unless the add is unordered
	// with it, and then the add itself is a possible last starter.
	for _, cl := range e.calls {
		switch {
		case cl.Op == "start" && cl.Res == "", cl.Op == "add":
			cl.Op = "start"
			ss = append(ss, cl)
		case cl.Op == "stop", cl.Op == "remove":
			cl.Op = "stop"
			ss = append(ss, cl)
		}
	}
	e.mu.Unlock()
	canStart, canStop := false, false
	for _, a := range ss {
		last := true
		for _, b := range ss {
			if b.Call > a.Ret {
				last = false
			}
		}
		if last {
			if a.Op == "start" {
				canStart = true
			} else {
				canStop = true
			}
		}
	}
	if len(ss) == 0 {
		canStart = true
	}
	s := rig.Seq()
	v0, v0ok := e.counter()
	isr := e.call("isrunning", "main")
	c.Events(1)
	if (isr == "true" && !canStart) || (isr == "false" && !canStop) {
		c.Violate("concurrent-start-stop/isrunning-disagrees-with-every-possible-last-call", "IsHeartbeatRunning() = %s after all goroutines finished, but the calls that can have taken effect last are start:%v stop:%v\n history: %s", isr, canStart, canStop, e.history())
	}
	// the state after the concurrent phase, judged with whatever IsHeartbeatRunning reports
	if isr == "true" {
		e.checkpointRunning("concurrent-start-stop", s, v0, v0ok, e.subscribed(), 3)
	} else {
		e.checkpointStopped("concurrent-start-stop", s, v0, v0ok, 0)
	}
	if lateAdd {
		c.Count("concurrent_phases_with_AddFunctionType", 1)
	}
	if concRemove {
		c.Count("concurrent_phases_with_RemoveEntity", 1)
	}
	// one final sequential call makes the expectation exact
	final := []string{"start", "stop"}[r.Intn(2)]
	if !c.Failed() {
		e.call(final, "main")
		s = rig.Seq()
		v0, v0ok = e.counter()
		if got := e.call("isrunning", "main"); got != fmt.Sprint(final == "start") && got != "panic" {
			c.Violate("isrunning/disagrees-with-last-call", "IsHeartbeatRunning() = %s after a final sequential %s\n history: %s", got, final, e.history())
		}
		if final == "start" {
			e.checkpointRunning("start-after-concurrent-phase", s, v0, v0ok, e.subscribed(), 3)
		} else {
			e.checkpointStopped("stop-after-concurrent-phase", s, v0, v0ok, 0)
		}
	}
	// Stop / Start / restart / RemoveEntity while 4-8 other goroutines query IsHeartbeatRunning in a tight loop
	pollers, trials := 4+r.Intn(5), 0
	switch {
	case e.period <= 100*time.Millisecond:
		trials = c.Pick(4, 8)
	case e.period <= 300*time.Millisecond:
		trials = c.Pick(2, 4)
	}
	if c.Race && trials > 2 {
		trials = c.Pick(2, 4)
	}
	if !c.Failed() && !e.lost {
		running := final == "start"
		if trials > 0 {
			var ok bool
			if running, ok = c16Contended(e, pollers, trials, running); !ok {
				return
			}
		}
		if !c.Failed() && !running && r.Intn(2) == 0 {
			e.call("start", "main") // the removal meets a running heartbeat in most cases
		}
	}
	if !c.Failed() {
		if !e.contended("remove", pollers, -1, 0) {
			return
		}
		s = rig.Seq()
		v0, v0ok = e.counter()
		e.checkpointStopped("remove-under-concurrent-isrunning-queries", s, v0, v0ok, 0)
	}
	e.finish()
	c.Shape(fmt.Sprintf("%s %s mute=%v twin=%v %s final=%s pollers=%d trials=%d", timeout, policy, e.mute != nil, opt.twin, strings.Join(shape, "|"), final, pollers, trials))
	c.NonTrivial(e.runningCP > 0 && e.stoppedCP > 0 && e.undecided == 0)
	c.Seen("timeouts", timeout.String())
	c.Seen("hook_policies", policy)
	c.Count("concurrent_calls", int64(len(ss)))
	sm := e.sample()
	sm["goroutines"] = ng
	sm["hook_policy"] = policy
	c.Sample(sm)
}

// ---------------------------------------------------------------------------
// slowtap: Stop while a refresh is being written by a writer slower than the period

// c16Stalled: one notification is held by the observed subscriber's connection for longer than one period plus
// the resolution of the timestamp plus the tolerance (period + 2.1 .. 2.5 s), no call is made meanwhile; the
// refreshes that follow must carry current timestamps (finish(): timestamp/older-than-the-end-of-the-previous-
// notification) and increasing counters, and every sampled refresh must still be notified.
func c16Stalled(c *rig.Ctx, j int) {
	r := c.Rand
	timeout := []time.Duration{300 * time.Millisecond, 500 * time.Millisecond}[j%2]
	e := newC16EnvOpt(c, timeout, c16Opt{peer: true, mute: (j/2)%2 == 1})
	defer e.close()
	e.noGapOracle = true
	e.startSampler()
	e.call("add", "main")
	{
		s := rig.Seq()
		v0, ok := e.counter()
		e.checkpointRunning("add", s, v0, ok, true, 2)
	}
	if e.lost {
		e.bailLost(fmt.Sprintf("stalled-writer %s cut short", timeout))
		return
	}
	trials := c.Pick(2, 3)
	if e.period >= 500*time.Millisecond {
		trials = c.Pick(1, 3)
	}
	var holds []string
	for i := 0; i < trials && !c.Failed(); i++ {
		hold := e.period + 2100*time.Millisecond + time.Duration(r.Intn(5))*100*time.Millisecond
		holds = append(holds, hold.String())
		select {
		case <-e.tap.entered:
		default:
		}
		atomic.StoreInt64(&e.tap.hold, int64(hold))
		select {
		case <-e.tap.entered: // a notification is being held by the connection
		case <-time.After(20*e.period + 15*time.Second):
			e.undecided++
			c.Inconclusive("no refresh reached the writer within the watchdog (trial %d)", i)
			return
		}
		s := rig.Seq()
		v0, v0ok := e.counter()
		e.note("trial %d: the subscriber's connection holds one notification for %s", i, hold)
		// the held one and three more of the same stream
		e.checkpointRunning("blocked-notification", s, v0, v0ok, true, 3)
		c.Count("notifications_blocked_longer_than_period_plus_2s", 1)
	}
	e.call("stop", "main")
	s := rig.Seq()
	v0, v0ok := e.counter()
	e.checkpointStopped("stop", s, v0, v0ok, 0)
	e.finish()
	c.Shape(fmt.Sprintf("stalled-writer %s holds=%d mute=%v", timeout, trials, e.mute != nil))
	c.NonTrivial(e.runningCP > trials && e.stoppedCP > 0 && e.undecided == 0)
	sm := e.sample()
	sm["flavor"] = "stalled-writer"
	sm["holds"] = holds
	c.Sample(sm)
}

func c16SlowTap(c *rig.Ctx) {
	if old := c.Pick(6, 16); c.Index >= old {
		c16Stalled(c, c.Index-old)
		return
	}
	timeout := []time.Duration{100 * time.Millisecond, 200 * time.Millisecond}[c.Index%2]
	e := newC16EnvOpt(c, timeout, c16Opt{peer: true, mute: (c.Index/2)%2 == 1})
	defer e.close()
	e.noGapOracle = true
	e.startSampler()
	e.call("add", "main")
	{
		s := rig.Seq()
		v0, ok := e.counter()
		e.checkpointRunning("add", s, v0, ok, true, 2)
	}
	if e.lost {
		e.bailLost(fmt.Sprintf("slowtap %s cut short", timeout))
		return
	}
	trials := c.Pick(4, 12)
	hold := e.period*5/2 + 20*time.Millisecond
	for i := 0; i < trials && !c.Failed(); i++ {
		select {
		case <-e.tap.entered:
		default:
		}
		atomic.StoreInt64(&e.tap.hold, int64(hold))
		select {
		case <-e.tap.entered: // a refresh is in flight inside the writer
		case <-time.After(20*e.period + 15*time.Second):
			e.undecided++
			c.Inconclusive("no refresh reached the writer within the watchdog (trial %d)", i)
			return
		}
		if i%2 == 1 {
			// restart while the old stream is inside a slow refresh: the old stream must still go away
			e.call("start", "main")
			s := rig.Seq()
			v0, v0ok := e.counter()
			c.Count("restarts_while_a_refresh_is_held_in_the_writer", 1)
			e.checkpointRunning("start-during-slow-refresh", s, v0, v0ok, true, 4)
			continue
		}
		e.call("stop", "main")
		s := rig.Seq()
		v0, v0ok := e.counter()
		e.checkpointStopped("stop-during-slow-refresh", s, v0, v0ok, hold)
		if c.Failed() {
			break
		}
		e.call("start", "main")
		s = rig.Seq()
		v0, v0ok = e.counter()
		e.checkpointRunning("start", s, v0, v0ok, true, 2)
	}
	e.finish()
	c.Shape(fmt.Sprintf("slowtap %s trials=%d mute=%v", timeout, trials, e.mute != nil))
	c.NonTrivial(e.runningCP > 0 && (e.stoppedCP > 0 || c.Failed()) && e.undecided == 0)
	c.Sample(e.sample())
}

// ---------------------------------------------------------------------------
// nofeature: StartHeartbeat although no effective AddFunctionType(heartbeat) happened before

var c16NoFeatureHistories = [][]string{
	{"start"},
	{"stop", "isrunning", "start"},
	{"start", "stop"},
	{"add-unreadable", "start"},
	{"start", "add"},
	{"remove", "start"},
}

func c16NoFeatureChild(c *rig.Ctx) {
	hist := c16NoFeatureHistories[c.Index%len(c16NoFeatureHistories)]
	timeout := 100 * time.Millisecond
	if strings.Join(hist, ",") == "start,add" {
		timeout = 400 * time.Millisecond // the feature arrives long before the first tick
	}
	e := newC16Env(c, timeout, true)
	defer e.close()
	for _, op := range hist {
		e.call(op, "main")
	}
	time.Sleep(4 * e.period) // the first ticks of a stream started without a feature
	isr := e.call("isrunning", "main")
	if isr == "false" && !rig.WaitFor(5*time.Second, func() bool { return e.live() == 0 }) {
		c.Inconclusive("IsHeartbeatRunning() = false but %d stream goroutines are alive", e.live())
	}
	e.call("stop", "main")
	s := rig.Seq()
	v0, v0ok := e.counter()
	e.checkpointStopped("stop", s, v0, v0ok, 0)
	e.finish()
	c.NonTrivial(true)
	c.Shape(strings.Join(hist, ","))
	c.Sample(e.sample())
}

// c16ChildOut is what a case executed in a child process left behind.
type c16ChildOut struct {
	err     error            // how the child process ended (nil: exit status 0)
	stderr  string           // its stderr (GOTRACEBACK=all)
	results []rig.CaseResult // the case results it journaled
}

// c16RunChild executes case c.Index of part `part` in a child process (the worker binary itself), so that a panic on
// a goroutine the stack spawned - which takes the whole process down - is attributed to exactly this history.
func c16RunChild(c *rig.Ctx, part string, what string) (out c16ChildOut, ok bool) {
	exe, err := os.Executable()
	if err != nil {
		c.Inconclusive("cannot find the worker binary: %v", err)
		return out, false
	}
	journal := filepath.Join(os.TempDir(), fmt.Sprintf("c16-%s-%d-%d.journal", part, os.Getpid(), c.Index))
	defer os.Remove(journal)
	args := []string{"-worker", "-prop", "C16", "-part", part, "-tier", string(c.Tier), "-seed", fmt.Sprint(c.Seed),
		"-from", fmt.Sprint(c.Index), "-to", fmt.Sprint(c.Index + 1), "-out", journal}
	if c.Race {
		args = append(args, "-race")
	}
	cmd := exec.Command(exe, args...)
	var stderr bytes.Buffer
	cmd.Stderr = &stderr
	cmd.Env = append(os.Environ(), "GOTRACEBACK=all")
	done := make(chan error, 1)
	if err := cmd.Start(); err != nil {
		c.Inconclusive("cannot start the child process: %v", err)
		return out, false
	}
	go func() { done <- cmd.Wait() }()
	select {
	case out.err = <-done:
	case <-time.After(90 * time.Second):
		_ = cmd.Process.Kill()
		<-done
		c.Inconclusive("child process for %s did not finish within 90s", what)
		return out, false
	}
	out.stderr = stderr.String()
	if f, err := os.Open(journal); err == nil {
		defer f.Close()
		sc := bufio.NewScanner(f)
		sc.Buffer(make([]byte, 1<<20), 16<<20)
		for sc.Scan() {
			if line := sc.Text(); strings.HasPrefix(line, "R ") {
				var r rig.CaseResult
				if json.Unmarshal([]byte(line[2:]), &r) == nil {
					out.results = append(out.results, r)
				}
			}
		}
	}
	return out, true
}

// c16DeathOf returns the panic / fatal error text of a child that died and the innermost spine-go frame of it.
func c16DeathOf(text string) (tail, frame string, found bool) {
	idx := strings.Index(text, "panic: ")
	if idx < 0 {
		idx = strings.Index(text, "fatal error: ")
	}
	if idx < 0 {
		return "", "", false
	}
	tail = text[idx:]
	frame = rig.InnermostSpineFrame(tail)
	if len(tail) > 1500 {
		tail = tail[:1500]
	}
	return tail, frame, true
}

func c16NoFeature(c *rig.Ctx) {
	hist := c16NoFeatureHistories[c.Index%len(c16NoFeatureHistories)]
	out, ok := c16RunChild(c, "nofeature-child", fmt.Sprintf("history %v", hist))
	if !ok {
		return
	}
	c.Events(1)
	c.Shape(strings.Join(hist, ","))
	c.Seen("nofeature_histories", strings.Join(hist, ","))
	if out.err == nil {
		// survived: take over what the child judged
		for _, r := range out.results {
			for _, v := range r.Viol {
				c.Violate(v.Sig, "%s", v.Detail)
			}
			for _, s := range r.Inconcl {
				c.Inconclusive("%s", s)
			}
			c.Sample(map[string]any{"history": hist, "child": r.Sample, "outcome": "survived"})
		}
		c.Count("nofeature_survived", 1)
		c.NonTrivial(true)
		return
	}
	tail, frame, found := c16DeathOf(out.stderr)
	if !found {
		c.Inconclusive("child process for history %v ended with %v without a panic message", hist, out.err)
		return
	}
	c.NonTrivial(true)
	c.Count("nofeature_process_died", 1)
	c.Sample(map[string]any{"history": hist, "outcome": "process died", "frame": frame})
	if strings.Contains(frame, "HeartbeatManager.updateHeartbeatData") {
		c.Violate("heartbeat/start-without-feature-panics", "history %v (no DeviceDiagnosis heartbeat function that SetLocalFeature accepts was added before StartHeartbeat): StartHeartbeat returned nil, IsHeartbeatRunning reports true, and the stream goroutine takes the process down at its first tick:\n%s", hist, tail)
	} else {
		c.Violate("nofeature/crash@"+frame, "history %v: the process died:\n%s", hist, tail)
	}
	c.Witness(map[string]any{"history": hist, "stderr": tail})
}

// ---------------------------------------------------------------------------
// entity0: the DeviceInformation entity [0] of the device (and an entity the application creates with address [0]).
// The quantifier covers every history of AddFunctionType(heartbeat) / StartHeartbeat / StopHeartbeat /
// IsHeartbeatRunning / RemoveEntity calls, and the statement demands that they do not panic. Whether entity [0] HAS a
// heartbeat is not decided by the statement: nothing but "no panic, the process survives" is judged here. Calls on the
// heartbeat manager are made only if EntityLocal.HeartbeatManager() hands one out (a nil manager cannot be called).

var c16Entity0Histories = [][]string{
	{"add"},
	{"add-unreadable"},
	{"hm", "add", "hm", "remove", "hm"},
	{"fresh", "add", "hm", "add-entity", "hm", "remove", "hm"},
	{"remove", "hm", "add"},
	// controls (no heartbeat function on a server feature involved): prove that the mechanism itself survives
	{"client-add", "state-add", "hm", "remove"},
}

func c16Entity0Child(c *rig.Ctx) {
	hist := c16Entity0Histories[c.Index%len(c16Entity0Histories)]
	w := rig.NewWorld(c.Tag())
	defer w.Close()
	var ent api.EntityLocalInterface = w.Local.Entity(spine.DeviceInformationAddressEntity)
	if rig.IsNil(ent) {
		c.Inconclusive("the local device has no entity [0]")
		return
	}
	var log []string
	// guarded executes one call; a panic in the calling goroutine is the verdict (a panic on a goroutine of the stack
	// kills this process and is attributed by the parent)
	guarded := func(op, sig string, f func()) {
		p := eGuard(c, "entity0 "+op, f)
		c.Events(1)
		if p == "" {
			log = append(log, op)
			return
		}
		log = append(log, op+"=PANIC")
		c.Violate(sig, "history %v on entity [0]: %s panicked: %s\n calls so far: %v", hist, op, p, log)
	}
	hmCalls := func() {
		hm := ent.HeartbeatManager()
		if rig.IsNil(hm) {
			c.Count("entity0_hands_out_no_heartbeat_manager", 1)
			log = append(log, "HeartbeatManager()=nil")
			return
		}
		c.Count("entity0_hands_out_a_heartbeat_manager", 1)
		guarded("IsHeartbeatRunning", "entity0/call-panics/isrunning", func() { _ = hm.IsHeartbeatRunning() })
		guarded("StartHeartbeat", "entity0/call-panics/start", func() { _ = hm.StartHeartbeat() })
		guarded("IsHeartbeatRunning", "entity0/call-panics/isrunning", func() { _ = hm.IsHeartbeatRunning() })
		guarded("StopHeartbeat", "entity0/call-panics/stop", func() { hm.StopHeartbeat() })
		guarded("StopHeartbeat", "entity0/call-panics/stop", func() { hm.StopHeartbeat() })
		guarded("StartHeartbeat", "entity0/call-panics/start", func() { _ = hm.StartHeartbeat() })
	}
	dd := func() api.FeatureLocalInterface {
		return ent.GetOrAddFeature(model.FeatureTypeTypeDeviceDiagnosis, model.RoleTypeServer)
	}
	for _, op := range hist {
		switch op {
		case "fresh":
			// an entity [0] the application creates itself, with a heartbeat timeout
			ent = spine.NewEntityLocal(w.Local, model.EntityTypeTypeDeviceInformation, spine.NewAddressEntityType([]uint{0}), 100*time.Millisecond)
			log = append(log, "NewEntityLocal([0])")
		case "add-entity":
			guarded("AddEntity", "entity0/call-panics/add-entity", func() { w.Local.AddEntity(ent) })
		case "add":
			guarded("AddFunctionType(heartbeat,read)", "entity0/add-heartbeat-function-panics", func() {
				dd().AddFunctionType(model.FunctionTypeDeviceDiagnosisHeartbeatData, true, false)
			})
		case "add-unreadable":
			guarded("AddFunctionType(heartbeat,no read)", "entity0/add-heartbeat-function-panics", func() {
				dd().AddFunctionType(model.FunctionTypeDeviceDiagnosisHeartbeatData, false, false)
			})
		case "client-add":
			guarded("AddFunctionType(heartbeat) on the client feature", "entity0/call-panics/client-add", func() {
				ent.GetOrAddFeature(model.FeatureTypeTypeDeviceDiagnosis, model.RoleTypeClient).AddFunctionType(model.FunctionTypeDeviceDiagnosisHeartbeatData, true, false)
			})
		case "state-add":
			guarded("AddFunctionType(state) on the server feature", "entity0/call-panics/state-add", func() {
				dd().AddFunctionType(model.FunctionTypeDeviceDiagnosisStateData, true, false)
			})
		case "hm":
			hmCalls()
		case "remove":
			guarded("RemoveEntity", "entity0/call-panics/remove", func() { w.Local.RemoveEntity(ent) })
		}
		if c.Failed() {
			break
		}
	}
	// if a heartbeat was started, let its stream tick a few times (a panic there ends this process), then stop it
	if hm := ent.HeartbeatManager(); !rig.IsNil(hm) {
		time.Sleep(500 * time.Millisecond)
		guarded("StopHeartbeat", "entity0/call-panics/stop", func() { hm.StopHeartbeat() })
	}
	c.NonTrivial(true)
	c.Shape(strings.Join(hist, ","))
	c.Sample(map[string]any{"history": hist, "calls": log})
	if c.Failed() {
		c.Witness(map[string]any{"history": hist, "calls": log})
	}
}

func c16Entity0(c *rig.Ctx) {
	hist := c16Entity0Histories[c.Index%len(c16Entity0Histories)]
	out, ok := c16RunChild(c, "entity0-child", fmt.Sprintf("entity [0] history %v", hist))
	if !ok {
		return
	}
	c.Events(1)
	c.Shape("entity0 " + strings.Join(hist, ","))
	c.Seen("entity0_histories", strings.Join(hist, ","))
	if out.err == nil {
		for _, r := range out.results {
			for _, v := range r.Viol {
				c.Violate(v.Sig, "%s", v.Detail)
			}
			for _, s := range r.Inconcl {
				c.Inconclusive("%s", s)
			}
			for k, n := range r.Counts {
				if strings.HasPrefix(k, "entity0_") {
					c.Count(k, n)
				}
			}
			c.Events(r.Events)
			c.Sample(map[string]any{"history": hist, "child": r.Sample, "outcome": "survived"})
			if len(r.Viol) > 0 {
				c.Witness(r.Witness)
			}
		}
		c.Count("entity0_survived", 1)
		c.NonTrivial(len(out.results) > 0)
		return
	}
	tail, frame, found := c16DeathOf(out.stderr)
	if !found {
		c.Inconclusive("child process for entity [0] history %v ended with %v without a panic message", hist, out.err)
		return
	}
	c.NonTrivial(true)
	c.Count("entity0_process_died", 1)
	c.Sample(map[string]any{"history": hist, "outcome": "process died", "frame": frame})
	c.Violate("entity0/crash@"+frame, "history %v on entity [0]: the process died:\n%s", hist, tail)
	c.Witness(map[string]any{"history": hist, "stderr": tail})
}
