package checks

import (
	"fmt"

	"github.com/enbility/spine-go/model"

	"verifharness/rig"
)

// A "mute" peer: a remote device whose connection has no write handler
// (DeviceLocal.SetupRemoteDevice(ski, nil) -> spine.NewSender(nil)). Every datagram the stack wants to send to it
// fails inside Sender.sendSpineMessage with "outgoing interface implementation not set": the one send fault the
// real Sender can produce. Inbound traffic works, so the peer can announce itself and subscribe; the results of its
// calls cannot be delivered, which is its own business.
//
// The checks C07, C08 and C16 let such a peer subscribe FIRST (its entries precede everybody else's in the
// subscription list) in a share of their cases. The statements demand that every subscribed peer is notified
// "and nobody else": a fault on one connection must not silence the others. The mute peer is invisible to the
// oracles: it is not part of World.Peers (no tap, its registry entries are not compared, World.Close does not
// know it), so the caller must `defer w.Local.RemoveRemoteDeviceConnection(p.Ski)` and drain the events its
// setup publishes.

type muteSub struct {
	Client, Server *model.FeatureAddressType
	Typ            model.FeatureTypeType
}

// addMutePeer connects mute peer number i of the world (device address "mute<i>") and returns a rig.Peer whose
// Tap is never written to. It is NOT appended to w.Peers.
func addMutePeer(w *rig.World, i int) *rig.Peer {
	p := &rig.Peer{Ski: fmt.Sprintf("%s-mute%d", w.Tag, i), Addr: fmt.Sprintf("mute%d", i), Tap: &rig.Tap{}, W: w, Ctr: uint64(900000 + 1000*i)}
	w.Local.SetupRemoteDevice(p.Ski, nil)
	p.RD = w.Local.RemoteDeviceForSki(p.Ski)
	return p
}

// muteSubscribeFirst announces feats as the mute peer's tree and issues the subscriptions. It returns an empty
// string if every subscription is registered and is the FIRST entry on its server feature, else what is wrong
// (the caller reports the case as inconclusive: the setup, not the property, failed).
func muteSubscribeFirst(w *rig.World, p *rig.Peer, feats []rig.FS, subs []muteSub) string {
	if p.RD == nil {
		return "the mute peer has no remote device object"
	}
	p.Announce(feats)
	for _, s := range subs {
		p.Subscribe(s.Client, s.Server, s.Typ)
	}
	if n := p.PanicCount(); n > 0 {
		return "the stack panicked while handling the mute peer's setup: " + p.Panics[n-1]
	}
	if n := len(w.Local.SubscriptionManager().Subscriptions(p.RD)); n != len(subs) {
		return fmt.Sprintf("%d of the mute peer's %d subscriptions are registered", n, len(subs))
	}
	for _, s := range subs {
		es := w.Local.SubscriptionManager().SubscriptionsOnFeature(*s.Server)
		if len(es) == 0 || es[0].ClientFeature == nil || es[0].ClientFeature.Device() != p.RD {
			return fmt.Sprintf("the mute peer is not the first subscriber of %s (%d entries)", rkKey(s.Server), len(es))
		}
	}
	if p.Tap.Total() != 0 {
		return "the mute peer's tap received a datagram: it is not mute"
	}
	return ""
}
