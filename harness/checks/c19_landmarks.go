package checks

import (
	"fmt"
	"math"
	"strconv"
	"strings"
	"time"

	"github.com/enbility/spine-go/model"

	"verifharness/rig"
)

// C19, second half: inputs that are placed, not drawn.
//
// Random inputs reach the bulk of every range and practically never the places where a conversion changes its shape:
// a rounding that carries into a new digit, a rounding that leaves zeros behind, the value that coincides with the zero
// value of the type that carries it (0, -0, 0 s, Go's zero time.Time, the Unix epoch), the ends of the range, the places
// where a field of the text changes its width. The generators here enumerate such landmarks for every conversion of the
// statement, together with their neighbours, so that a landmark and the ordinary values next to it are judged by the same
// oracle. Nothing here knows a particular defect; the landmark lists are derived from the decimal and calendar structure
// of the inputs, not from the library.

// ---- scaled numbers: structured floats ------------------------------------------------------------------------

// c19CheckFloat: any number below 10^14 converts to within 0.0001 of itself. Judged twice: through the library's
// GetValue(), and through the harness's own evaluation of Number*10^Scale (what a peer computes from the wire form).
// Returns the larger of the two errors.
func c19CheckFloat(c *rig.Ctx, v float64) float64 {
	s := model.NewScaledNumberType(v)
	if s == nil || s.Number == nil {
		c.Violate("float/nil-number", "NewScaledNumberType(%s) has no number", strconv.FormatFloat(v, 'g', -1, 64))
		return math.Inf(1)
	}
	g := s.GetValue()
	e := math.Abs(g - v)
	if !(e <= 0.0001) {
		c.Violate("float/error>0.0001", "v=%s -> number=%v scale=%v -> %s (error %g)", strconv.FormatFloat(v, 'g', -1, 64), deref(s.Number), deref(s.Scale), strconv.FormatFloat(g, 'g', -1, 64), e)
	}
	scale := 0
	if s.Scale != nil {
		scale = int(*s.Scale)
	}
	h, err := strconv.ParseFloat(strconv.FormatInt(int64(*s.Number), 10)+"e"+strconv.Itoa(scale), 64)
	e2 := math.Abs(h - v)
	if err != nil || !(e2 <= 0.0001) {
		c.Violate("float/representation>0.0001", "v=%s -> number=%v scale=%v, which denotes %s (error %g, err=%v)", strconv.FormatFloat(v, 'g', -1, 64), deref(s.Number), deref(s.Scale), strconv.FormatFloat(h, 'g', -1, 64), e2, err)
	}
	return math.Max(e, e2)
}

// c19FloatClass classifies v by what rounding its decimal expansion to four fractional digits does (harness side,
// strconv only): used for the evidence and the non-triviality rule, not for a verdict.
func c19FloatClass(c *rig.Ctx, v float64) {
	short := strconv.FormatFloat(v, 'f', -1, 64)
	r4 := strconv.FormatFloat(v, 'f', 4, 64)
	ip := func(s string) string {
		s = strings.TrimPrefix(s, "-")
		if i := strings.IndexByte(s, '.'); i >= 0 {
			return s[:i]
		}
		return s
	}
	fr := 0
	if i := strings.IndexByte(short, '.'); i >= 0 {
		fr = len(short) - i - 1
	}
	if fr <= 4 {
		c.Count("structured_floats_with_at_most_four_decimals", 1)
		return
	}
	c.Count("structured_floats_with_more_than_four_decimals", 1)
	a, b := ip(short), ip(r4)
	switch {
	case len(b) > len(a):
		c.Count("structured_floats_whose_rounding_carries_into_a_new_integer_digit", 1)
	case a != b:
		c.Count("structured_floats_whose_rounding_carries_into_the_integer_part", 1)
	}
	if strings.HasSuffix(r4, "0") {
		c.Count("structured_floats_whose_rounding_leaves_trailing_zeros", 1)
	}
	if strings.TrimLeft(strings.TrimPrefix(r4, "-"), "0.") == "" {
		c.Count("structured_floats_that_round_to_zero", 1)
	}
}

func c19Digits(c *rig.Ctx, n int) string {
	b := make([]byte, n)
	for i := range b {
		b[i] = byte('0' + c.Rand.Intn(10))
	}
	if n > 0 && b[0] == '0' {
		b[0] = byte('1' + c.Rand.Intn(9))
	}
	return string(b)
}

// c19FloatsStructured: the cross product of integer-part patterns x patterns of the first four decimals x patterns of
// the digits behind them, both signs. The random fills come from the case PRNG; the patterns are the same in every case.
func c19FloatsStructured(c *rig.Ctx) {
	type pat struct{ name, s string }
	var ints []pat
	ints = append(ints, pat{"zero", "0"})
	for p := 1; p <= 14; p++ {
		ints = append(ints, pat{"nines", strings.Repeat("9", p)})
		ints = append(ints, pat{"random", c19Digits(c, p)})
	}
	for p := 0; p <= 13; p++ {
		ints = append(ints, pat{"power-of-ten", "1" + strings.Repeat("0", p)})
	}
	for p := 1; p <= 12; p++ {
		ints = append(ints, pat{"digit+nines", string(byte('1'+c.Rand.Intn(8))) + strings.Repeat("9", p)})
		ints = append(ints, pat{"digits+zeros", c19Digits(c, 1+c.Rand.Intn(13-p)) + strings.Repeat("0", p)})
	}
	rd := func(n int) string { // n random digits, the last one not 0 and not 9
		b := []byte(c19Digits(c, n))
		b[n-1] = byte('1' + c.Rand.Intn(8))
		return string(b)
	}
	first4 := func() []pat {
		return []pat{
			{"9999", "9999"}, {"0000", "0000"}, {"random", rd(4)},
			{"x999", rd(1) + "999"}, {"xx99", rd(2) + "99"}, {"xxx9", rd(3) + "9"},
			{"x000", rd(1) + "000"}, {"xx00", rd(2) + "00"}, {"xxx0", rd(3) + "0"},
			{"0009", "0009"}, {"0001", "0001"}, {"9990", "9990"},
		}
	}
	tails := func() []pat {
		return []pat{
			{"none", ""}, {"5", "5"}, {"4", "4"}, {"6", "6"}, {"9", "9"}, {"1", "1"}, {"49", "49"}, {"51", "51"},
			{"4999999999", "4999999999"}, {"5000000001", "5000000001"}, {"99999", "99999"}, {"96", "96"}, {"00001", "00001"}, {"04", "04"},
			{"random", rd(1 + c.Rand.Intn(8))}, {"random5", "5" + rd(1+c.Rand.Intn(6))}, {"random4", "4" + rd(1+c.Rand.Intn(6))},
		}
	}
	n, skipped := 0, 0
	worst := 0.0
	var ex []string
	for _, ip := range ints {
		for _, f4 := range first4() {
			for _, tl := range tails() {
				for _, sign := range []string{"", "-"} {
					text := sign + ip.s + "." + f4.s + tl.s
					v, err := strconv.ParseFloat(text, 64)
					if err != nil || math.Abs(v) >= 1e14 {
						skipped++
						continue
					}
					c.Seen("structured_float_patterns", ip.name+"."+f4.name+"+"+tl.name)
					c19FloatClass(c, v)
					if e := c19CheckFloat(c, v); e > worst {
						worst = e
					}
					n++
					if len(ex) < 6 && n%977 == 1 {
						ex = append(ex, text)
					}
				}
			}
		}
	}
	// the double next to every power of ten and to every half of the fourth decimal next to it, a few ulps to either side
	for p := -6; p <= 13; p++ {
		for _, m := range []float64{1, 2, 5} {
			base := m * math.Pow(10, float64(p))
			for _, off := range []float64{0, 0.00005, -0.00005, 0.0001, -0.0001, 0.00015} {
				x := base + off
				lo, hi := x, x
				for u := 0; u < 3; u++ {
					for _, y := range []float64{lo, hi, -lo, -hi} {
						if math.Abs(y) < 1e14 {
							c19FloatClass(c, y)
							c19CheckFloat(c, y)
							n++
						}
					}
					lo, hi = math.Nextafter(lo, math.Inf(-1)), math.Nextafter(hi, math.Inf(1))
				}
			}
		}
	}
	// the ends of the domain and the values that coincide with a zero value
	for _, y := range []float64{0, math.Copysign(0, -1), math.SmallestNonzeroFloat64, -math.SmallestNonzeroFloat64, 2.2250738585072014e-308,
		math.Nextafter(1e14, 0), -math.Nextafter(1e14, 0), 1 << 53, -(1 << 53), 1<<53 - 1, 1 << 46, 1<<46 + 0.5, 1<<39 + 0.00005, 1<<32 - 0.00004} {
		c19CheckFloat(c, y)
		n++
	}
	c.Count("structured_floats", int64(n))
	c.Events(int64(n))
	c.Shape(fmt.Sprintf("structured floats fill=%d", c.Index%8))
	c.NonTrivial(n >= 1000)
	c.Sample(map[string]any{"structured_floats": n, "not_below_1e14_skipped": skipped, "worst_abs_error": worst, "examples": ex})
}

// ---- scaled numbers: decimals at landmarks, over the whole magnitude range, and in other representations ------------

// c19CheckScaledForms: the number k*10^-d in representations a peer may send (other than the one the library chooses)
// is read by GetValue() as the double nearest to it.
func c19CheckScaledForms(c *rig.Ctx, k int64, d int) int {
	v, _ := strconv.ParseFloat(fmt.Sprintf("%de-%d", k, d), 64)
	n := 0
	try := func(style string, number int64, scale *int) {
		num := model.NumberType(number)
		s := &model.ScaledNumberType{Number: &num}
		if scale != nil {
			sc := model.ScaleType(*scale)
			s.Scale = &sc
		}
		c.Count("scaled_number_forms_read", 1)
		c.Seen("scaled_number_form_styles", style)
		n++
		if g := s.GetValue(); g != v {
			c.Violate("scaled/"+style+"/misread", "number=%d scale=%v denotes %s, GetValue() = %s", number, deref(scale), strconv.FormatFloat(v, 'g', -1, 64), strconv.FormatFloat(g, 'g', -1, 64))
		}
	}
	sc := -d
	try("canonical", k, &sc)
	kk, ss := k, -d
	for j := 1; j <= 3 && kk < math.MaxInt64/10 && kk > math.MinInt64/10; j++ { // zeros appended
		kk *= 10
		ss--
		s2 := ss
		try("padded", kk, &s2)
	}
	kk, ss = k, -d
	for j := 1; j <= 6 && kk != 0 && kk%10 == 0; j++ { // zeros stripped: the scale may become positive
		kk /= 10
		ss++
		s2 := ss
		style := "stripped"
		if ss > 0 {
			style = "stripped-positive-scale"
		}
		try(style, kk, &s2)
	}
	if d == 0 {
		try("no-scale", k, nil)
	}
	return n
}

func c19LandmarkKs() []int64 {
	seen := map[int64]bool{}
	var ks []int64
	add := func(k int64) {
		if k < 0 || seen[k] {
			return
		}
		seen[k] = true
		ks = append(ks, k)
	}
	p10 := int64(1)
	for p := 0; p <= 14; p++ {
		for j := int64(-2); j <= 2; j++ {
			add(p10 + j)
		}
		for m := int64(2); m <= 9; m++ {
			add(m*p10 - 1)
			add(m * p10)
			add(m*p10 + 1)
		}
		add(p10 * 15)
		add(p10*15 + 4)
		add(p10*29 - 10)
		p10 *= 10
	}
	for q := 0; q <= 49; q++ {
		add(1<<q - 1)
		add(1 << q)
		add(1<<q + 1)
	}
	for _, s := range []string{"123456789012345", "111111111111111", "333333333333333", "777777777777777", "142857142857142", "271828182845904", "314159265358979"} {
		for l := 1; l <= len(s); l++ {
			k, _ := strconv.ParseInt(s[:l], 10, 64)
			add(k)
		}
	}
	return ks
}

func c19DecimalsLandmarks(c *rig.Ctx) {
	n := 0
	for _, k := range c19LandmarkKs() {
		for d := 0; d <= 4; d++ {
			if k >= 900000000000000 || float64(k) >= 1e14*math.Pow(10, float64(d)) {
				continue
			}
			for _, kk := range []int64{k, -k} {
				c19CheckDecimal(c, kk, d)
				n++
				n += c19CheckScaledForms(c, kk, d)
			}
		}
	}
	c.Count("decimal_landmarks", int64(n))
	c.Events(int64(n))
	c.Shape("landmarks k=10^p+-j, m*10^p+-1, 2^q+-1, digit prefixes; all d; other representations")
	c.NonTrivial(n >= 1000)
	c.Sample(map[string]any{"values_and_forms": n, "k": "10^p+-{0,1,2}, m*10^p+-{0,1}, 2^q+-{0,1}, prefixes of fixed digit strings, both signs, d=0..4, |v|<10^14"})
}

// c19DecimalsWide: k with 1..15 digits (uniform in the number of digits), so that k*10^-d ranges over all magnitudes
// below 10^14; a decimal of at most 15 significant digits is the shortest text of its double, so "the same number" is
// decided exactly as in the dense range.
func c19DecimalsWide(c *rig.Ctx, d, values int) {
	n := 0
	digits := map[int]bool{}
	for i := 0; i < values; i++ {
		l := 1 + c.Rand.Intn(15)
		if l > 14+d {
			l = 14 + d
		}
		k, _ := strconv.ParseInt(c19Digits(c, l), 10, 64)
		if k >= 900000000000000 {
			k /= 10
		}
		if c.Rand.Intn(2) == 0 {
			k = -k
		}
		digits[l] = true
		c19CheckDecimal(c, k, d)
		n++
		if i%8 == 0 {
			n += c19CheckScaledForms(c, k, d)
		}
	}
	c.Count("decimals_wide", int64(n))
	c.Events(int64(n))
	c.Shape(fmt.Sprintf("wide d=%d digit-counts=%d block=%d", d, len(digits), c.Index/5%4))
	c.NonTrivial(n >= 1000 && len(digits) >= 10)
	c.Sample(map[string]any{"d": d, "k_digits": "1..15 (uniform in the count)", "values_and_forms": n})
}

// ---- instants: landmarks of the calendar, of the range and of the carrying type -------------------------------------

var (
	c19InstantLo = time.Date(1, 1, 1, 0, 0, 0, 0, time.UTC)
	c19InstantHi = time.Date(9999, 12, 31, 23, 59, 59, 0, time.UTC)
)

type c19Landmark struct {
	kind string
	t    time.Time
}

func c19InstantLandmarks() []c19Landmark {
	var l []c19Landmark
	add := func(kind string, t time.Time) { l = append(l, c19Landmark{kind, t.UTC()}) }
	add("range-start = zero value of time.Time", time.Time{})
	add("range-start", c19InstantLo)
	add("range-end", c19InstantHi)
	for _, u := range []int64{0, 1 << 31, -(1 << 31), 1 << 32, -(1 << 32), 1 << 33, 1e9, 2e9, 1e10, 1e11, -1e9, -1e10} {
		add("unix-seconds landmark", time.Unix(u, 0))
	}
	// where time.Time changes its internal encoding (wall seconds since 1885 in 33 bits when a monotonic reading is carried)
	w := time.Date(1885, 1, 1, 0, 0, 0, 0, time.UTC)
	add("wall-encoding start", w)
	add("wall-encoding end", w.Add((1<<33-1)*time.Second))
	for _, y := range []int{1, 2, 4, 9, 10, 99, 100, 400, 999, 1000, 1582, 1600, 1752, 1899, 1900, 1901, 1969, 1970, 1999, 2000, 2001, 2024, 2037, 2038, 2100, 2400, 9996, 9999} {
		add("year start (width of the year field)", time.Date(y, 1, 1, 0, 0, 0, 0, time.UTC))
		add("year end", time.Date(y, 12, 31, 23, 59, 59, 0, time.UTC))
		add("end of february", time.Date(y, 3, 1, 0, 0, 0, 0, time.UTC).Add(-time.Second))
		add("28 february", time.Date(y, 2, 28, 23, 59, 59, 0, time.UTC))
	}
	add("gregorian cutover", time.Date(1582, 10, 4, 23, 59, 59, 0, time.UTC))
	add("gregorian cutover", time.Date(1582, 10, 15, 0, 0, 0, 0, time.UTC))
	for m := 1; m <= 12; m++ {
		add("month start", time.Date(2023, time.Month(m), 1, 0, 0, 0, 0, time.UTC))
		add("month start", time.Date(1, time.Month(m), 1, 0, 0, 0, 0, time.UTC))
		add("month start", time.Date(9999, time.Month(m), 1, 0, 0, 0, 0, time.UTC))
		add("day = month", time.Date(2011, time.Month(m), m, m, m, m, 0, time.UTC))
	}
	for _, hms := range [][3]int{{0, 0, 0}, {0, 0, 1}, {0, 0, 59}, {0, 1, 0}, {0, 59, 59}, {1, 0, 0}, {9, 9, 9}, {10, 10, 10}, {11, 59, 59}, {12, 0, 0}, {12, 59, 59}, {13, 0, 0}, {23, 0, 0}, {23, 59, 0}, {23, 59, 59}} {
		add("clock field ends", time.Date(2024, 2, 29, hms[0], hms[1], hms[2], 0, time.UTC))
		add("clock field ends", time.Date(1, 1, 1, hms[0], hms[1], hms[2], 0, time.UTC))
		add("clock field ends", time.Date(9999, 12, 31, hms[0], hms[1], hms[2], 0, time.UTC))
		add("clock field ends", time.Date(1970, 1, 1, hms[0], hms[1], hms[2], 0, time.UTC))
	}
	return l
}

func c19Zones() []*time.Location {
	return []*time.Location{time.UTC, time.Local, time.FixedZone("a", 14*3600), time.FixedZone("b", -12*3600), time.FixedZone("c", 5*3600+1800),
		time.FixedZone("d", 5*3600+2700), time.FixedZone("e", -(9*3600 + 1800)), time.FixedZone("f", 53*60+28), time.FixedZone("", 0)}
}

// c19CheckInstant: one instant with whole seconds through both constructors and both readers.
func c19CheckInstant(c *rig.Ctx, tm time.Time) (text string) {
	a := model.NewAbsoluteOrRelativeTimeTypeFromTime(tm)
	back, err := a.GetTime()
	if err != nil || !back.Equal(tm) {
		c.Violate("instant/round-trip", "AbsoluteOrRelativeTimeType %v -> %q -> %v err=%v", tm, string(*a), back, err)
	}
	if a.IsRelativeTime() {
		c.Violate("instant/taken-as-relative", "%q is reported as relative time", string(*a))
	}
	c19JudgeInstantText(c, "AbsoluteOrRelativeTimeType", string(*a), tm)
	d := model.NewDateTimeTypeFromTime(tm)
	back2, err := d.GetTime()
	if err != nil || !back2.Equal(tm) {
		c.Violate("instant/datetime-round-trip", "DateTimeType %v -> %q -> %v err=%v", tm, string(*d), back2, err)
	}
	c19JudgeInstantText(c, "DateTimeType", string(*d), tm)
	return string(*a)
}

// c19CheckInstantSpellings: the instant written by the harness in spellings of xs:dateTime other than the library's
// own (fraction of zeros), read through both readers. Spellings whose meaning the statement does not decide (numeric
// zone offset, no zone designator) are read and recorded only.
func c19CheckInstantSpellings(c *rig.Ctx, tm time.Time) int {
	u := tm.UTC()
	base := fmt.Sprintf("%04d-%02d-%02dT%02d:%02d:%02d", u.Year(), int(u.Month()), u.Day(), u.Hour(), u.Minute(), u.Second())
	n := 0
	for _, sp := range []struct{ style, text string }{{"Z", base + "Z"}, {"fraction-0", base + ".0Z"}, {"fraction-000", base + ".000Z"}, {"fraction-9-zeros", base + ".000000000Z"}} {
		d := model.DateTimeType(sp.text)
		got, err := d.GetTime()
		if err != nil || !got.Equal(tm) {
			c.Violate("instant-text/"+sp.style+"/datetime-misread", "DateTimeType(%q).GetTime() = %v, err=%v; the text denotes %v", sp.text, got, err, u)
		}
		a := model.AbsoluteOrRelativeTimeType(sp.text)
		got, err = a.GetTime()
		if err != nil || !got.Equal(tm) {
			c.Violate("instant-text/"+sp.style+"/absolute-time-misread", "AbsoluteOrRelativeTimeType(%q).GetTime() = %v, err=%v; the text denotes %v", sp.text, got, err, u)
		}
		if a.IsRelativeTime() {
			c.Violate("instant-text/"+sp.style+"/taken-as-relative", "AbsoluteOrRelativeTimeType(%q).IsRelativeTime() = true", sp.text)
		}
		c.Seen("instant_spellings_judged", sp.style)
		n++
	}
	l := u.In(time.FixedZone("", 2*3600))
	for _, sp := range []struct{ style, text string }{{"offset +00:00", base + "+00:00"}, {"no zone designator", base},
		{"offset +02:00", fmt.Sprintf("%04d-%02d-%02dT%02d:%02d:%02d+02:00", l.Year(), int(l.Month()), l.Day(), l.Hour(), l.Minute(), l.Second())}} {
		d := model.DateTimeType(sp.text)
		got, err := d.GetTime()
		out := "read as the instant"
		if err != nil {
			out = "rejected"
		} else if !got.Equal(tm) {
			out = "read as another instant"
		}
		c.Seen("instant_spellings_observed_not_judged", sp.style+": "+out)
	}
	return n
}

func c19InstantsLandmarks(c *rig.Ctx) {
	n, zero, outside := 0, 0, 0
	kinds := map[string]bool{}
	var ex []string
	zones := c19Zones()
	for _, lm := range c19InstantLandmarks() {
		for _, off := range []time.Duration{-time.Second, 0, time.Second} {
			t := lm.t.Add(off)
			if t.Before(c19InstantLo) || t.After(c19InstantHi) {
				// outside the years 1-9999 of the textual form: read and recorded, not judged
				a := model.NewDateTimeTypeFromTime(t)
				_, err := a.GetTime()
				c.Seen("instants_outside_years_1-9999_observed_not_judged", fmt.Sprintf("%s err=%v", string(*a), err != nil))
				outside++
				continue
			}
			kinds[lm.kind] = true
			for _, z := range zones {
				tm := t.In(z)
				if lm.t.IsZero() && off == 0 && z == time.UTC {
					tm = time.Time{} // the value itself, not a copy that went through a conversion
				}
				if tm.IsZero() {
					zero++
				}
				text := c19CheckInstant(c, tm)
				if z == time.UTC {
					n += c19CheckInstantSpellings(c, tm)
					if len(ex) < 8 && off == 0 && len(kinds)%4 == 1 {
						ex = append(ex, lm.kind+": "+text)
					}
				}
				n++
			}
		}
	}
	for k := range kinds {
		c.Seen("instant_landmark_kinds", k)
	}
	c.Count("instant_landmarks_judged", int64(n))
	c.Count("instants_equal_to_the_zero_value_of_time.Time", int64(zero))
	c.Events(int64(n))
	c.Shape("instant landmarks (range ends, zero value, unix landmarks, field widths, month and day ends) +-1s x 9 zones, other spellings")
	c.NonTrivial(n >= 1000 && zero > 0)
	c.Sample(map[string]any{"instants_and_spellings": n, "outside_years_1-9999_not_judged": outside, "examples": ex})
}

// c19InstantsCarried: instants as an application holds them - derived from time.Now(), i.e. carrying a monotonic clock
// reading, moved by whole seconds; and random instants in the spellings of c19CheckInstantSpellings.
func c19InstantsCarried(c *rig.Ctx) {
	n, mono := 0, 0
	base := time.Now()
	base = base.Add(-time.Duration(base.Nanosecond()))
	for i := 0; i < 1500; i++ {
		var span int64 = 50 * 365 * 86400
		if i%3 == 0 {
			span = 86400
		}
		tm := base.Add(time.Duration(c.Rand.Int63n(2*span)-span) * time.Second)
		if i%4 == 0 {
			tm = tm.In(time.FixedZone("x", (c.Rand.Intn(27)-13)*3600))
		}
		if strings.Contains(tm.String(), " m=") {
			mono++
		}
		c19CheckInstant(c, tm)
		n++
	}
	lo, hi := c19InstantLo.Unix(), c19InstantHi.Unix()
	for i := 0; i < 2500; i++ {
		tm := time.Unix(lo+c.Rand.Int63n(hi-lo+1), 0).UTC()
		n += c19CheckInstantSpellings(c, tm)
	}
	c.Count("instants_carrying_a_monotonic_reading", int64(mono))
	c.Count("instants_read_from_other_spellings", int64(n-1500))
	c.Events(int64(n))
	c.Shape("instants derived from time.Now() (monotonic reading) and random instants in other spellings")
	c.NonTrivial(n >= 1000 && mono >= 100)
	c.Sample(map[string]any{"now_derived": 1500, "of_them_with_monotonic_reading": mono, "spelled": n - 1500})
}

// ---- time periods: landmark values of the relative end time ---------------------------------------------------------

func c19PeriodLandmarks() []time.Duration {
	var l []time.Duration
	for _, s := range []int64{0, 1, 2, 9, 10, 59, 60, 61, 119, 120, 599, 600, 3599, 3600, 3601, 7200, 35999, 36000, 86399, 86400, 86401, 172800, 604800, 2592000, 31536000,
		3277*3600 - 1, 3277 * 3600, 3277*3600 + 1, 3276 * 86400, 3276*86400 + 86399} {
		l = append(l, time.Duration(s)*time.Second)
	}
	for _, ms := range []int64{100, 400, 500, 600, 900, 1100, 1500, 59500, 59900, 3599900} { // not whole seconds
		l = append(l, time.Duration(ms)*time.Millisecond)
	}
	return l
}
