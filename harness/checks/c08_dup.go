package checks

import (
	"encoding/json"
	"fmt"
	"sort"
	"strings"
	"sync"
	"sync/atomic"
	"time"

	"github.com/anishathalye/porcupine"
	"github.com/enbility/spine-go/api"
	"github.com/enbility/spine-go/model"

	"verifharness/rig"
)

// C08, part "dup": requests for ONE AND THE SAME pair of ONE peer that overlap in time.
//
// "Granted exactly when ... the same pair is not subscribed already; a delete ... fails if it does not exist" is a
// statement about the pair, whoever delivers the request and whenever. The duplicate rule can only be broken by requests
// of the SAME peer for the SAME pair - the one conflict the other concurrent parts never produce (conc: one goroutine per
// peer, conc-rmw: every actor owns its pairs). Two requests for an absent pair that overlap must end with exactly one
// grant, one entry, one event and one notification per change; two deletes of a present pair with exactly one success.
// A duplicate check (or a delete) that is not one critical section with the insertion (the store) - check-then-act,
// read lock for the check and write lock for the append, snapshot-filter-store - breaks this without any data race.
//
// How requests of one peer come to overlap: the registry calls are exported API (DeviceLocal.SubscriptionManager():
// AddSubscription / RemoveSubscription take the remote device as a parameter and are what the NodeManagement feature
// calls for a received request), and SHIP hands the messages buffered during the handshake to HandleShipPayloadMessage
// from another goroutine than its reader. Each goroutine of a duel uses one of the two routes: the wire
// (a marshalled nodeManagementSubscriptionRequestCall / DeleteCall datagram, answered by a result) or the manager call
// (answered by the returned error).
//
// There is no hook point inside AddSubscription / RemoveSubscription. Reach comes from (1) the collaborator the manager
// calls take as a parameter: the goroutines that use the manager route share a device object whose every answer is a
// bounded rendezvous (c08YieldDevice) - it aligns them in front of the manager's lock and lets a second caller into a check
// that is not one critical section with its modification -, (2) a spin barrier that releases the goroutines of a duel
// together, (3) the size of the registry - the duplicate check and the delete walk every entry, so a registry pre-filled
// with entries of bystander connections on other server features (and of the actor itself: same client on other servers,
// other clients on the same server) IS the window for the callers on the wire route -, and (4) repetition: 12-32 rounds
// per case. Nothing is judged on wall-clock time: every verdict is on the answers, on call/return stamps from one atomic
// counter (porcupine, per pair, register model), and on the registry, the events and one fan-out probe at the quiescent
// point after every round.

type c08DupIn struct {
	Op string // sub | unsub | snapshot
}
type c08DupOut struct {
	OK      bool
	Present bool // snapshot
}

func c08DupModel(init bool) porcupine.Model {
	return porcupine.Model{
		Init: func() any { return init },
		Step: func(st, in, out any) (bool, any) {
			p, i, o := st.(bool), in.(c08DupIn), out.(c08DupOut)
			switch i.Op {
			case "sub":
				if p {
					return !o.OK, p
				}
				return o.OK, true
			case "unsub":
				if !p {
					return !o.OK, p
				}
				return o.OK, false
			case "snapshot":
				return o.Present == p, p
			}
			return false, p
		},
		DescribeOperation: func(in, out any) string {
			i, o := in.(c08DupIn), out.(c08DupOut)
			if i.Op == "snapshot" {
				return fmt.Sprintf("registry lists the pair: %v", o.Present)
			}
			return fmt.Sprintf("%s -> %v", i.Op, o.OK)
		},
	}
}

// c08Spin releases n goroutines at (almost) the same instant: each announces itself and spins briefly until all have
// (on a busy machine it then parks instead of burning the CPU the late comer is waiting for).
type c08Spin struct {
	n       int32
	arrived atomic.Int32
	all     chan struct{}
}

func newC08Spin(n int) *c08Spin { return &c08Spin{n: int32(n), all: make(chan struct{})} }

func (b *c08Spin) wait() {
	if b.arrived.Add(1) == b.n {
		close(b.all)
		return
	}
	for i := 0; i < 3000; i++ {
		if b.arrived.Load() >= b.n {
			return
		}
	}
	<-b.all
}

// c08YieldDevice is the remote device handed to the manager calls of a duel: the actor's real device object, except that
// every question the manager asks it (its SKI, its address, one of its features) is a yield point at which the goroutine
// waits - bounded, see eBarrier - for another goroutine of the duel to ask a question too. Questions asked before the
// manager takes its lock align the goroutines right in front of it; questions asked INSIDE a critical section find no
// partner (the other one waits for the lock: one expiry, after which the barrier is spent for that round), while a check
// that is not one critical section with the modification lets the partner in, and both pass it.
// Answers are the real device's; only the timing differs. Forced and expired rendezvous are counted, never judged.
type c08YieldDevice struct {
	api.DeviceRemoteInterface
	bar *eBarrier
}

func (d *c08YieldDevice) Ski() string { d.bar.arrive(nil); return d.DeviceRemoteInterface.Ski() }
func (d *c08YieldDevice) Address() *model.AddressDeviceType {
	d.bar.arrive(nil)
	return d.DeviceRemoteInterface.Address()
}
func (d *c08YieldDevice) FeatureByAddress(a *model.FeatureAddressType) api.FeatureRemoteInterface {
	d.bar.arrive(nil)
	return d.DeviceRemoteInterface.FeatureByAddress(a)
}
func (d *c08YieldDevice) Entity(id []model.AddressEntityType) api.EntityRemoteInterface {
	d.bar.arrive(nil)
	return d.DeviceRemoteInterface.Entity(id)
}

type c08DupPair struct {
	name     string
	cli      rkPeerFeat
	srv      api.FeatureLocalInterface
	srvName  string
	typ      model.FeatureTypeType
	fn       model.FunctionType
	present  bool // reference: what the acknowledged calls leave (followed at every quiescent point)
	ckey     string
	skey     string
	annClass string
}

type c08DupCall struct {
	gor       int
	pair      int
	sub       bool
	route     string // wire | api
	omitDev   bool   // wire route: the client address omits the device part (same pair, other rendering)
	mc        model.MsgCounterType
	call, ret int64
	ok        bool
	results   int
}

func (x c08DupCall) String() string {
	op := "unsubscribe"
	if x.sub {
		op = "subscribe"
	}
	r := x.route
	if x.omitDev {
		r += ",client-device-omitted"
	}
	return fmt.Sprintf("[%d,%d] g%d %s pair%d (%s) -> ok=%v", x.call, x.ret, x.gor, op, x.pair, r, x.ok)
}

func c08Dup(c *rig.Ctx) {
	w := rig.NewWorld(c.Tag())
	defer w.Close()
	r := c.Rand
	T := len(rkRmwTypes)
	E := []int{1, 2, 4, 8, 16}[r.Intn(5)]
	if c.Race && E > 4 {
		E = 4 // the race build is 5-10x slower, and the detector does not need the window the registry size gives
	}
	srv := make([][]api.FeatureLocalInterface, E)
	for e := 0; e < E; e++ {
		ent := w.AddEntity(model.EntityTypeTypeCEM, []uint{uint(e + 1)}, 4*time.Second)
		for _, t := range rkRmwTypes {
			srv[e] = append(srv[e], ent.GetOrAddFeature(t, model.RoleTypeServer))
		}
	}
	// the peers' tree: client [1]/t+1 of type t, and two more DeviceClassification clients: [1]/T+1 and [2]/1 (the feature
	// number of the first one in another entity)
	extraA := rkPeerFeat{Name: "x", Ent: []uint{1}, Id: uint(T + 1), Typ: rkRmwTypes[0], Role: model.RoleTypeClient}
	extraB := rkPeerFeat{Name: "y", Ent: []uint{2}, Id: 1, Typ: rkRmwTypes[0], Role: model.RoleTypeClient}
	cliOf := func(t int) rkPeerFeat {
		return rkPeerFeat{Name: fmt.Sprint("c", t), Ent: []uint{1}, Id: uint(t + 1), Typ: rkRmwTypes[t], Role: model.RoleTypeClient}
	}
	tree := []rig.FS{rig.NMFS}
	for t := range rkRmwTypes {
		tree = append(tree, cliOf(t).FS())
	}
	tree = append(tree, extraA.FS(), extraB.FS())
	nBy := 1 + r.Intn(2)
	for i := 0; i <= nBy; i++ { // peer 0 acts, the others are bystanders
		p := w.AddPeer(i)
		p.Ctr = uint64(i+1) * 1000000
		p.Announce(tree)
		p.Tap.Take()
	}
	actor := w.Peers[0]
	mgr := w.Local.SubscriptionManager()
	fns := []model.FunctionType{model.FunctionTypeDeviceClassificationUserData, model.FunctionTypeIdentificationListData}

	// the duelled pairs: X = actor's [1]/1 -> a DeviceClassification server; Y (every second case) = a neighbour of X
	e0 := r.Intn(E)
	pairs := []*c08DupPair{{name: "X", cli: cliOf(0), srv: srv[e0][0], typ: rkRmwTypes[0], fn: fns[0]}}
	yKind := "none"
	if r.Intn(2) == 0 {
		yk := r.Intn(3)
		if E == 1 && yk == 0 {
			yk = 1
		}
		switch yk {
		case 0:
			yKind = "same-client-other-server"
			pairs = append(pairs, &c08DupPair{name: "Y", cli: cliOf(0), srv: srv[(e0+1)%E][0], typ: rkRmwTypes[0], fn: fns[0]})
		case 1:
			yKind = "other-client-same-server"
			pairs = append(pairs, &c08DupPair{name: "Y", cli: extraB, srv: srv[e0][0], typ: rkRmwTypes[0], fn: fns[0]})
		default:
			yKind = "other-type-same-entity"
			pairs = append(pairs, &c08DupPair{name: "Y", cli: cliOf(1), srv: srv[e0][1], typ: rkRmwTypes[1], fn: fns[1]})
		}
	}
	announced := map[api.FeatureLocalInterface]string{}
	for _, pr := range pairs {
		pr.ckey, pr.skey = pr.cli.Key(actor), rkKey(pr.srv.Address())
		if _, done := announced[pr.srv]; !done {
			announced[pr.srv] = c08AnnClasses[r.Intn(len(c08AnnClasses))]
			c08Announce(pr.srv, pr.fn, announced[pr.srv])
		}
		pr.annClass = announced[pr.srv]
	}
	isDuelled := func(p *rig.Peer, ca, sa *model.FeatureAddressType) bool {
		for _, pr := range pairs {
			if p == actor && rkKey(ca) == pr.ckey && rkKey(sa) == pr.skey {
				return true
			}
		}
		return false
	}

	// ---- pre-fill (sequential): bystanders on (almost) every server feature, the actor's neighbours of the duelled pairs
	fillMode := []string{"full", "full", "full", "sparse", "none"}[r.Intn(5)]
	nFill := 0
	ref := map[*rig.Peer]map[string]bool{} // connection -> "client>server" of its entries besides the duelled pairs
	for _, p := range w.Peers {
		ref[p] = map[string]bool{}
	}
	fill := func(p *rig.Peer, f rkPeerFeat, s api.FeatureLocalInterface) bool {
		ca, sa := f.Addr(p, true), s.Address()
		if isDuelled(p, ca, sa) || ref[p][rkKey(ca)+">"+rkKey(sa)] {
			return true
		}
		mc := p.Subscribe(ca, sa, f.Typ)
		if ok, _, _ := rkResultOf(p.Tap.Take(), mc); ok != 1 {
			c.Violate("dup/setup-refused", "the sequential request %s > %s of peer %s was refused while the registry was being filled", rkKey(ca), rkKey(sa), p.Addr)
			return false
		}
		ref[p][rkKey(ca)+">"+rkKey(sa)] = true
		nFill++
		return true
	}
	if fillMode != "none" {
		for e := 0; e < E; e++ {
			for t := 0; t < T; t++ {
				if fillMode == "sparse" && r.Intn(6) > 0 {
					continue
				}
				by := w.Peers[1+r.Intn(nBy)]
				if !fill(by, cliOf(t), srv[e][t]) {
					return
				}
			}
		}
	}
	// neighbours: the bystander's pair with the SAME numbers, the actor's other clients on the duelled server, the actor's
	// duelled client on other servers of its type
	for _, pr := range pairs {
		for i := 1; i <= nBy; i++ {
			if r.Intn(3) > 0 && !fill(w.Peers[i], pr.cli, pr.srv) {
				return
			}
		}
		if pr.typ == rkRmwTypes[0] {
			for _, f := range []rkPeerFeat{extraA, extraB, cliOf(0)} {
				if r.Intn(2) == 0 && !fill(actor, f, pr.srv) {
					return
				}
			}
			for k := 0; k < 3; k++ {
				if !fill(actor, pr.cli, srv[r.Intn(E)][0]) {
					return
				}
			}
		}
	}
	// initial state of the duelled pairs
	for _, pr := range pairs {
		if r.Intn(2) == 0 {
			mc := actor.Subscribe(pr.cli.Addr(actor, true), pr.srv.Address(), pr.typ)
			if ok, _, _ := rkResultOf(actor.Tap.Take(), mc); ok != 1 {
				c.Violate("dup/setup-refused", "the sequential request for pair %s was refused", pr.name)
				return
			}
			pr.present = true
		}
	}
	snapOf := func(p *rig.Peer) (entries []string, ids map[uint64]int) {
		ids = map[uint64]int{}
		for _, en := range mgr.Subscriptions(p.RD) {
			entries = append(entries, rkFeatKey(en.ClientFeature)+">"+rkFeatKey(en.ServerFeature))
			ids[en.Id]++
		}
		sort.Strings(entries)
		return
	}
	bystandersBefore := map[*rig.Peer]string{}
	for _, p := range w.Peers[1:] {
		var es []string
		for _, en := range mgr.Subscriptions(p.RD) {
			es = append(es, fmt.Sprintf("#%d %s>%s", en.Id, rkFeatKey(en.ClientFeature), rkFeatKey(en.ServerFeature)))
		}
		sort.Strings(es)
		bystandersBefore[p] = strings.Join(es, " ")
	}
	w.Core.Take()
	for _, p := range w.Peers {
		p.Tap.Take()
	}

	var hist []string
	hist = append(hist, fmt.Sprintf("registry pre-filled with %d entries (%s; %d bystander connections, %d local entities x %d server features); pair Y: %s", nFill, fillMode, nBy, E, T, yKind))
	for _, pr := range pairs {
		hist = append(hist, fmt.Sprintf("pair %s = %s > %s (%s announced as %s), initially present=%v", pr.name, pr.ckey, pr.skey, pr.fn, pr.annClass, pr.present))
	}
	fail := func(sig, format string, a ...any) {
		c.Violate("dup/"+sig, "%s\n history:\n  %s", fmt.Sprintf(format, a...), strings.Join(hist, "\n  "))
	}
	rounds := c.Pick(12, 32)
	if c.Race {
		rounds = c.Pick(8, 16)
	}
	val := 0
	var shape []string
	yieldRounds, yieldForced, yieldExpired := 0, 0, 0
	overlapRounds, subDuelsAbsent, subDuelsAbsentOverl, unsubDuelsPresent, unsubDuelsPresentOverl, calls := 0, 0, 0, 0, 0, 0

	for round := 0; round < rounds && !c.Failed(); round++ {
		k := 2 + r.Intn(3)
		kind := []string{"subscribe", "subscribe", "subscribe", "unsubscribe", "unsubscribe", "mixed"}[r.Intn(6)]
		target := r.Intn(len(pairs))
		split := len(pairs) > 1 && r.Intn(4) == 0 // the goroutines are spread over both pairs
		// steer the state so that pure duels mostly meet the interesting initial state (absent for subscribe, present for delete)
		if !split && kind != "mixed" && r.Intn(4) > 0 {
			pr := pairs[target]
			want := kind == "unsubscribe"
			if pr.present != want {
				var mc model.MsgCounterType
				if want {
					mc = actor.Subscribe(pr.cli.Addr(actor, true), pr.srv.Address(), pr.typ)
				} else {
					mc = actor.Unsubscribe(pr.cli.Addr(actor, true), pr.srv.Address())
				}
				if ok, _, _ := rkResultOf(actor.Tap.Take(), mc); ok != 1 {
					fail("sequential/justified-request-refused", "round %d: the sequential request that prepares pair %s (present=%v wanted) was refused", round, pr.name, want)
					break
				}
				pr.present = want
				w.Core.Take()
			}
		}
		initial := make([]bool, len(pairs))
		for i, pr := range pairs {
			initial[i] = pr.present
		}
		plan := make([]c08DupCall, k)
		raw := make([][]byte, k)
		for g := range plan {
			x := c08DupCall{gor: g, pair: target, sub: kind == "subscribe", route: []string{"wire", "api", "api", "api"}[r.Intn(4)]}
			if kind == "mixed" {
				x.sub = r.Intn(2) == 0
			}
			if split {
				x.pair = r.Intn(len(pairs))
			}
			pr := pairs[x.pair]
			if x.route == "wire" {
				ca := pr.cli.Addr(actor, true)
				if r.Intn(5) == 0 {
					ca, x.omitDev = rkStripDevice(ca), true
				}
				x.mc = actor.NextCounter()
				cmd := model.CmdType{NodeManagementSubscriptionDeleteCall: &model.NodeManagementSubscriptionDeleteCallType{
					SubscriptionDelete: &model.SubscriptionManagementDeleteCallType{ClientAddress: ca, ServerAddress: pr.srv.Address()}}}
				if x.sub {
					t := pr.typ
					cmd = model.CmdType{NodeManagementSubscriptionRequestCall: &model.NodeManagementSubscriptionRequestCallType{
						SubscriptionRequest: &model.SubscriptionManagementRequestCallType{ClientAddress: ca, ServerAddress: pr.srv.Address(), ServerFeatureType: &t}}}
				}
				b, err := json.Marshal(rig.Datagram(model.CmdClassifierTypeCall, actor.NM(), rig.LNM, x.mc, true, nil, cmd))
				if err != nil {
					panic("harness: cannot marshal datagram: " + err.Error())
				}
				raw[g] = b
			}
			plan[g] = x
		}
		bar := newC08Spin(k)
		nAPI := 0
		for _, x := range plan {
			if x.route == "api" {
				nAPI++
			}
		}
		// the manager calls of this round share one yielding device object (pointless for a single caller: the real one then)
		var dev api.DeviceRemoteInterface = actor.RD
		var yb *eBarrier
		if nAPI >= 2 && round%4 != 3 {
			yb = newEBarrier(2, 3*time.Millisecond, 1)
			dev = &c08YieldDevice{DeviceRemoteInterface: actor.RD, bar: yb}
		}
		var wg sync.WaitGroup
		for g := range plan {
			wg.Add(1)
			go func(x *c08DupCall, b []byte) {
				defer wg.Done()
				pr := pairs[x.pair]
				ca, sa, t := pr.cli.Addr(actor, true), pr.srv.Address(), pr.typ
				bar.wait()
				x.call = rig.Seq()
				switch {
				case x.route == "wire":
					actor.Raw(b)
				case x.sub:
					x.ok = mgr.AddSubscription(dev, model.SubscriptionManagementRequestCallType{ClientAddress: ca, ServerAddress: sa, ServerFeatureType: &t}) == nil
				default:
					x.ok = mgr.RemoveSubscription(model.SubscriptionManagementDeleteCallType{ClientAddress: ca, ServerAddress: sa}, dev) == nil
				}
				x.ret = rig.Seq()
			}(&plan[g], raw[g])
		}
		done := make(chan struct{})
		go func() { wg.Wait(); close(done) }()
		select {
		case <-done:
		case <-time.After(60 * time.Second):
			c.Inconclusive("a duel did not finish within 60s (the progress watchdog decides whether this is a hang)")
			<-done
		}
		// ---- quiescent point
		if yb != nil {
			f, e := yb.stats()
			yieldRounds++
			yieldForced += f
			yieldExpired += e
		}
		outs := actor.Tap.Take()
		known := map[model.MsgCounterType]bool{}
		for g := range plan {
			x := &plan[g]
			if x.route == "wire" {
				res := rig.Classify(outs, x.mc)
				x.results = res.Success + res.Errors + res.Replies + res.OtherRef
				x.ok = res.Success == 1
				known[x.mc] = true
			}
		}
		sort.Slice(plan, func(i, j int) bool { return plan[i].call < plan[j].call })
		what := kind + "-duel"
		if split {
			what += "-on-two-pairs"
		}
		hist = append(hist, fmt.Sprintf("round %d: %d goroutines, %s, pair states before: %v", round, k, what, initial))
		overl := false
		for i, x := range plan {
			hist = append(hist, "  "+x.String())
			for _, y := range plan[i+1:] {
				if y.call < x.ret && y.pair == x.pair {
					overl = true
				}
			}
		}
		calls += k
		c.Events(int64(k))
		if overl {
			overlapRounds++
		}
		for _, x := range plan {
			if x.route == "wire" && x.results != 1 {
				fail("result-count", "%s: %d results on the connection", x, x.results)
			}
		}
		for _, d := range outs {
			if d.Header.MsgCounterReference == nil || !known[*d.Header.MsgCounterReference] {
				fail("unexpected-datagram", "round %d: the actor's connection received %s", round, rig.JS(d))
				break
			}
		}
		for qi, q := range w.Peers[1:] {
			if o := q.Tap.Take(); len(o) > 0 {
				fail("unexpected-datagram", "round %d: bystander %d received %s", round, qi+1, rig.JS(o[0]))
			}
		}
		// the answers, per pair: direct verdicts for the pure duels, the register model for everything
		okSubs, okUnsubs := 0, 0
		for pi, pr := range pairs {
			var mine []c08DupCall
			subs, unsubs, oks := 0, 0, 0
			for _, x := range plan {
				if x.pair != pi {
					continue
				}
				mine = append(mine, x)
				if x.sub {
					subs++
				} else {
					unsubs++
				}
				if x.ok {
					oks++
					if x.sub {
						okSubs++
					} else {
						okUnsubs++
					}
				}
			}
			n := 0
			for _, en := range mgr.SubscriptionsOnFeature(*pr.srv.Address()) {
				if en.ClientFeature != nil && en.ClientFeature.Device() == actor.RD && rkFeatKey(en.ClientFeature) == pr.ckey {
					n++
				}
			}
			c.Events(1)
			if len(mine) == 0 {
				if (n > 0) != pr.present || n > 1 {
					fail("registry/untouched-pair-changed", "round %d: nobody called for pair %s (present=%v), the registry lists it %d times", round, pr.name, pr.present, n)
				}
				continue
			}
			switch {
			case unsubs == 0 && !initial[pi] && oks > 1:
				fail(what+"/absent-pair-granted-more-than-once", "round %d: pair %s was absent, %d overlapping subscription requests for it were sent and %d were granted (the same pair is granted once; the others find it subscribed already)", round, pr.name, subs, oks)
			case unsubs == 0 && !initial[pi] && oks == 0:
				fail(what+"/absent-pair-granted-to-nobody", "round %d: pair %s was absent and justified, none of the %d requests was granted", round, pr.name, subs)
			case unsubs == 0 && initial[pi] && oks > 0:
				fail(what+"/subscribed-pair-granted-again", "round %d: pair %s was subscribed already, %d of %d requests were granted", round, pr.name, oks, subs)
			case subs == 0 && initial[pi] && oks > 1:
				fail(what+"/present-pair-removed-more-than-once", "round %d: pair %s was present, %d of the %d overlapping deletes succeeded (a delete fails if the pair does not exist)", round, pr.name, oks, unsubs)
			case subs == 0 && initial[pi] && oks == 0:
				fail(what+"/present-pair-removed-by-nobody", "round %d: pair %s was present, none of the %d deletes succeeded", round, pr.name, unsubs)
			case subs == 0 && !initial[pi] && oks > 0:
				fail(what+"/absent-pair-removed", "round %d: pair %s was absent, %d of %d deletes succeeded", round, pr.name, oks, unsubs)
			case n > 1:
				fail(what+"/pair-listed-twice", "round %d: the server feature %s lists the pair %s %d times after %d subscribe and %d delete calls (%d acknowledged) for it", round, pr.skey, pr.name, n, subs, unsubs, oks)
			}
			if unsubs == 0 && !initial[pi] && subs > 1 {
				subDuelsAbsent++
				if overl {
					subDuelsAbsentOverl++
				}
			}
			if subs == 0 && initial[pi] && unsubs > 1 {
				unsubDuelsPresent++
				if overl {
					unsubDuelsPresentOverl++
				}
			}
			if c.Failed() {
				break
			}
			var ops []porcupine.Operation
			for _, x := range mine {
				op := "unsub"
				if x.sub {
					op = "sub"
				}
				ops = append(ops, porcupine.Operation{ClientId: x.gor, Input: c08DupIn{Op: op}, Call: x.call, Output: c08DupOut{OK: x.ok}, Return: x.ret})
			}
			t := rig.Seq()
			ops = append(ops, porcupine.Operation{ClientId: 9, Input: c08DupIn{Op: "snapshot"}, Call: t, Output: c08DupOut{Present: n == 1}, Return: rig.Seq()})
			res, _ := porcupine.CheckOperationsVerbose(c08DupModel(initial[pi]), ops, 20*time.Second)
			c.Count("dup_porcupine:"+string(res), 1)
			c.Events(int64(len(ops)))
			switch res {
			case porcupine.Illegal:
				fail(what+"/not-linearizable", "round %d: the calls for pair %s (present=%v before) and the registry afterwards (lists it: %v) have no order in which every request is granted exactly when the pair is not subscribed and every delete succeeds exactly when it is", round, pr.name, initial[pi], n == 1)
			case porcupine.Unknown:
				c.Inconclusive("porcupine timed out (%d operations)", len(ops))
			}
			pr.present = n == 1
		}
		if c.Failed() {
			break
		}
		// events one to one
		ea, er := 0, 0
		for _, e := range w.Core.Take() {
			if e.P.EventType != api.EventTypeSubscriptionChange {
				continue
			}
			onPair := false
			for _, pr := range pairs {
				onPair = onPair || (rkFeatKey(e.P.Feature) == pr.ckey && rkFeatKey(e.P.LocalFeature) == pr.skey)
			}
			if e.P.Ski != actor.Ski || !onPair {
				fail("event-content", "round %d: event %s names neither of the duelled pairs of the actor", round, e.String())
			}
			if e.P.ChangeType == api.ElementChangeAdd {
				ea++
			} else if e.P.ChangeType == api.ElementChangeRemove {
				er++
			}
		}
		c.Events(int64(ea + er))
		if ea != okSubs || er != okUnsubs {
			fail(what+"/events-differ-from-results", "round %d: %d add and %d remove events for %d granted requests and %d successful deletes", round, ea, er, okSubs, okUnsubs)
		}
		// the lists: the actor's = its neighbours + the present duelled pairs, each once, distinct ids; the bystanders' untouched
		want := map[string]bool{}
		for k := range ref[actor] {
			want[k] = true
		}
		for _, pr := range pairs {
			if pr.present {
				want[pr.ckey+">"+pr.skey] = true
			}
		}
		got, ids := snapOf(actor)
		c.Events(1)
		if fmt.Sprint(got) != fmt.Sprint(rkSorted(want)) {
			fail(what+"/peer-list-differs", "round %d: Subscriptions(actor) = %v, the acknowledged calls leave %v", round, got, rkSorted(want))
		} else if len(ids) != len(got) {
			fail(what+"/ids-not-distinct", "round %d: Subscriptions(actor) has %d entries with %d distinct ids", round, len(got), len(ids))
		}
		for qi, q := range w.Peers[1:] {
			var es []string
			for _, en := range mgr.Subscriptions(q.RD) {
				es = append(es, fmt.Sprintf("#%d %s>%s", en.Id, rkFeatKey(en.ClientFeature), rkFeatKey(en.ServerFeature)))
			}
			sort.Strings(es)
			c.Events(1)
			if after := strings.Join(es, " "); after != bystandersBefore[q] {
				fail("bystander-entry-changed", "round %d: bystander %d did nothing; its entries changed:\n  before {%s}\n  after  {%s}", round, qi+1, bystandersBefore[q], after)
			}
		}
		// one data change on the (a) duelled server feature: exactly one notification per entry, on its own connection
		if !c.Failed() {
			pr := pairs[target]
			val++
			pr.srv.SetData(pr.fn, rkPayload(pr.fn, val))
			hist = append(hist, fmt.Sprintf("  SetData %s %s %s (fan-out probe)", pr.skey, pr.fn, rkToken(val)))
			for _, q := range w.Peers {
				wantDst := map[string]int{}
				for k := range ref[q] {
					if f := strings.SplitN(k, ">", 2); f[1] == pr.skey {
						wantDst[f[0]]++
					}
				}
				if q == actor {
					for _, p2 := range pairs {
						if p2.present && p2.skey == pr.skey {
							wantDst[p2.ckey]++
						}
					}
				}
				ns, others := rkNotifies(q.Tap.Take())
				c.Events(int64(len(ns)))
				gotDst := map[string]int{}
				for _, n := range ns {
					gotDst[n.Dst]++
					if n.Src != pr.skey || n.Fn != pr.fn || !rkHas(n.Value, val) {
						fail("fanout/wrong-notify", "round %d: the notify to %s comes from %s as %q and carries %s (SetData %s on %s)", round, n.Dst, n.Src, n.Fn, rig.JS(n.Value), rkToken(val), pr.skey)
					}
				}
				if len(others) > 0 {
					fail("fanout/unexpected-datagram", "round %d: %s received %s after SetData", round, q.Addr, rig.JS(others[0]))
				}
				for dst, n := range wantDst {
					switch g := gotDst[dst]; {
					case g == 0:
						fail("fanout/missing-notify", "round %d: subscriber %s received no notify for SetData on %s (%s announced as %s)", round, dst, pr.skey, pr.fn, pr.annClass)
					case g > n:
						fail("fanout/duplicate-notify", "round %d: subscriber %s received %d notifies for one SetData on %s", round, dst, g, pr.skey)
					}
				}
				for dst, g := range gotDst {
					if wantDst[dst] == 0 {
						fail("fanout/notify-to-non-subscriber", "round %d: %s received %d notifies for SetData on %s but is not subscribed to it", round, dst, g, pr.skey)
					}
				}
			}
			w.Core.Take()
		}
		c.Count("dup_rounds:"+what, 1)
		shape = append(shape, fmt.Sprintf("%s:%d:%v:%v", what, k, initial, overl))
		if len(hist) > 300 {
			hist = append(hist[:3:3], append([]string{"(earlier rounds dropped)"}, hist[len(hist)-150:]...)...)
		}
	}
	if n := actor.PanicCount(); n > 0 {
		c.Violate("dup/panic", "the stack panicked: %s", actor.Panics[n-1])
	}
	if c.Failed() {
		c.Witness(map[string]any{"history": hist})
	}
	c.Count("dup_rounds_whose_manager_calls_share_a_yielding_device", int64(yieldRounds))
	c.Count("dup_yield_points_where_two_calls_met", int64(yieldForced))
	c.Count("dup_yield_points_where_a_call_waited_alone_(inside_a_critical_section)", int64(yieldExpired))
	c.Count("dup_calls_judged", int64(calls))
	c.Count("dup_rounds_with_overlapping_calls_for_one_pair", int64(overlapRounds))
	c.Count("dup_subscribe_duels_for_an_absent_pair", int64(subDuelsAbsent))
	c.Count("dup_subscribe_duels_for_an_absent_pair_with_overlapping_calls", int64(subDuelsAbsentOverl))
	c.Count("dup_delete_duels_for_a_present_pair", int64(unsubDuelsPresent))
	c.Count("dup_delete_duels_for_a_present_pair_with_overlapping_calls", int64(unsubDuelsPresentOverl))
	c.Count(fmt.Sprintf("dup_cases_with_%d_prefilled_entries_or_more", nFill/50*50), 1)
	c.Count("dup_cases_pair_Y:"+yKind, 1)
	c.Shape(rkHash(append(shape, fmt.Sprint(E, nBy, fillMode, yKind))...))
	c.NonTrivial(subDuelsAbsentOverl > 0 && unsubDuelsPresentOverl > 0)
	tail := hist
	if len(tail) > 80 {
		tail = append(tail[:3:3], tail[len(tail)-70:]...)
	}
	c.Sample(map[string]any{"prefilled_entries": nFill, "rounds": rounds, "history": tail})
}
