package checks

import (
	"encoding/json"
	"fmt"
	"hash/fnv"
	"reflect"
	"sort"
	"strings"

	"github.com/enbility/spine-go/model"

	"verifharness/rig"
)

// C04 — write-protected elements stay untouched; remote writes are all-or-nothing.
//
// Real write datagrams from a bound peer against lists mixing changeable, unchangeable and flag-less
// elements. Everything demanded comes from the statement:
//
//	(a) an element whose flag is not true is neither modified nor deleted          <shape>/unwritable-modified|unwritable-deleted
//	(b) no element's flag differs afterwards                                        <shape>/flag-altered (a changeable element the write
//	                                                                                 addresses, or any element under a full write),
//	                                                                                 <shape>/protected-flag-altered (flag not true before),
//	                                                                                 <shape>/unaddressed-flag-altered
//	(c) elements the write does not address do not change                           <shape>/unaddressed-changed
//	(d) ... and do not influence acceptance: the same write against a second World
//	    that differs only in one unaddressed element (its flag, or its presence)
//	    gets the same verdict                                                       <shape>/unaddressed-influences-acceptance
//	(e) error result  => data exactly as before                                     <shape>/rejected-but-changed
//	(f) success       => data = fold of the write (C02's reference fold) with the
//	    flags carried over                                                          <shape>/acked-but-differs
//
// Whether a write that addresses only changeable elements must be accepted is not said by the
// statement (that is C03's subject); such rejections are counted, not judged.
//
// Open defects (known findings): a filter-less full write replaces the list whatever the flags say
// (D3: full/unwritable-modified, full/unwritable-deleted, full/flag-altered) and writes that mention the
// flag through a selector, an identifier-less item or a delete-elements filter alter it ON A CHANGEABLE
// ELEMENT THEY ADDRESS (D6: <shape with flag>/flag-altered). Inside these classes (e), (f, flags aside),
// (c) and (d) stay asserted; a flag that changes on a protected or on an unaddressed element has its own
// signature and is not covered by D6.
//
// The oracle's snapshots (the list handed to SetData, the state before the write, the state carried from
// one write of a history to the next) are DEEP copies taken before the write is delivered: the store
// hands out lists whose elements share every nested value with it, and a write that edits a nested value
// in place would otherwise edit the oracle's "before" along with the store.
//
// The ELEMENTS part of a delete filter is a dimension of its own (c04_elements.go): one element, two elements, SUB
// elements of a structured element ({timePeriod:{endTime:{}}}, aimed at sub elements a changeable element holds),
// alone, next to a selector and next to every kind of partial part (identifiers, selector, identifier-less). For a
// filter naming sub elements (f) accepts both readings the statement leaves open (the named sub elements go / the
// element that was named goes); (a)-(e) do not depend on the reading.
//
// Degenerate shapes and the histories they open (c04_degenerate.go): a delete filter that names neither a selector nor
// elements (alone, next to data, next to every partial part), and selector writes whose item carries identifiers —
// after which a list may hold several elements with the same identifiers; the history goes on from there.
//
// One history in three is BLIND: the store is set once and never read while 2-3 writes are delivered;
// the reference is carried forward from the verdicts on the tap alone (error result: unchanged; success:
// the fold) and the store is read once at the end                                 blind/<deviation>

var c04Fns = []model.FunctionType{
	model.FunctionTypeLoadControlLimitListData,
	model.FunctionTypeSetpointListData,
	model.FunctionTypeDeviceConfigurationKeyValueListData,
	model.FunctionTypeHvacOverrunListData,                              // control: no flag, one key
	model.FunctionTypeElectricalConnectionParameterDescriptionListData, // control: no flag, two keys
}

var c04FlagField = map[model.FunctionType]string{
	model.FunctionTypeLoadControlLimitListData:            "IsLimitChangeable",
	model.FunctionTypeSetpointListData:                    "IsSetpointChangeable",
	model.FunctionTypeDeviceConfigurationKeyValueListData: "IsValueChangeable",
}

var c04Shapes = []string{"full", "partial-ids", "partial-ids+unknown", "partial-ids+flag", "noid", "noid+flag", "selector", "selector+flag",
	"delete-selector", "delete-elements", "delete-elements(flag)", "delete-selector-elements", "delete-selector-elements(flag)", "delete-selector+partial-ids", "delete-elements+partial-ids", "delete-selector+selector",
	"selector(empty)", "delete-selector(empty)", c04OtherCombo, c04BareDelete, "selector+ids", "two-cmds"}

// c04OtherCombo: focal shape standing for the combinations of a delete part and a partial part that have no shape
// of their own above; a write drawn for it carries the name of the concrete combination (signatures, classes).
const c04OtherCombo = "delete+partial(other)"

// c04BareDelete: focal shape for writes whose delete filter carries cmdControl.delete and NOTHING else (neither a
// selector nor elements): alone with an empty function element, or next to data / a partial part (c04_degenerate.go)
const c04BareDelete = "delete-bare"

var c04BareVariants = []string{"delete-bare", "delete-bare", "delete-bare", "delete-bare+data", "delete-bare+partial-ids", "delete-bare+noid", "delete-bare+selector"}

var c04OtherCombos = []string{"delete-selector-elements+partial-ids", "delete-selector-elements+selector", "delete-elements+selector",
	"delete-selector+noid", "delete-elements+noid", "delete-selector-elements+noid"}

// shapes a blind history draws from: those for which the statement fixes the outcome of an accepted write
// and that lie outside the open findings D3/D6 (a full write and every write mentioning the flag are judged
// write by write only, where the known deviation can be told from a new one)
var c04BlindShapes = []string{"partial-ids", "partial-ids+unknown", "noid", "selector", "delete-selector", "delete-elements", "delete-selector-elements",
	"delete-selector+partial-ids", "delete-elements+partial-ids", "delete-selector+selector", "delete-selector(empty)", c04OtherCombo, c04BareDelete}

// sub-shapes of the two commands of a "two-cmds" datagram
var c04SubShapes = []string{"partial-ids", "selector", "delete-selector", "delete-selector-elements", "noid"}

const c04Dom = 6

func init() {
	rig.Register(&rig.Check{
		ID:    "C04",
		Floor: 200,
		Rule: "case = (list function of {loadControlLimitListData, setpointListData, deviceConfigurationKeyValueListData, two flag-less controls}, focal write shape of 22, block): histories of 1-3 real write datagrams " +
			"(delete filters name one or two elements or sub elements of a structured element; the focal shape delete+partial(other) stands for the six combinations of a delete part and a partial part without a shape of their own) " +
			"from a bound peer against a list of 1-4 identified elements (stored in any order, one list in six with an additional element without identifier) with flags true/false/absent (60% of the writes have the focal shape, the others a random one; " +
			"one flag-mentioning write in three carries nothing but the flag; selectors name one identifier or nothing at all; one shape puts two commands into one datagram; one shape carries a delete filter with neither selector nor elements, alone or next to data / a partial part; one shape is a selector write whose item carries identifiers of its own, after which the list may hold elements with equal identifiers and the history is extended by a write), every write judged against a deep copy of the state before it; " +
			"whenever the write leaves an element unaddressed the same write is also sent to a second World that differs only in that element's flag (or presence) and the verdicts are compared. " +
			"One history in three is blind: 2-3 writes back to back on a store that is set once and read once at the end, the reference carried forward from the verdicts on the tap. " +
			"A case is non-trivial if at least 20 writes were judged, at least one was accepted and (for flagged types) at least one rejected; distinct = distinct (function, focal shape, set of (shape, verdict, pair compared)).",
		Assumptions: []string{
			"write handling is synchronous when no approval callback is registered: the result datagram is on the tap when HandleSpineMesssage returns",
			"accepted = success result (ack requested) or silence (no ack requested); rejected = error result",
			"the addressed set: identifiers of a partial write, the selector match (every element for a selector that names no field), every element for identifier-less, delete-elements and filter-less writes; for a datagram with two commands the union",
			"what an accepted partial write through a selector that selects several elements leaves behind is not fixed by the statement: (f) is not applied to selector(empty); an accepted delete through the empty selector has deleted every element",
			"a delete filter whose elements name SUB elements of a structured element has, when accepted, removed the named sub elements from every element it addresses; whether their siblings inside the structured element stay or go is not fixed by the statement: both states are accepted (per command); everything else (protected, unaddressed, error => exactly unchanged) is demanded as for any other write",
			"a delete filter that names neither a selector nor elements: the write counts as addressing every element ((c), (d) not demanded); when accepted the store equals the fold of the rest of the write on the list as it was or on the emptied list; (a), (b), (e) are demanded as for any other write",
			"a selector write whose item carries identifiers addresses the selected element and the element with those identifiers; (f) is applied to it only if both are the same element; elements are paired before/after a write by identifiers and, among equal identifiers, by content (unchanged first, protected elements first); (f) is not applied to a write that addresses an element whose identifiers are not unique",
			"a write is the write datagram: a success result for a datagram with two commands says that the changes of both commands are applied",
			"that a write addressing only changeable elements is accepted is not demanded (C03); it is counted as expected-accept-but-rejected",
			"the items of a datagram are taken as the receiver decodes them (JSON fidelity is C18's subject)",
		},
		Parts: []rig.Part{{
			Name: "writes",
			Cases: func(t rig.Tier) int {
				if t == rig.Thorough {
					return len(c04Fns) * len(c04Shapes) * 34
				}
				return len(c04Fns) * len(c04Shapes) * 21
			},
			Run:   c04Case,
			Procs: 2,
		}},
	})
}

type c04Write struct {
	shape     string
	u         rig.Update
	u2        *rig.Update  // second command of the same datagram (shape two-cmds)
	emptySel  bool         // the selector of the filter names no field at all ({}): it selects every element
	addressed map[int]bool // identifiers (of the domain) the write addresses; may name absent elements
	all       bool         // addresses every element
	flagShape bool         // the write mentions the flag
	flagOnly  bool         // ... and nothing else
	elemText  string       // the elements part of the delete filter, rendered
	elemForm  string       // what the elements part of the delete filter names: one | two | sub | two(sub) (c04_elements.go)
	bare      bool         // the command carries a delete filter with neither selector nor elements (c04_degenerate.go)
	selIds    int          // selector+ids: the identifier the data item of the selector write carries (-1: none)
}

func (w *c04Write) String() string {
	s := w.u.String()
	if w.elemText != "" {
		s += " [delete filter names " + w.elemText + "]"
	}
	if w.emptySel {
		s += " [selector replaced by the empty selector {}]"
	}
	if w.bare {
		s += " [the command carries a delete filter {cmdControl:{delete:{}}} without selector and without elements]"
	}
	if w.u2 != nil {
		s += " || second command: " + w.u2.String()
	}
	return s
}

// c04Deep copies a value with everything it points to.
func c04Deep(v reflect.Value) reflect.Value {
	switch v.Kind() {
	case reflect.Ptr:
		if v.IsNil() {
			return reflect.Zero(v.Type())
		}
		p := reflect.New(v.Type().Elem())
		p.Elem().Set(c04Deep(v.Elem()))
		return p
	case reflect.Struct:
		s := reflect.New(v.Type()).Elem()
		s.Set(v)
		for i := 0; i < v.NumField(); i++ {
			if s.Field(i).CanSet() {
				s.Field(i).Set(c04Deep(v.Field(i)))
			}
		}
		return s
	case reflect.Slice:
		if v.IsNil() {
			return reflect.Zero(v.Type())
		}
		s := reflect.MakeSlice(v.Type(), v.Len(), v.Len())
		for i := 0; i < v.Len(); i++ {
			s.Index(i).Set(c04Deep(v.Index(i)))
		}
		return s
	case reflect.Interface:
		if v.IsNil() {
			return reflect.Zero(v.Type())
		}
		s := reflect.New(v.Type()).Elem()
		s.Set(c04Deep(v.Elem()))
		return s
	}
	return v
}

func c04DeepItems(in []reflect.Value) []reflect.Value {
	out := make([]reflect.Value, len(in))
	for i, v := range in {
		out[i] = c04Deep(v)
	}
	return out
}

func c04Changeable(li *rig.ListInfo, it reflect.Value) bool {
	if li.WriteCheck < 0 {
		return true
	}
	f := it.Field(li.WriteCheck)
	return !f.IsNil() && f.Elem().Bool()
}

func c04SetFlag(li *rig.ListInfo, it reflect.Value, v int) { // 0 absent, 1 true, 2 false
	if li.WriteCheck < 0 {
		return
	}
	f := it.Field(li.WriteCheck)
	if v == 0 {
		f.Set(reflect.Zero(f.Type()))
		return
	}
	b := reflect.New(f.Type().Elem())
	b.Elem().SetBool(v == 1)
	f.Set(b)
}

// withoutFlag renders an item with the flag field blanked.
func c04NoFlag(li *rig.ListInfo, items []reflect.Value) []reflect.Value {
	out := rig.CloneItems(items)
	for _, it := range out {
		c04SetFlag(li, it, 0)
	}
	return out
}

// c04Key: the identifier of a stored element; the (at most one) element without identifier has its own key.
func c04Key(li *rig.ListInfo, it reflect.Value) string {
	if k, ok := li.KeyOf(it); ok {
		return k
	}
	return "<no identifier>"
}

func c04ByKey(li *rig.ListInfo, items []reflect.Value) map[string]reflect.Value {
	m := map[string]reflect.Value{}
	for _, it := range items {
		m[c04Key(li, it)] = it
	}
	return m
}

// payloadFields: non-key, non-flag pointer fields of the item type.
func c04PayloadFields(li *rig.ListInfo) []int {
	var fs []int
	for _, i := range li.NonKeyPtr {
		if i != li.WriteCheck {
			fs = append(fs, i)
		}
	}
	return fs
}

// c04Item generates a write item (no flag) that carries at least one payload field.
func c04Item(c *rig.Ctx, li *rig.ListInfo, id int) reflect.Value {
	pf := c04PayloadFields(li)
	var it reflect.Value
	for try := 0; try < 6; try++ {
		it = li.NewItem(c.Rand, id)
		c04SetFlag(li, it, 0)
		some := len(pf) == 0
		for _, i := range pf {
			if !it.Field(i).IsNil() {
				some = true
			}
		}
		if some {
			break
		}
	}
	return it
}

// c04Ids: the identifiers of the domain carried by the elements of a list, ascending, with their elements.
func c04Ids(li *rig.ListInfo, items []reflect.Value) (ids []int, byId map[int]reflect.Value) {
	byId = map[int]reflect.Value{}
	for id := 0; id < c04Dom; id++ {
		for _, it := range items {
			if li.Matches(it, id) {
				if _, dup := byId[id]; !dup {
					ids = append(ids, id)
				}
				byId[id] = it
			}
		}
	}
	return ids, byId
}

// c04GenWrite draws a write of the given shape against old (any order; at most one element without identifier).
func c04GenWrite(c *rig.Ctx, li *rig.ListInfo, shape string, old []reflect.Value) (w c04Write, ok bool) {
	r := c.Rand
	w = c04Write{shape: shape, addressed: map[int]bool{}, u: rig.Update{SelKey: -1, DelSel: -1}, selIds: -1}
	w.flagShape = strings.Contains(shape, "flag")
	if w.flagShape && li.WriteCheck < 0 {
		return w, false
	}
	ids, byId := c04Ids(li, old)
	if len(ids) == 0 || len(old) == 0 {
		return w, false
	}
	var absent []int
	for id := 0; id < c04Dom; id++ {
		if _, in := byId[id]; !in {
			absent = append(absent, id)
		}
	}
	inverse := func(it reflect.Value) int { // the flag value that would alter it
		if c04Changeable(li, it) {
			return 2
		}
		return 1
	}
	subset := func() []int {
		k := 1 + r.Intn(len(ids))
		s := append([]int(nil), ids...)
		r.Shuffle(len(s), func(a, b int) { s[a], s[b] = s[b], s[a] })
		return s[:k]
	}
	pick := func() int { // mostly an existing identifier
		if len(absent) > 0 && r.Intn(8) == 0 {
			return absent[r.Intn(len(absent))]
		}
		return ids[r.Intn(len(ids))]
	}
	pf := c04PayloadFields(li)
	// one flag-mentioning write in three carries the flag and nothing else
	w.flagOnly = w.flagShape && r.Intn(3) == 0
	strip := func(it reflect.Value) {
		if w.flagOnly {
			for _, i := range pf {
				it.Field(i).Set(reflect.Zero(it.Field(i).Type()))
			}
		}
	}
	switch shape {
	case "full":
		w.u.Kind, w.all = "full", true
		sel := subset()
		if len(absent) > 0 && r.Intn(4) == 0 {
			sel = append(sel, absent[r.Intn(len(absent))])
		}
		sort.Ints(sel)
		for _, id := range sel {
			w.u.Items = append(w.u.Items, c04Item(c, li, id))
		}
	case "partial-ids", "partial-ids+unknown", "partial-ids+flag":
		w.u.Kind = "partial"
		for _, id := range subset() {
			it := c04Item(c, li, id)
			if w.flagShape {
				c04SetFlag(li, it, inverse(byId[id]))
				strip(it)
			}
			w.u.Items = append(w.u.Items, it)
			w.addressed[id] = true
		}
		if shape == "partial-ids+unknown" {
			if len(absent) == 0 {
				return w, false
			}
			id := absent[r.Intn(len(absent))]
			w.u.Items = append(w.u.Items, c04Item(c, li, id))
			w.addressed[id] = true
		}
	case "noid", "noid+flag":
		w.u.Kind, w.all = "partial-noid", true
		it := c04Item(c, li, -1)
		if w.flagShape {
			c04SetFlag(li, it, inverse(old[r.Intn(len(old))]))
			strip(it)
		}
		w.u.Items = []reflect.Value{it}
	case "selector", "selector+flag", "selector(empty)":
		if !li.SelCoversKeys {
			return w, false
		}
		w.u.Kind = "partial-sel"
		w.u.SelKey = pick()
		it := c04Item(c, li, -1)
		if w.flagShape {
			if t, in := byId[w.u.SelKey]; in {
				c04SetFlag(li, it, inverse(t))
			} else {
				c04SetFlag(li, it, 1+r.Intn(2))
			}
			strip(it)
		}
		w.u.Items = []reflect.Value{it}
		w.addressed[w.u.SelKey] = true
		if shape == "selector(empty)" {
			w.emptySel, w.all = true, true
		}
	case "delete-selector", "delete-selector(empty)":
		if !li.SelCoversKeys {
			return w, false
		}
		w.u.Kind, w.u.DelSel = "delete-sel", pick()
		w.addressed[w.u.DelSel] = true
		if shape == "delete-selector(empty)" {
			w.emptySel, w.all = true, true
		}
	case "delete-elements", "delete-elements(flag)":
		w.u.Kind, w.all = "delete-elem", true
		if w.flagShape {
			w.u.DelElem = []int{li.WriteCheck}
			if !w.flagOnly && len(pf) > 0 { // the filter names payload elements next to the flag
				var form string
				if form, ok = c04DrawElements(r, li, &w.u, old); ok {
					w.u.DelElem = append([]int{li.WriteCheck}, w.u.DelElem...)
					w.elemForm = "flag+" + form
				}
			}
		} else if w.elemForm, ok = c04DrawElements(r, li, &w.u, old); !ok {
			return w, false
		}
	case "delete-selector-elements", "delete-selector-elements(flag)":
		if !li.SelCoversKeys {
			return w, false
		}
		w.u.Kind, w.u.DelSel = "delete-sel-elem", pick()
		if w.flagShape {
			w.u.DelElem = []int{li.WriteCheck}
			if !w.flagOnly && len(pf) > 0 { // the filter names payload elements next to the flag
				var form string
				if form, ok = c04DrawElements(r, li, &w.u, old); ok {
					w.u.DelElem = append([]int{li.WriteCheck}, w.u.DelElem...)
					w.elemForm = "flag+" + form
				}
			}
		} else if w.elemForm, ok = c04DrawElements(r, li, &w.u, old); !ok {
			return w, false
		}
		w.addressed[w.u.DelSel] = true
	case "delete-selector+partial-ids":
		if !li.SelCoversKeys {
			return w, false
		}
		w.u.Kind, w.u.DelSel = "del+partial", pick()
		w.addressed[w.u.DelSel] = true
		if r.Intn(4) == 0 {
			break // delete selector next to a partial filter with an empty list
		}
		for _, id := range subset() {
			w.u.Items = append(w.u.Items, c04Item(c, li, id))
			w.addressed[id] = true
		}
	case "delete-elements+partial-ids":
		if len(pf) == 0 {
			return w, false
		}
		w.u.Kind, w.all = "del+partial", true
		if w.elemForm, ok = c04DrawElements(r, li, &w.u, old); !ok {
			return w, false
		}
		for _, id := range subset() {
			w.u.Items = append(w.u.Items, c04Item(c, li, id))
			w.addressed[id] = true
		}
	case "delete-selector+selector":
		if !li.SelCoversKeys {
			return w, false
		}
		w.u.Kind, w.u.DelSel, w.u.SelKey = "del+sel", pick(), pick()
		w.u.Items = []reflect.Value{c04Item(c, li, -1)}
		w.addressed[w.u.DelSel], w.addressed[w.u.SelKey] = true, true
	case c04OtherCombo:
		return c04GenWrite(c, li, c04OtherCombos[r.Intn(len(c04OtherCombos))], old)
	case c04BareDelete:
		return c04GenBare(c, li, c04BareVariants[r.Intn(len(c04BareVariants))], old, ids)
	case "selector+ids":
		// a selector write whose data item carries identifiers of its own: those of another element (mostly), of
		// the selected element, or of no element of the list
		if !li.SelCoversKeys {
			return w, false
		}
		w.u.Kind = "partial-sel"
		w.u.SelKey = pick()
		var others []int
		for _, id := range ids {
			if id != w.u.SelKey {
				others = append(others, id)
			}
		}
		switch x := r.Intn(8); {
		case x == 0:
			w.selIds = w.u.SelKey
		case x == 1 && len(absent) > 0:
			w.selIds = absent[r.Intn(len(absent))]
		case len(others) > 0:
			w.selIds = others[r.Intn(len(others))]
		default:
			w.selIds = w.u.SelKey
		}
		w.u.Items = []reflect.Value{c04Item(c, li, w.selIds)}
		w.addressed[w.u.SelKey], w.addressed[w.selIds] = true, true
	case "delete-selector-elements+partial-ids", "delete-selector-elements+selector", "delete-elements+selector",
		"delete-selector+noid", "delete-elements+noid", "delete-selector-elements+noid":
		parts := strings.SplitN(shape, "+", 2)
		if strings.Contains(parts[0], "selector") {
			if !li.SelCoversKeys {
				return w, false
			}
			w.u.DelSel = pick()
			w.addressed[w.u.DelSel] = true
		} else {
			w.all = true
		}
		if strings.Contains(parts[0], "elements") {
			if w.elemForm, ok = c04DrawElements(r, li, &w.u, old); !ok {
				return w, false
			}
		}
		switch parts[1] {
		case "partial-ids":
			w.u.Kind = "del+partial"
			for _, id := range subset() {
				w.u.Items = append(w.u.Items, c04Item(c, li, id))
				w.addressed[id] = true
			}
		case "selector":
			if !li.SelCoversKeys {
				return w, false
			}
			w.u.Kind, w.u.SelKey = "del+sel", pick()
			w.u.Items = []reflect.Value{c04Item(c, li, -1)}
			w.addressed[w.u.SelKey] = true
		default:
			w.u.Kind, w.all = "del+noid", true
			w.u.Items = []reflect.Value{c04Item(c, li, -1)}
		}
	case "two-cmds":
		// two commands in one write datagram, each of a plain shape; both are drawn against the same list
		a, oka := c04GenWrite(c, li, c04SubShapes[r.Intn(len(c04SubShapes))], old)
		b, okb := c04GenWrite(c, li, c04SubShapes[r.Intn(len(c04SubShapes))], old)
		if !oka || !okb {
			return w, false
		}
		w.u, w.u2, w.all = a.u, &b.u, a.all || b.all
		w.elemForm = strings.Trim(a.elemForm+"|"+b.elemForm, "|")
		w.elemText = strings.Trim(a.elemText+" | "+b.elemText, " |")
		for id := range a.addressed {
			w.addressed[id] = true
		}
		for id := range b.addressed {
			w.addressed[id] = true
		}
		return w, true
	default:
		return w, false
	}
	_, fd, fok := li.Filters(w.u)
	if !fok {
		return w, false
	}
	if len(w.u.DelElem) > 0 && fd != nil {
		w.elemText = c04Presence(reflect.ValueOf(fd).Elem().Field(li.ElIdx))
	}
	return w, true
}

func (w *c04Write) addresses(li *rig.ListInfo, it reflect.Value) bool {
	if w.all {
		return true
	}
	for id := range w.addressed {
		if li.Matches(it, id) {
			return true
		}
	}
	return false
}

// c04Wire builds the write datagram (one or two commands) and returns it together with the updates as the
// receiver decodes them (see listWorld.wire). An empty selector replaces the generated one on the command.
func c04Wire(lw *listWorld, w *c04Write, ack bool) ([]byte, []rig.Update, model.MsgCounterType, error) {
	li := lw.li
	mc := lw.p.NextCounter()
	us := []rig.Update{w.u}
	if w.u2 != nil {
		us = append(us, *w.u2)
	}
	var cmds []model.CmdType
	for i := range us {
		// the order of the two filters of one command carries no meaning; drawn from the content, not from the
		// parity of the counter (which a regular history keeps in lockstep with the shape)
		h := fnv.New32a()
		h.Write([]byte(us[i].String()))
		us[i].PartialFirst = (h.Sum32()^uint32(mc>>1))&1 == 1
		cmd := li.Cmd(us[i])
		if w.emptySel {
			for k := range cmd.Filter {
				if f := reflect.ValueOf(&cmd.Filter[k]).Elem().Field(li.SelIdx); !f.IsNil() {
					f.Set(reflect.New(li.SelT))
				}
			}
		}
		if w.bare && i == 0 {
			c04AddBareDelete(li, &cmd, us[i].PartialFirst)
		}
		cmds = append(cmds, cmd)
	}
	dg := rig.Datagram(model.CmdClassifierTypeWrite, lw.peerCli, lw.local.Address(), mc, ack, nil, cmds[0])
	dg.Datagram.Payload.Cmd = cmds
	b, err := json.Marshal(dg)
	if err != nil {
		return nil, nil, mc, err
	}
	var d model.Datagram
	if err := json.Unmarshal(b, &d); err != nil {
		return nil, nil, mc, err
	}
	if len(d.Datagram.Payload.Cmd) != len(cmds) {
		return nil, nil, mc, fmt.Errorf("datagram decodes to %d commands", len(d.Datagram.Payload.Cmd))
	}
	for i := range us {
		cd, err := d.Datagram.Payload.Cmd[i].Data()
		if err != nil {
			return nil, nil, mc, err
		}
		if reflect.TypeOf(cd.Value) != li.PtrT {
			return nil, nil, mc, fmt.Errorf("payload decodes to %T", cd.Value)
		}
		us[i].Items = c04DeepItems(li.Items(cd.Value))
		if len(us[i].DelElem) > 0 {
			_, fdDec := d.Datagram.Payload.Cmd[i].ExtractFilter()
			if err := c04CheckElementsDecoded(li, us[i], fdDec); err != nil {
				return nil, nil, mc, err
			}
		}
		if w.bare && i == 0 {
			if err := c04CheckBareDecoded(&d.Datagram.Payload.Cmd[i]); err != nil {
				return nil, nil, mc, err
			}
		}
		if w.emptySel {
			fp, fd := d.Datagram.Payload.Cmd[i].ExtractFilter()
			n := 0
			for _, f := range []*model.FilterType{fp, fd} {
				if f == nil {
					continue
				}
				if s := reflect.ValueOf(f).Elem().Field(li.SelIdx); !s.IsNil() && s.Elem().IsZero() {
					n++
				}
			}
			if n != 1 {
				return nil, nil, mc, fmt.Errorf("the empty selector does not arrive as an empty selector")
			}
		}
	}
	return b, us, mc, nil
}

type c04Verdict struct {
	accepted, answered bool
	resp               string
	devs               []string // deviation classes
	detail             string
	notJudged          string // a clause that could not be applied to this write (counted)
}

func (v *c04Verdict) add(d string) {
	for _, x := range v.devs {
		if x == d {
			return
		}
	}
	v.devs = append(v.devs, d)
}

// c04Deliver sends the write and reads the verdict from the tap.
func c04Deliver(lw *listWorld, w *c04Write, ack bool) (v c04Verdict, urs []rig.Update) {
	b, urs, mc, err := c04Wire(lw, w, ack)
	if err != nil {
		v.devs = append(v.devs, "harness-wire")
		v.detail = err.Error()
		return v, nil
	}
	lw.p.Tap.Take()
	if rec := lw.p.Raw(b); rec != "" {
		v.devs = append(v.devs, "panic")
		v.detail = rec
		return v, urs
	}
	res := rig.Classify(lw.p.Tap.Take(), mc)
	v.resp = res.String()
	rejected := res.Errors > 0
	v.accepted = !rejected && (res.Success > 0 || !ack)
	v.answered = rejected || v.accepted
	if rejected && res.Success > 0 {
		v.add("answered-with-error-and-success")
	}
	return v, urs
}

// c04Send sets world lw to list old, sends the write and judges it against the statement.
func c04Send(c *rig.Ctx, lw *listWorld, w *c04Write, old []reflect.Value, ack bool) c04Verdict {
	li := lw.li
	// neither the list handed to the store nor the snapshot read back share memory with old or with each other
	lw.local.SetData(li.Fn, li.MkList(c04DeepItems(old)))
	pre := c04DeepItems(li.Items(lw.local.DataCopy(li.Fn)))
	preFP := rig.Multiset(pre) // the state before the write, rendered BEFORE the write is delivered
	if preFP != rig.Multiset(old) {
		return c04Verdict{devs: []string{"harness-setup"}, detail: "SetData did not store the list: " + renderItems(pre)}
	}
	v, urs := c04Deliver(lw, w, ack)
	if len(v.devs) > 0 && !v.answered {
		return v
	}
	got := c04DeepItems(li.Items(lw.local.DataCopy(li.Fn)))
	if !v.answered {
		return v
	}
	if rig.Multiset(pre) != preFP {
		v.add("harness-snapshot-changed")
		v.detail = "the deep copy taken before the write changed while the write was handled"
	}
	rejected := !v.accepted
	// (e) error => unchanged, exactly
	if rejected && rig.Multiset(got) != preFP {
		v.add("rejected-but-changed")
	}
	// element level: (a) protected elements, (b) flags, (c) unaddressed elements
	match := c04Match(li, pre, got)
	elementLevel := false
	for i, o := range pre {
		var g reflect.Value
		present := match[i] >= 0
		if present {
			g = got[match[i]]
		}
		sameButFlag := present && rig.Canon(c04NoFlag(li, []reflect.Value{g})[0]) == rig.Canon(c04NoFlag(li, []reflect.Value{o})[0])
		if !c04Changeable(li, o) {
			switch {
			case !present:
				v.add("unwritable-deleted")
				elementLevel = true
			case !sameButFlag:
				v.add("unwritable-modified")
				elementLevel = true
			}
		}
		if present && li.WriteCheck >= 0 && rig.Canon(g.Field(li.WriteCheck)) != rig.Canon(o.Field(li.WriteCheck)) {
			switch {
			case w.shape == "full": // D3 class: the list is replaced as a whole, flags included
				v.add("flag-altered")
			case !c04Changeable(li, o):
				v.add("protected-flag-altered")
			case !w.addresses(li, o):
				v.add("unaddressed-flag-altered")
			default: // D6 class: a changeable element the write addresses
				v.add("flag-altered")
			}
		}
		if !w.addresses(li, o) && (!present || !sameButFlag) {
			v.add("unaddressed-changed")
			elementLevel = true
		}
	}
	// (f) success => all changes applied: the fold, flags carried over from the old data
	if v.accepted && !elementLevel {
		if exp, ok := c04Folds(li, w, pre, urs); ok && !c04MatchesOne(li, got, exp) {
			first, _ := c04Folds(li, w, pre, urs[:1])
			switch {
			case w.shape == "partial-ids+unknown":
				v.add("unknown-id-acked-not-applied")
			case w.u2 != nil && c04MatchesOne(li, got, first):
				v.add("acked-but-second-command-not-applied")
			default:
				v.add("acked-but-differs")
			}
			v.detail = "fold (flags aside): " + c04RenderCands(li, exp)
		} else if !ok {
			v.notJudged = "acked-state"
		}
	}
	if len(v.devs) > 0 {
		v.detail = fmt.Sprintf("%s on %s, shape %s\n before: %s\n write:  %s\n answer: %s (ack requested: %v)\n after:  %s\n %s", "remote write", li.Fn, w.shape, renderItems(pre), w, v.resp, ack, renderItems(got), v.detail)
	}
	return v
}

// c04Blind: one blind history. The store is set once and not read until the end; the reference is carried
// forward from the verdicts on the tap. Returns the number of writes judged, accepted, rejected.
func c04Blind(c *rig.Ctx, lw *listWorld, focal string, start []reflect.Value) (judged, accepted, rejected int, hist []string) {
	li, r := lw.li, c.Rand
	initial := c04DeepItems(start)
	// the states the statement allows after the writes so far: one, unless an accepted delete named sub elements
	refs := [][]reflect.Value{c04DeepItems(start)}
	lw.local.SetData(li.Fn, li.MkList(c04DeepItems(start)))
	eligible := false
	for _, s := range c04BlindShapes {
		if s == focal {
			eligible = true
		}
	}
	writes := 2 + r.Intn(2)
	broken := false
	for k := 0; k < writes && len(refs[0]) > 0; k++ {
		shape := focal
		if !eligible || r.Intn(5) >= 3 {
			shape = c04BlindShapes[r.Intn(len(c04BlindShapes))]
		}
		ref := refs[0]
		w, ok := c04GenWrite(c, li, shape, ref)
		if !ok {
			continue
		}
		shape = w.shape
		ack := r.Intn(6) != 0
		v, urs := c04Deliver(lw, &w, ack)
		for _, d := range v.devs {
			c.Violate("blind/"+d, "%s %s in a blind history: %s\n history: %s", li.Fn, shape, v.detail, strings.Join(hist, "\n   "))
			broken = true
		}
		if !v.answered {
			if len(v.devs) == 0 {
				c.Inconclusive("%s %s: write with ack request got neither success nor error result (%s)", li.Fn, shape, v.resp)
			}
			broken = true
			break
		}
		judged++
		verdict := "rejected"
		if v.accepted {
			verdict = "accepted"
			accepted++
			var next [][]reflect.Value
			for _, rf := range refs {
				exp, ok := c04Folds(li, &w, rf, urs)
				if !ok {
					broken = true
					break
				}
				for _, e := range exp {
					next = append(next, c04DeepItems(e))
				}
			}
			if broken {
				break
			}
			refs = c04Dedup(li, next)
		} else {
			rejected++
		}
		c04CountElements(c, li, &w, ref, "blind-", verdict)
		c.Count("blind-writes:"+shape+":"+verdict, 1)
		hist = append(hist, fmt.Sprintf("%s %s -> %s (%s)", shape, w.String(), verdict, v.resp))
	}
	if broken || judged == 0 {
		return judged, accepted, rejected, hist
	}
	// the single read
	got := c04DeepItems(li.Items(lw.local.DataCopy(li.Fn)))
	var devs []string
	gotBy := c04ByKey(li, got)
	for _, o := range initial {
		g, present := gotBy[c04Key(li, o)]
		sameButFlag := present && rig.Canon(c04NoFlag(li, []reflect.Value{g})[0]) == rig.Canon(c04NoFlag(li, []reflect.Value{o})[0])
		if !c04Changeable(li, o) {
			switch {
			case !present:
				devs = append(devs, "unwritable-deleted")
			case !sameButFlag:
				devs = append(devs, "unwritable-modified")
			}
		}
		if present && li.WriteCheck >= 0 && rig.Canon(g.Field(li.WriteCheck)) != rig.Canon(o.Field(li.WriteCheck)) {
			devs = append(devs, "flag-altered")
		}
	}
	if !c04MatchesOne(li, got, refs) {
		if accepted == 0 {
			devs = append(devs, "rejected-but-changed")
		} else {
			devs = append(devs, "state-differs-from-fold-of-the-accepted-writes")
		}
	}
	seen := map[string]bool{}
	for _, d := range devs {
		if seen[d] {
			continue
		}
		seen[d] = true
		c.Violate("blind/"+d, "%s: %d writes delivered back to back without reading the store (error result: data unchanged, success: all changes applied)\n initial:  %s\n history:\n   %s\n expected: %s\n read:     %s",
			li.Fn, judged, renderItems(initial), strings.Join(hist, "\n   "), c04RenderCands(li, refs), renderItems(got))
	}
	if len(devs) > 0 {
		c.Witness(map[string]any{"function": li.Fn, "blind_history": hist, "initial": renderItems(initial), "expected": c04RenderCands(li, refs), "read": renderItems(got)})
	}
	c.Count("blind_histories", 1)
	if len(refs) > 1 {
		c.Count("blind_histories_with_several_allowed_states", 1)
	}
	return judged, accepted, rejected, hist
}

func c04Case(c *rig.Ctx) {
	nf, ns := len(c04Fns), len(c04Shapes)
	fn := c04Fns[c.Index%nf]
	focal := c04Shapes[(c.Index/nf)%ns]
	li := rig.ListByFn(fn)
	if li == nil {
		c.Violate("harness-list", "list function %s not discovered", fn)
		return
	}
	// the changeability flag of each type is named by the statement, not read from the library's struct tags
	// (a flag that lost its tag would otherwise turn the type into a flag-less control)
	if name, ok := c04FlagField[fn]; ok {
		cp := *li
		cp.WriteCheck = -1
		for i := 0; i < cp.ElemT.NumField(); i++ {
			if cp.ElemT.Field(i).Name == name {
				cp.WriteCheck = i
			}
		}
		if cp.WriteCheck < 0 {
			c.Violate("harness-list", "%s: element type %s has no field %s", fn, cp.ElemT.Name(), name)
			return
		}
		li = &cp
	}
	r := c.Rand
	T := featureTypeOf(fn)
	A, err := newListWorld(c.Tag()+"a", li, T, true)
	if err != nil {
		c.Violate("harness-world", "%v", err)
		return
	}
	defer A.close()
	B, err := newListWorld(c.Tag()+"b", li, T, true)
	if err != nil {
		c.Violate("harness-world", "%v", err)
		return
	}
	defer B.close()
	A.li, B.li = li, li

	histories := c.Pick(40, 80)
	judged, accepted, rejected, pairs, blindJudged := 0, 0, 0, 0, 0
	classes := map[string]bool{}
	var sample []string
	for h := 0; h < histories; h++ {
		// the list: 1-4 elements in any order, identifiers a subset of the domain, flags true/false/absent;
		// one list in six holds an element without identifier as well
		n := 1 + r.Intn(4)
		ids := append([]int(nil), r.Perm(c04Dom - 1)[:n]...)
		if r.Intn(3) > 0 {
			sort.Ints(ids)
		}
		allTrue := r.Intn(4) == 0
		var cur []reflect.Value
		flagOf := func() int {
			if allTrue {
				return 1
			}
			return []int{1, 1, 2, 0}[r.Intn(4)]
		}
		for _, id := range ids {
			it := li.NewItem(r, id)
			c04SetFlag(li, it, flagOf())
			cur = append(cur, it)
		}
		if r.Intn(6) == 0 {
			it := li.NewItem(r, -1)
			c04SetFlag(li, it, flagOf())
			at := r.Intn(len(cur) + 1)
			cur = append(cur[:at:at], append([]reflect.Value{it}, cur[at:]...)...)
			c.Count("lists-with-identifier-less-element", 1)
		}
		if n == 1 {
			c.Count("lists-of-one-identified-element", 1)
		}
		if !orderedByNumericId(li, cur) {
			c.Count("lists-stored-unsorted", 1)
		}
		if r.Intn(3) == 0 {
			j, a, rj, hist := c04Blind(c, A, focal, cur)
			judged, accepted, rejected, blindJudged = judged+j, accepted+a, rejected+rj, blindJudged+j
			if j > 1 {
				classes[fmt.Sprintf("blind:%d:%d", a, rj)] = true
			}
			if len(sample) == 0 && len(hist) > 1 {
				sample = append([]string{"(blind history)"}, hist...)
			}
			continue
		}
		writes := 1 + r.Intn(3)
		var hist []string
		for k := 0; k < writes && len(cur) > 0; k++ {
			shape := focal
			if r.Intn(5) >= 3 {
				shape = c04Shapes[r.Intn(ns-1)] // two-cmds (the last shape) only where it is the focal shape
			}
			// a list on which earlier writes of the history left several elements with the same identifiers
			dups := len(c04DupKeys(li, cur)) > 0
			if dups && k == writes-1 && writes < 5 {
				writes++ // the history goes on for one more write
			}
			curIds, _ := c04Ids(li, cur)
			w, ok := c04GenWrite(c, li, shape, cur)
			if !ok {
				continue
			}
			shape = w.shape
			ack := r.Intn(6) != 0
			v := c04Send(c, A, &w, cur, ack)
			if !v.answered && len(v.devs) == 0 {
				c.Inconclusive("%s %s: write with ack request got neither success nor error result (%s)", fn, shape, v.resp)
				continue
			}
			judged++
			verdict := "rejected"
			if v.accepted {
				verdict = "accepted"
				accepted++
			} else {
				rejected++
			}
			c.Count("writes:"+shape+":"+verdict, 1)
			if dups {
				dupAddr := "unaddressed"
				if c04AddressesDup(li, &w, cur) {
					dupAddr = "addressed"
				}
				c.Count("writes-on-lists-with-duplicate-identifiers("+dupAddr+"):"+w.u.Kind+":"+verdict, 1)
				classes["dup-identifiers:"+dupAddr+":"+verdict] = true
			}
			if w.selIds >= 0 {
				how := "of-the-selected-element"
				if _, byId := c04Ids(li, cur); w.selIds != w.u.SelKey {
					how = "of-no-element"
					if o, in := byId[w.selIds]; in {
						how = "of-another-element(changeable)"
						if !c04Changeable(li, o) {
							how = "of-another-element(protected)"
						}
					}
				}
				c.Count("selector-write-carrying-identifiers-"+how+":"+verdict, 1)
			}
			if w.flagOnly {
				c.Count("flag-only-writes:"+shape+":"+verdict, 1)
			}
			if v.notJudged != "" {
				c.Count("not-judged:"+v.notJudged+":"+shape, 1)
			}
			c04CountElements(c, li, &w, cur, "", verdict)
			// what the statement lets one expect where it speaks: all addressed elements exist and are changeable
			expectAccept := true
			exist := map[int]bool{}
			for _, id := range curIds {
				exist[id] = true
			}
			for _, it := range cur {
				if w.addresses(li, it) && !c04Changeable(li, it) {
					expectAccept = false
				}
			}
			if w.u2 == nil && (w.u.Kind == "partial" || w.u.Kind == "del+partial") {
				for _, it := range w.u.Items {
					for id := 0; id < c04Dom; id++ {
						if li.Matches(it, id) && (!exist[id] || (id == w.u.DelSel && len(w.u.DelElem) == 0)) {
							expectAccept = false // a partial write naming an element that does not exist (any more)
						}
					}
				}
			}
			if w.u2 != nil {
				expectAccept = false // not classified
			} else if expectAccept && !v.accepted {
				c.Count("expected-accept-but-rejected:"+shape, 1)
			}
			if w.u2 == nil && !expectAccept && v.accepted {
				c.Count("protected-or-absent-addressed-but-accepted:"+shape, 1)
			}
			hist = append(hist, fmt.Sprintf("%s %s -> %s (%s)", shape, w.String(), verdict, v.resp))
			for _, d := range v.devs {
				c.Violate(shape+"/"+d, "%s\n history: %s", v.detail, strings.Join(hist, "\n   "))
			}
			// (d) metamorphic pair: one unaddressed element differs in its flag (or is absent)
			paired := false
			var un []int
			for i, it := range cur {
				if !w.addresses(li, it) {
					un = append(un, i)
				}
			}
			if len(un) > 0 && len(v.devs) == 0 {
				j := un[r.Intn(len(un))]
				alt := c04DeepItems(cur)
				how := ""
				if li.WriteCheck < 0 || r.Intn(4) == 0 {
					alt = append(alt[:j:j], alt[j+1:]...)
					how = "absent"
				} else if c04Changeable(li, alt[j]) {
					c04SetFlag(li, alt[j], []int{2, 0}[r.Intn(2)])
					how = "made unchangeable"
				} else {
					c04SetFlag(li, alt[j], 1)
					how = "made changeable"
				}
				vb := c04Send(c, B, &w, alt, ack)
				if vb.answered {
					paired = true
					pairs++
					c.Count("pairs:"+how, 1)
					if vb.accepted != v.accepted {
						c.Violate(shape+"/unaddressed-influences-acceptance", "the same write is %s in one World and %s in a World that differs only in an unaddressed element (%s)\n list A: %s\n list B: %s\n write:  %s\n answers: A %s, B %s",
							verdict, map[bool]string{true: "accepted", false: "rejected"}[vb.accepted], how, renderItems(cur), renderItems(alt), w.String(), v.resp, vb.resp)
					}
					for _, d := range vb.devs {
						c.Violate(shape+"/"+d, "%s", vb.detail)
					}
				}
			}
			classes[fmt.Sprintf("%s:%s:%v", shape, verdict, paired)] = true
			if c.Failed() {
				c.Witness(map[string]any{"function": fn, "focal_shape": focal, "history": hist, "list_before_last_write": renderItems(cur)})
			}
			cur = c04DeepItems(li.Items(A.local.DataCopy(fn)))
			if r.Intn(2) == 0 { // the application may store its list in any order
				r.Shuffle(len(cur), func(a, b int) { cur[a], cur[b] = cur[b], cur[a] })
			}
		}
		if len(sample) == 0 && len(hist) > 1 {
			sample = hist
		}
	}
	c.Events(int64(judged + pairs))
	c.Count("writes_judged", int64(judged))
	c.Count("writes_judged_in_blind_histories", int64(blindJudged))
	c.Count("pairs_compared", int64(pairs))
	var cl []string
	for k := range classes {
		cl = append(cl, k)
		c.Seen("classes", k)
	}
	sort.Strings(cl)
	c.Shape(fmt.Sprintf("%s/%s/%s", fn, focal, strings.Join(cl, ",")))
	c.NonTrivial(judged >= 20 && accepted > 0 && (rejected > 0 || li.WriteCheck < 0))
	c.Sample(map[string]any{"function": fn, "focal_shape": focal, "writes_judged": judged, "of_these_in_blind_histories": blindJudged, "accepted": accepted, "rejected": rejected, "pairs": pairs, "one_history": sample})
}
