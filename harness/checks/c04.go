package checks

import (
	"fmt"
	"reflect"
	"sort"
	"strings"

	"github.com/enbility/spine-go/model"

	"verifharness/rig"
)

// C04 — write-protected elements stay untouched; remote writes are all-or-nothing.
//
// Real write datagrams from a bound peer against lists mixing changeable, unchangeable and flag-less
// elements. Everything demanded comes from the statement:
//
//	(a) an element whose flag is not true is neither modified nor deleted          <shape>/unwritable-modified|unwritable-deleted
//	(b) no element's flag differs afterwards                                        <shape>/flag-altered
//	(c) elements the write does not address do not change                           <shape>/unaddressed-changed
//	(d) ... and do not influence acceptance: the same write against a second World
//	    that differs only in one unaddressed element (its flag, or its presence)
//	    gets the same verdict                                                       <shape>/unaddressed-influences-acceptance
//	(e) error result  => data exactly as before                                     <shape>/rejected-but-changed
//	(f) success       => data = fold of the write (C02's reference fold) with the
//	    flags carried over                                                          <shape>/acked-but-differs
//
// Whether a write that addresses only changeable elements must be accepted is not said by the
// statement (that is C03's subject); such rejections are counted, not judged.
//
// Open defects (known findings): a filter-less full write replaces the list whatever the flags say
// (D3: full/unwritable-modified, full/unwritable-deleted, full/flag-altered) and writes that mention the
// flag through a selector, an identifier-less item or a delete-elements filter alter it (D6:
// <shape with flag>/flag-altered). Inside these classes (e), (f, flags aside), (c) and (d) stay asserted.

var c04Fns = []model.FunctionType{
	model.FunctionTypeLoadControlLimitListData,
	model.FunctionTypeSetpointListData,
	model.FunctionTypeDeviceConfigurationKeyValueListData,
	model.FunctionTypeHvacOverrunListData,                              // control: no flag, one key
	model.FunctionTypeElectricalConnectionParameterDescriptionListData, // control: no flag, two keys
}

var c04FlagField = map[model.FunctionType]string{
	model.FunctionTypeLoadControlLimitListData:            "IsLimitChangeable",
	model.FunctionTypeSetpointListData:                    "IsSetpointChangeable",
	model.FunctionTypeDeviceConfigurationKeyValueListData: "IsValueChangeable",
}

var c04Shapes = []string{"full", "partial-ids", "partial-ids+unknown", "partial-ids+flag", "noid", "noid+flag", "selector", "selector+flag",
	"delete-selector", "delete-elements", "delete-elements(flag)", "delete-selector-elements", "delete-selector-elements(flag)", "delete-selector+partial-ids", "delete-elements+partial-ids", "delete-selector+selector"}

const c04Dom = 6

func init() {
	rig.Register(&rig.Check{
		ID:    "C04",
		Floor: 200,
		Rule: "case = (list function of {loadControlLimitListData, setpointListData, deviceConfigurationKeyValueListData, two flag-less controls}, focal write shape of 16, block): histories of 1-3 real write datagrams " +
			"from a bound peer against a list of 2-4 elements with flags true/false/absent (60% of the writes have the focal shape, the others a random one), every write judged against the state before it; " +
			"whenever the write leaves an element unaddressed the same write is also sent to a second World that differs only in that element's flag (or presence) and the verdicts are compared. " +
			"A case is non-trivial if at least 20 writes were judged, at least one was accepted and (for flagged types) at least one rejected; distinct = distinct (function, focal shape, set of (shape, verdict, pair compared)).",
		Assumptions: []string{
			"write handling is synchronous when no approval callback is registered: the result datagram is on the tap when HandleSpineMesssage returns",
			"accepted = success result (ack requested) or silence (no ack requested); rejected = error result",
			"the addressed set: identifiers of a partial write, the selector match, every element for identifier-less, delete-elements and filter-less writes",
			"that a write addressing only changeable elements is accepted is not demanded (C03); it is counted as expected-accept-but-rejected",
			"the items of a datagram are taken as the receiver decodes them (JSON fidelity is C18's subject)",
		},
		Parts: []rig.Part{{
			Name: "writes",
			Cases: func(t rig.Tier) int {
				if t == rig.Thorough {
					return len(c04Fns) * len(c04Shapes) * 40
				}
				return len(c04Fns) * len(c04Shapes) * 25
			},
			Run:   c04Case,
			Procs: 2,
		}},
	})
}

type c04Write struct {
	shape     string
	u         rig.Update
	addressed map[int]bool // identifiers (of the domain) the write addresses; may name absent elements
	all       bool         // addresses every element
	flagShape bool         // the write mentions the flag
}

func c04Changeable(li *rig.ListInfo, it reflect.Value) bool {
	if li.WriteCheck < 0 {
		return true
	}
	f := it.Field(li.WriteCheck)
	return !f.IsNil() && f.Elem().Bool()
}

func c04SetFlag(li *rig.ListInfo, it reflect.Value, v int) { // 0 absent, 1 true, 2 false
	if li.WriteCheck < 0 {
		return
	}
	f := it.Field(li.WriteCheck)
	if v == 0 {
		f.Set(reflect.Zero(f.Type()))
		return
	}
	b := reflect.New(f.Type().Elem())
	b.Elem().SetBool(v == 1)
	f.Set(b)
}

// withoutFlag renders an item with the flag field blanked.
func c04NoFlag(li *rig.ListInfo, items []reflect.Value) []reflect.Value {
	out := rig.CloneItems(items)
	for _, it := range out {
		c04SetFlag(li, it, 0)
	}
	return out
}

func c04ByKey(li *rig.ListInfo, items []reflect.Value) map[string]reflect.Value {
	m := map[string]reflect.Value{}
	for _, it := range items {
		if k, ok := li.KeyOf(it); ok {
			m[k] = it
		}
	}
	return m
}

// payloadFields: non-key, non-flag pointer fields of the item type.
func c04PayloadFields(li *rig.ListInfo) []int {
	var fs []int
	for _, i := range li.NonKeyPtr {
		if i != li.WriteCheck {
			fs = append(fs, i)
		}
	}
	return fs
}

// c04Item generates a write item (no flag) that carries at least one payload field.
func c04Item(c *rig.Ctx, li *rig.ListInfo, id int) reflect.Value {
	pf := c04PayloadFields(li)
	var it reflect.Value
	for try := 0; try < 6; try++ {
		it = li.NewItem(c.Rand, id)
		c04SetFlag(li, it, 0)
		some := len(pf) == 0
		for _, i := range pf {
			if !it.Field(i).IsNil() {
				some = true
			}
		}
		if some {
			break
		}
	}
	return it
}

// c04GenWrite draws a write of the given shape against old (ids = identifiers of old, ascending).
func c04GenWrite(c *rig.Ctx, li *rig.ListInfo, shape string, old []reflect.Value, ids []int) (w c04Write, ok bool) {
	r := c.Rand
	w = c04Write{shape: shape, addressed: map[int]bool{}, u: rig.Update{SelKey: -1, DelSel: -1}}
	w.flagShape = strings.Contains(shape, "flag")
	if w.flagShape && li.WriteCheck < 0 {
		return w, false
	}
	byId := map[int]reflect.Value{}
	for i, id := range ids {
		byId[id] = old[i]
	}
	var absent []int
	for id := 0; id < c04Dom; id++ {
		if _, in := byId[id]; !in {
			absent = append(absent, id)
		}
	}
	inverse := func(it reflect.Value) int { // the flag value that would alter it
		if c04Changeable(li, it) {
			return 2
		}
		return 1
	}
	subset := func() []int {
		k := 1 + r.Intn(len(ids))
		s := append([]int(nil), ids...)
		r.Shuffle(len(s), func(a, b int) { s[a], s[b] = s[b], s[a] })
		return s[:k]
	}
	pick := func() int { // mostly an existing identifier
		if len(absent) > 0 && r.Intn(8) == 0 {
			return absent[r.Intn(len(absent))]
		}
		return ids[r.Intn(len(ids))]
	}
	pf := c04PayloadFields(li)
	switch shape {
	case "full":
		w.u.Kind, w.all = "full", true
		sel := subset()
		if len(absent) > 0 && r.Intn(4) == 0 {
			sel = append(sel, absent[r.Intn(len(absent))])
		}
		sort.Ints(sel)
		for _, id := range sel {
			w.u.Items = append(w.u.Items, c04Item(c, li, id))
		}
	case "partial-ids", "partial-ids+unknown", "partial-ids+flag":
		w.u.Kind = "partial"
		for _, id := range subset() {
			it := c04Item(c, li, id)
			if w.flagShape {
				c04SetFlag(li, it, inverse(byId[id]))
			}
			w.u.Items = append(w.u.Items, it)
			w.addressed[id] = true
		}
		if shape == "partial-ids+unknown" {
			if len(absent) == 0 {
				return w, false
			}
			id := absent[r.Intn(len(absent))]
			w.u.Items = append(w.u.Items, c04Item(c, li, id))
			w.addressed[id] = true
		}
	case "noid", "noid+flag":
		w.u.Kind, w.all = "partial-noid", true
		it := c04Item(c, li, -1)
		if w.flagShape {
			c04SetFlag(li, it, inverse(old[r.Intn(len(old))]))
		}
		w.u.Items = []reflect.Value{it}
	case "selector", "selector+flag":
		if !li.SelCoversKeys {
			return w, false
		}
		w.u.Kind = "partial-sel"
		w.u.SelKey = pick()
		it := c04Item(c, li, -1)
		if w.flagShape {
			if t, in := byId[w.u.SelKey]; in {
				c04SetFlag(li, it, inverse(t))
			} else {
				c04SetFlag(li, it, 1+r.Intn(2))
			}
		}
		w.u.Items = []reflect.Value{it}
		w.addressed[w.u.SelKey] = true
	case "delete-selector":
		if !li.SelCoversKeys {
			return w, false
		}
		w.u.Kind, w.u.DelSel = "delete-sel", pick()
		w.addressed[w.u.DelSel] = true
	case "delete-elements", "delete-elements(flag)":
		w.u.Kind, w.all = "delete-elem", true
		if w.flagShape {
			w.u.DelElem = []int{li.WriteCheck}
		} else if len(pf) > 0 {
			w.u.DelElem = []int{pf[r.Intn(len(pf))]}
		} else {
			return w, false
		}
	case "delete-selector-elements", "delete-selector-elements(flag)":
		if !li.SelCoversKeys {
			return w, false
		}
		w.u.Kind, w.u.DelSel = "delete-sel-elem", pick()
		if w.flagShape {
			w.u.DelElem = []int{li.WriteCheck}
		} else if len(pf) > 0 {
			w.u.DelElem = []int{pf[r.Intn(len(pf))]}
		} else {
			return w, false
		}
		w.addressed[w.u.DelSel] = true
	case "delete-selector+partial-ids":
		if !li.SelCoversKeys {
			return w, false
		}
		w.u.Kind, w.u.DelSel = "del+partial", pick()
		w.addressed[w.u.DelSel] = true
		if r.Intn(4) == 0 {
			break // delete selector next to a partial filter with an empty list
		}
		for _, id := range subset() {
			w.u.Items = append(w.u.Items, c04Item(c, li, id))
			w.addressed[id] = true
		}
	case "delete-elements+partial-ids":
		if len(pf) == 0 {
			return w, false
		}
		w.u.Kind, w.all = "del+partial", true
		w.u.DelElem = []int{pf[r.Intn(len(pf))]}
		for _, id := range subset() {
			w.u.Items = append(w.u.Items, c04Item(c, li, id))
			w.addressed[id] = true
		}
	case "delete-selector+selector":
		if !li.SelCoversKeys {
			return w, false
		}
		w.u.Kind, w.u.DelSel, w.u.SelKey = "del+sel", pick(), pick()
		w.u.Items = []reflect.Value{c04Item(c, li, -1)}
		w.addressed[w.u.DelSel], w.addressed[w.u.SelKey] = true, true
	default:
		return w, false
	}
	if _, _, fok := li.Filters(w.u); !fok {
		return w, false
	}
	return w, true
}

func (w *c04Write) addresses(li *rig.ListInfo, it reflect.Value) bool {
	if w.all {
		return true
	}
	for id := range w.addressed {
		if li.Matches(it, id) {
			return true
		}
	}
	return false
}

type c04Verdict struct {
	accepted, answered bool
	resp               string
	devs               []string // deviation classes
	detail             string
}

// c04Send sets world lw to list old, sends the write and judges it against the statement.
func c04Send(c *rig.Ctx, lw *listWorld, w *c04Write, old []reflect.Value, ack bool) c04Verdict {
	li := lw.li
	lw.local.SetData(li.Fn, li.MkList(rig.CloneItems(old)))
	pre := rig.CloneItems(li.Items(lw.local.DataCopy(li.Fn)))
	var v c04Verdict
	if rig.Multiset(pre) != rig.Multiset(old) {
		v.devs = append(v.devs, "harness-setup")
		v.detail = "SetData did not store the list: " + renderItems(pre)
		return v
	}
	b, ur, mc, err := lw.wire(w.u, model.CmdClassifierTypeWrite, lw.peerCli, lw.local.Address(), ack)
	if err != nil {
		v.devs = append(v.devs, "harness-wire")
		v.detail = err.Error()
		return v
	}
	lw.p.Tap.Take()
	if rec := lw.p.Raw(b); rec != "" {
		v.devs = append(v.devs, "panic")
		v.detail = rec
		return v
	}
	res := rig.Classify(lw.p.Tap.Take(), mc)
	v.resp = res.String()
	got := rig.CloneItems(li.Items(lw.local.DataCopy(li.Fn)))
	rejected := res.Errors > 0
	v.accepted = !rejected && (res.Success > 0 || !ack)
	v.answered = rejected || v.accepted
	add := func(d string) {
		for _, x := range v.devs {
			if x == d {
				return
			}
		}
		v.devs = append(v.devs, d)
	}
	if !v.answered {
		return v
	}
	if rejected && res.Success > 0 {
		add("answered-with-error-and-success")
	}
	// (e) error => unchanged, exactly
	if rejected && rig.Multiset(got) != rig.Multiset(pre) {
		add("rejected-but-changed")
	}
	// element level: (a) protected elements, (b) flags, (c) unaddressed elements
	gotBy := c04ByKey(li, got)
	elementLevel := false
	for _, o := range pre {
		k, _ := li.KeyOf(o)
		g, present := gotBy[k]
		sameButFlag := present && rig.Canon(c04NoFlag(li, []reflect.Value{g})[0]) == rig.Canon(c04NoFlag(li, []reflect.Value{o})[0])
		if !c04Changeable(li, o) {
			switch {
			case !present:
				add("unwritable-deleted")
				elementLevel = true
			case !sameButFlag:
				add("unwritable-modified")
				elementLevel = true
			}
		}
		if present && li.WriteCheck >= 0 && rig.Canon(g.Field(li.WriteCheck)) != rig.Canon(o.Field(li.WriteCheck)) {
			add("flag-altered")
		}
		if !w.addresses(li, o) && (!present || !sameButFlag) {
			add("unaddressed-changed")
			elementLevel = true
		}
	}
	// (f) success => all changes applied: the fold, flags carried over from the old data
	if v.accepted && !rejected && !elementLevel {
		exp := li.RefApply(pre, ur)
		if rig.Multiset(c04NoFlag(li, got)) != rig.Multiset(c04NoFlag(li, exp)) {
			if w.shape == "partial-ids+unknown" {
				add("unknown-id-acked-not-applied")
			} else {
				add("acked-but-differs")
			}
			v.detail = "fold (flags aside): " + renderItems(c04NoFlag(li, exp))
		}
	}
	if len(v.devs) > 0 {
		v.detail = fmt.Sprintf("%s on %s, shape %s\n before: %s\n write:  %s\n answer: %s (ack requested: %v)\n after:  %s\n %s", "remote write", li.Fn, w.shape, renderItems(pre), ur, v.resp, ack, renderItems(got), v.detail)
	}
	return v
}

func c04Case(c *rig.Ctx) {
	nf, ns := len(c04Fns), len(c04Shapes)
	fn := c04Fns[c.Index%nf]
	focal := c04Shapes[(c.Index/nf)%ns]
	li := rig.ListByFn(fn)
	if li == nil {
		c.Violate("harness-list", "list function %s not discovered", fn)
		return
	}
	// the changeability flag of each type is named by the statement, not read from the library's struct tags
	// (a flag that lost its tag would otherwise turn the type into a flag-less control)
	if name, ok := c04FlagField[fn]; ok {
		cp := *li
		cp.WriteCheck = -1
		for i := 0; i < cp.ElemT.NumField(); i++ {
			if cp.ElemT.Field(i).Name == name {
				cp.WriteCheck = i
			}
		}
		if cp.WriteCheck < 0 {
			c.Violate("harness-list", "%s: element type %s has no field %s", fn, cp.ElemT.Name(), name)
			return
		}
		li = &cp
	}
	r := c.Rand
	T := featureTypeOf(fn)
	A, err := newListWorld(c.Tag()+"a", li, T, true)
	if err != nil {
		c.Violate("harness-world", "%v", err)
		return
	}
	defer A.close()
	B, err := newListWorld(c.Tag()+"b", li, T, true)
	if err != nil {
		c.Violate("harness-world", "%v", err)
		return
	}
	defer B.close()

	histories := c.Pick(40, 80)
	judged, accepted, rejected, pairs := 0, 0, 0, 0
	classes := map[string]bool{}
	var sample []string
	for h := 0; h < histories; h++ {
		// the list: 2-4 elements, identifiers a sorted subset of the domain, flags true/false/absent
		n := 2 + r.Intn(3)
		ids := append([]int(nil), r.Perm(c04Dom - 1)[:n]...)
		sort.Ints(ids)
		allTrue := r.Intn(4) == 0
		var cur []reflect.Value
		for _, id := range ids {
			it := li.NewItem(r, id)
			fl := []int{1, 1, 2, 0}[r.Intn(4)]
			if allTrue {
				fl = 1
			}
			c04SetFlag(li, it, fl)
			cur = append(cur, it)
		}
		writes := 1 + r.Intn(3)
		var hist []string
		for k := 0; k < writes && len(cur) > 0; k++ {
			shape := focal
			if r.Intn(5) >= 3 {
				shape = c04Shapes[r.Intn(ns)]
			}
			// identifiers of the current list (a history may have deleted some)
			var curIds []int
			for _, it := range cur {
				for id := 0; id < c04Dom; id++ {
					if li.Matches(it, id) {
						curIds = append(curIds, id)
					}
				}
			}
			if len(curIds) != len(cur) {
				break // an element outside the domain (cannot happen with well-formed writes)
			}
			w, ok := c04GenWrite(c, li, shape, cur, curIds)
			if !ok {
				continue
			}
			ack := r.Intn(6) != 0
			v := c04Send(c, A, &w, cur, ack)
			if !v.answered && len(v.devs) == 0 {
				c.Inconclusive("%s %s: write with ack request got neither success nor error result (%s)", fn, shape, v.resp)
				continue
			}
			judged++
			verdict := "rejected"
			if v.accepted {
				verdict = "accepted"
				accepted++
			} else {
				rejected++
			}
			c.Count("writes:"+shape+":"+verdict, 1)
			// what the statement lets one expect where it speaks: all addressed elements exist and are changeable
			expectAccept := true
			exist := map[int]bool{}
			for _, id := range curIds {
				exist[id] = true
			}
			for _, it := range cur {
				if w.addresses(li, it) && !c04Changeable(li, it) {
					expectAccept = false
				}
			}
			if w.u.Kind == "partial" || w.u.Kind == "del+partial" {
				for _, it := range w.u.Items {
					for id := 0; id < c04Dom; id++ {
						if li.Matches(it, id) && (!exist[id] || id == w.u.DelSel) {
							expectAccept = false // a partial write naming an element that does not exist (any more)
						}
					}
				}
			}
			if expectAccept && !v.accepted {
				c.Count("expected-accept-but-rejected:"+shape, 1)
			}
			if !expectAccept && v.accepted {
				c.Count("protected-or-absent-addressed-but-accepted:"+shape, 1)
			}
			hist = append(hist, fmt.Sprintf("%s %s -> %s (%s)", shape, w.u, verdict, v.resp))
			for _, d := range v.devs {
				c.Violate(shape+"/"+d, "%s\n history: %s", v.detail, strings.Join(hist, "\n   "))
			}
			// (d) metamorphic pair: one unaddressed element differs in its flag (or is absent)
			paired := false
			var un []int
			for i, it := range cur {
				if !w.addresses(li, it) {
					un = append(un, i)
				}
			}
			if len(un) > 0 && len(v.devs) == 0 {
				j := un[r.Intn(len(un))]
				alt := rig.CloneItems(cur)
				how := ""
				if li.WriteCheck < 0 || r.Intn(4) == 0 {
					alt = append(alt[:j:j], alt[j+1:]...)
					how = "absent"
				} else if c04Changeable(li, alt[j]) {
					c04SetFlag(li, alt[j], []int{2, 0}[r.Intn(2)])
					how = "made unchangeable"
				} else {
					c04SetFlag(li, alt[j], 1)
					how = "made changeable"
				}
				vb := c04Send(c, B, &w, alt, ack)
				if vb.answered {
					paired = true
					pairs++
					c.Count("pairs:"+how, 1)
					if vb.accepted != v.accepted {
						c.Violate(shape+"/unaddressed-influences-acceptance", "the same write is %s in one World and %s in a World that differs only in an unaddressed element (%s)\n list A: %s\n list B: %s\n write:  %s\n answers: A %s, B %s",
							verdict, map[bool]string{true: "accepted", false: "rejected"}[vb.accepted], how, renderItems(cur), renderItems(alt), w.u, v.resp, vb.resp)
					}
					for _, d := range vb.devs {
						c.Violate(shape+"/"+d, "%s", vb.detail)
					}
				}
			}
			classes[fmt.Sprintf("%s:%s:%v", shape, verdict, paired)] = true
			if c.Failed() {
				c.Witness(map[string]any{"function": fn, "focal_shape": focal, "history": hist, "list_before_last_write": renderItems(cur)})
			}
			cur = rig.CloneItems(li.Items(A.local.DataCopy(fn)))
		}
		if len(sample) == 0 && len(hist) > 1 {
			sample = hist
		}
	}
	c.Events(int64(judged + pairs))
	c.Count("writes_judged", int64(judged))
	c.Count("pairs_compared", int64(pairs))
	var cl []string
	for k := range classes {
		cl = append(cl, k)
		c.Seen("classes", k)
	}
	sort.Strings(cl)
	c.Shape(fmt.Sprintf("%s/%s/%s", fn, focal, strings.Join(cl, ",")))
	c.NonTrivial(judged >= 20 && accepted > 0 && (rejected > 0 || li.WriteCheck < 0))
	c.Sample(map[string]any{"function": fn, "focal_shape": focal, "writes_judged": judged, "accepted": accepted, "rejected": rejected, "pairs": pairs, "one_history": sample})
}
