package checks

import (
	"fmt"
	"strings"
	"sync"
	"time"

	"github.com/enbility/spine-go/api"
	"github.com/enbility/spine-go/model"
	"github.com/enbility/spine-go/spine"
	"github.com/enbility/spine-go/util"

	"verifharness/rig"
)

// Two parts of C12 about dimensions the other parts pin to one value:
//
// part "repeat"   the relation between the payload of a write and the data the function holds when the write comes in.
//                 Everywhere else a write carries a value that is unique in the case (that is how "applied" is read off).
//                 Here a history of 2-4 writes of one bound peer is drawn, each write partial (one element) or full (the
//                 whole list, no filter), each either changing an element or carrying EXACTLY what the function holds at
//                 that moment (what the application set, or what an earlier approved write of the history left there).
//                 "Each authorised incoming write is presented once to every callback ... a single denial, or the timeout,
//                 yields an error result" holds for a write that changes nothing like for any other. Judged without
//                 reading the value: invocations per (callback, counter), the results on the tap per counter and the whole
//                 list compared before / after every single verdict call.
//
// part "local-removal"  the application removes a LOCAL entity (DeviceLocal.RemoveEntity) while writes of a still
//                 connected peer are pending approval on a feature of that entity and on a feature of another entity.
//                 The peer still waits: "every write gets exactly one of these outcomes".

type c12hKey struct {
	f  int
	cb int
	mc model.MsgCounterType
}

type c12hWorld struct {
	c      *rig.Ctx
	pre    string
	w      *rig.World
	k      int
	ents   []*spine.EntityLocal
	feats  []*spine.FeatureLocal
	X      *rig.Peer
	base   int
	mu     sync.Mutex
	msgs   map[c12hKey]*api.Message
	inv    map[c12hKey]int
	trace  []string
	events int64
}

func (h *c12hWorld) log(format string, a ...any) {
	h.mu.Lock()
	h.trace = append(h.trace, fmt.Sprintf(format, a...))
	h.mu.Unlock()
}

func (h *c12hWorld) fail(sig, format string, a ...any) {
	h.mu.Lock()
	tr := append([]string(nil), h.trace...)
	h.mu.Unlock()
	h.c.Violate(h.pre+"/"+sig, "%s\n history (k=%d callbacks; last is the failing step):\n   %s", fmt.Sprintf(format, a...), h.k, strings.Join(tr, "\n   "))
	h.c.Witness(map[string]any{"history": tr})
}

func c12hItems() []model.LoadControlLimitDataType {
	var items []model.LoadControlLimitDataType
	for i := 1; i <= c12Elems; i++ {
		items = append(items, model.LoadControlLimitDataType{LimitId: util.Ptr(model.LoadControlLimitIdType(i)), IsLimitChangeable: util.Ptr(true),
			Value: &model.ScaledNumberType{Number: util.Ptr(model.NumberType(i))}})
	}
	return items
}

// newC12hWorld: nf local entities [1]..[nf], each with a LoadControl server feature holding c12Elems changeable limits and
// k approval callbacks; one peer, client feature [1]/1, bound to every server feature.
func newC12hWorld(c *rig.Ctx, pre string, k, nf int) *c12hWorld {
	h := &c12hWorld{c: c, pre: pre, w: rig.NewWorld(c.Tag()), k: k, msgs: map[c12hKey]*api.Message{}, inv: map[c12hKey]int{}}
	for f := 0; f < nf; f++ {
		e := h.w.AddEntity(model.EntityTypeTypeCEM, []uint{uint(f + 1)}, 4*time.Second)
		fl := e.GetOrAddFeature(model.FeatureTypeTypeLoadControl, model.RoleTypeServer).(*spine.FeatureLocal)
		fl.AddFunctionType(c12Fn, true, true)
		fl.SetData(c12Fn, &model.LoadControlLimitListDataType{LoadControlLimitData: c12hItems()})
		for cb := 0; cb < k; cb++ {
			f, cb := f, cb
			_ = fl.AddWriteApprovalCallback(func(m *api.Message) {
				if m == nil || m.DeviceRemote == nil || m.RequestHeader == nil || m.RequestHeader.MsgCounter == nil {
					return
				}
				kk := c12hKey{f, cb, *m.RequestHeader.MsgCounter}
				h.mu.Lock()
				h.inv[kk]++
				if h.msgs[kk] == nil {
					h.msgs[kk] = m
				}
				h.mu.Unlock()
			})
		}
		h.ents = append(h.ents, e)
		h.feats = append(h.feats, fl)
	}
	h.X = h.w.AddPeer(0)
	h.X.Ctr = 7000
	h.X.Announce([]rig.FS{rig.NMFS, {Ent: []uint{1}, Id: 1, Typ: model.FeatureTypeTypeLoadControl, Role: model.RoleTypeClient}})
	return h
}

func (h *c12hWorld) client() *model.FeatureAddressType { return rig.FA(h.X.Addr, []uint{1}, 1) }

func (h *c12hWorld) bindAll() bool {
	for f, fl := range h.feats {
		mc := h.X.Bind(h.client(), fl.Address(), model.FeatureTypeTypeLoadControl)
		if res := rig.Classify(h.X.Tap.Peek(), mc); res.Success != 1 || res.Errors != 0 {
			h.c.Inconclusive("%s: harness: the binding to server feature %d was not granted (%s)", h.pre, f, res)
			return false
		}
	}
	h.X.Tap.Take()
	h.w.Core.Take()
	h.base = c12Settle()
	return true
}

func (h *c12hWorld) msg(f, cb int, mc model.MsgCounterType) *api.Message {
	h.mu.Lock()
	defer h.mu.Unlock()
	return h.msgs[c12hKey{f, cb, mc}]
}

func (h *c12hWorld) invocations(f int, mc model.MsgCounterType) []int {
	h.mu.Lock()
	defer h.mu.Unlock()
	out := make([]int, h.k)
	for cb := 0; cb < h.k; cb++ {
		out[cb] = h.inv[c12hKey{f, cb, mc}]
	}
	return out
}

// presented waits until every callback of feature f has been invoked for mc. second result: conclusive.
func (h *c12hWorld) presented(f int, mc model.MsgCounterType) (all, conclusive bool) {
	every := func() bool {
		for _, n := range h.invocations(f, mc) {
			if n == 0 {
				return false
			}
		}
		return true
	}
	if rig.WaitFor(8*time.Second, every) {
		return true, true
	}
	if !rig.WaitQuiet(h.base, 10*time.Second) {
		return false, false
	}
	return every(), true
}

func (h *c12hWorld) snap(f int) map[int]string {
	out := map[int]string{}
	d, _ := h.feats[f].DataCopy(c12Fn).(*model.LoadControlLimitListDataType)
	if d == nil {
		return out
	}
	return c12hSnapOf(d)
}

// c12hDeep: FunctionData.DataCopy copies the list struct, not the items: the harness must not write through it.
func c12hDeep(d *model.LoadControlLimitListDataType) *model.LoadControlLimitListDataType {
	if d == nil {
		return nil
	}
	out := &model.LoadControlLimitListDataType{}
	for _, it := range d.LoadControlLimitData {
		n := model.LoadControlLimitDataType{}
		if it.LimitId != nil {
			n.LimitId = util.Ptr(*it.LimitId)
		}
		if it.IsLimitChangeable != nil {
			n.IsLimitChangeable = util.Ptr(*it.IsLimitChangeable)
		}
		if it.IsLimitActive != nil {
			n.IsLimitActive = util.Ptr(*it.IsLimitActive)
		}
		if it.Value != nil {
			n.Value = &model.ScaledNumberType{}
			if it.Value.Number != nil {
				n.Value.Number = util.Ptr(*it.Value.Number)
			}
			if it.Value.Scale != nil {
				n.Value.Scale = util.Ptr(*it.Value.Scale)
			}
		}
		out.LoadControlLimitData = append(out.LoadControlLimitData, n)
	}
	return out
}

func c12hSnapOf(d *model.LoadControlLimitListDataType) map[int]string {
	out := map[int]string{}
	for i, it := range d.LoadControlLimitData {
		id := -1 - i
		if it.LimitId != nil {
			id = int(*it.LimitId)
		}
		v, ch := "nil", "nil"
		if it.Value != nil && it.Value.Number != nil {
			v = fmt.Sprint(*it.Value.Number)
		}
		if it.IsLimitChangeable != nil {
			ch = fmt.Sprint(*it.IsLimitChangeable)
		}
		out[id] += v + "/" + ch + ";"
	}
	return out
}

func (h *c12hWorld) verdict(f, cb int, mc model.MsgCounterType, deny bool) bool {
	m := h.msg(f, cb, mc)
	if m == nil {
		h.c.Inconclusive("%s: harness: no message captured for callback %d", h.pre, cb)
		return false
	}
	et := model.ErrorType{ErrorNumber: 0}
	if deny {
		et = model.ErrorType{ErrorNumber: 7, Description: util.Ptr(model.DescriptionType("denied by the application"))}
	}
	ok, pan := rig.Guard(30*time.Second, func() { h.feats[f].ApproveOrDenyWrite(m, et) })
	if pan != "" {
		h.fail("verdict-panic", "ApproveOrDenyWrite panicked: %s", pan)
		return false
	}
	if !ok {
		h.c.Inconclusive("%s: ApproveOrDenyWrite did not return within 30s", h.pre)
		return false
	}
	if deny {
		h.log("callback %d DENIES write %d (call returned)", cb, mc)
	} else {
		h.log("callback %d approves write %d (call returned)", cb, mc)
	}
	return true
}

func (h *c12hWorld) results(mc model.MsgCounterType) (succ, errs, other int) {
	r := rig.Classify(h.X.Tap.Peek(), mc)
	return r.Success, r.Errors, r.Replies + r.OtherRef
}

// ---------------------------------------------------------------------------
// part "repeat"

func c12Repeat(c *rig.Ctx) {
	r := c.Rand
	k := 1 + r.Intn(3)
	h := newC12hWorld(c, "repeat", k, 1)
	defer h.w.Close()
	if !h.bindAll() {
		return
	}
	fl := h.feats[0]
	n := 2 + r.Intn(3)
	type step struct {
		form, rel, mode string
		ack, appSet     bool
		late            int // silent mode: what the silent callback does after the timeout: 0 nothing, 1 approves, 2 denies
	}
	var steps []step
	var names []string
	haveSame := false
	for i := 0; i < n; i++ {
		s := step{form: []string{"partial", "full"}[r.Intn(2)], rel: []string{"changes", "same-as-stored", "same-as-stored"}[r.Intn(3)],
			mode: []string{"approve", "deny", "deny", "silent"}[r.Intn(4)], ack: r.Intn(2) == 0, appSet: r.Intn(3) == 0, late: r.Intn(3)}
		if i == n-1 && !haveSame {
			s.rel = "same-as-stored"
		}
		if i == 0 && n > 2 {
			s.rel, s.mode = "changes", "approve" // the later repeats then repeat what an approved write left
		}
		haveSame = haveSame || s.rel == "same-as-stored"
		steps = append(steps, s)
		names = append(names, fmt.Sprintf("%s/%s/%s/ack=%v/app=%v", s.form, s.rel, s.mode, s.ack, s.appSet))
	}
	c.Shape(fmt.Sprintf("repeat k=%d [%s]", k, strings.Join(names, " ")))
	judged := 0
	defer func() {
		h.mu.Lock()
		tr := append([]string(nil), h.trace...)
		h.mu.Unlock()
		c.Events(h.events)
		c.NonTrivial(judged == n)
		c.Sample(map[string]any{"history": tr})
	}()
	nextVal := int64(1000 + r.Intn(1000))
	var sent []model.MsgCounterType
	final := map[model.MsgCounterType][3]int{}
	for i, s := range steps {
		sig := s.form + "-" + s.rel
		if s.appSet {
			// the application itself changes an element; the peer may then write exactly that
			cp, _ := fl.DataCopy(c12Fn).(*model.LoadControlLimitListDataType)
			cur := c12hDeep(cp)
			if cur == nil {
				c.Inconclusive("repeat: harness: no data")
				return
			}
			el := r.Intn(len(cur.LoadControlLimitData))
			nextVal++
			cur.LoadControlLimitData[el].Value = &model.ScaledNumberType{Number: util.Ptr(model.NumberType(nextVal))}
			fl.SetData(c12Fn, cur)
			h.log("the application sets element %d := %d (SetData)", el+1, nextVal)
			rig.WaitQuiet(h.base, 5*time.Second)
		}
		cp, _ := fl.DataCopy(c12Fn).(*model.LoadControlLimitListDataType)
		cur := c12hDeep(cp)
		if cur == nil || len(cur.LoadControlLimitData) == 0 {
			c.Inconclusive("repeat: harness: no data")
			return
		}
		before := c12hSnapOf(cur)
		el := r.Intn(len(cur.LoadControlLimitData))
		id := int(*cur.LoadControlLimitData[el].LimitId)
		val := int64(*cur.LoadControlLimitData[el].Value.Number)
		if s.rel == "changes" {
			nextVal++
			val = nextVal
		}
		var cmd model.CmdType
		var want map[int]string // the list if the write is applied
		if s.form == "partial" {
			cmd = c12WriteCmd(id, val)
			want = map[int]string{}
			for kk, v := range before {
				want[kk] = v
			}
			want[id] = fmt.Sprintf("%d/true;", val)
		} else {
			pay := cur // a deep copy of what the function holds: the peer writes back what it read, with at most one element changed
			pay.LoadControlLimitData[el].Value = &model.ScaledNumberType{Number: util.Ptr(model.NumberType(val))}
			cmd = model.CmdType{LoadControlLimitListData: pay}
			want = c12hSnapOf(pay)
		}
		if s.rel == "same-as-stored" && !c12SnapEq(want, before) {
			c.Inconclusive("repeat: harness: the repeated payload is not what is stored")
			return
		}
		timeout := time.Hour
		if s.mode == "silent" {
			timeout = time.Duration(30+r.Intn(21)) * time.Millisecond
		}
		fl.SetWriteApprovalTimeout(timeout)
		mc := h.X.Send(model.CmdClassifierTypeWrite, h.client(), fl.Address(), s.ack, nil, cmd)
		sent = append(sent, mc)
		h.log("step %d: the peer writes (counter %d, ack=%v, approval timeout %v) %s, %s: element %d = %d; plan: %s", i, mc, s.ack, timeout, s.form, s.rel, id, val, s.mode)
		if n := h.X.PanicCount(); n > 0 {
			h.fail(sig+"/panic", "%s", h.X.Panics[n-1])
			return
		}
		all, concl := h.presented(0, mc)
		if !concl {
			c.Inconclusive("repeat: callbacks not seen and process not quiet")
			return
		}
		h.events++
		if !all {
			su, er, _ := h.results(mc)
			h.fail(sig+"/not-presented-to-every-callback", "the process is quiescent and the write %d was presented to the callbacks %v times (each must see it once); results so far: success=%d error=%d", mc, h.invocations(0, mc), su, er)
			return
		}
		ackN := 0
		if s.ack {
			ackN = 1
		}
		type obs struct {
			su, er, ot int
			snap       map[int]string
		}
		take := func() obs {
			su, er, ot := h.results(mc)
			h.events += 2
			return obs{su, er, ot, h.snap(0)}
		}
		nothing := func(o obs) bool { return o.su == 0 && o.er == 0 && o.ot == 0 && c12SnapEq(o.snap, before) }
		rejected := func(o obs) bool { return o.su == 0 && o.er == 1 && o.ot == 0 && c12SnapEq(o.snap, before) }
		applied := func(o obs) bool { return o.su == ackN && o.er == 0 && o.ot == 0 && c12SnapEq(o.snap, want) }
		show := func(o obs) string {
			return fmt.Sprintf("success results=%d error results=%d other=%d list=%v (before the write: %v; if applied: %v)", o.su, o.er, o.ot, o.snap, before, want)
		}
		order := r.Perm(k)
		switch s.mode {
		case "approve", "deny":
			denyAt := -1
			if s.mode == "deny" {
				denyAt = r.Intn(k)
			}
			if o := take(); !nothing(o) {
				h.fail(sig+"/outcome-before-any-verdict", "no verdict has been given for write %d (timeout 1 h): %s", mc, show(o))
				return
			}
			decided := false
			for j, cb := range order {
				if !h.verdict(0, cb, mc, j == denyAt) {
					return
				}
				o := take()
				switch {
				case j == denyAt:
					decided = true
					if !rejected(o) {
						h.fail(sig+"/denial-without-exactly-one-error-result-and-unchanged-data", "write %d was denied: %s", mc, show(o))
						return
					}
				case decided:
					if !rejected(o) {
						h.fail(sig+"/changes-after-the-outcome", "an approval after the denial of write %d: %s", mc, show(o))
						return
					}
				case j < k-1:
					if !nothing(o) {
						h.fail(sig+"/outcome-before-all-approved", "%d of %d callbacks approved write %d (timeout 1 h): %s", j+1, k, mc, show(o))
						return
					}
				default:
					// all approved. A full write may be refused by the data layer (C04's business): then consistently so.
					if applied(o) {
						c.Count("repeat:"+sig+":approved-applied", 1)
					} else if s.form == "full" && rejected(o) {
						c.Count("repeat:"+sig+":approved-refused-by-data-layer", 1)
					} else {
						h.fail(sig+"/unanimous-approval-without-its-outcome", "all %d callbacks approved write %d: expected the list to hold the payload, %d success result(s), no error result: %s", k, mc, ackN, show(o))
						return
					}
				}
			}
			if s.mode == "deny" {
				c.Count("repeat:"+sig+":denied", 1)
			}
		case "silent":
			// j < k callbacks approve at once (outcome either way the same: one callback never answers in time)
			silent := order[k-1]
			if o := take(); o.su > 0 || o.ot > 0 || !c12SnapEq(o.snap, before) {
				h.fail(sig+"/outcome-before-any-verdict", "no verdict has been given for write %d: %s", mc, show(o))
				return
			}
			for _, cb := range order[:k-1] {
				if !h.verdict(0, cb, mc, false) {
					return
				}
				if o := take(); o.su > 0 || o.ot > 0 || !c12SnapEq(o.snap, before) {
					h.fail(sig+"/applied-without-unanimous-approval", "callback %d has not answered write %d: %s", silent, mc, show(o))
					return
				}
			}
			if !rig.WaitFor(20*time.Second, func() bool { su, er, ot := h.results(mc); return su+er+ot > 0 }) {
				c.Inconclusive("repeat: no result for the write with a silent callback within 20s")
				return
			}
			if o := take(); !rejected(o) {
				h.fail(sig+"/timeout-without-exactly-one-error-result-and-unchanged-data", "callback %d never answered write %d (timeout %v): %s", silent, mc, timeout, show(o))
				return
			}
			h.log("the error result of the approval timeout for write %d is on the tap", mc)
			if s.late > 0 {
				if !h.verdict(0, silent, mc, s.late == 2) {
					return
				}
			}
			rig.WaitQuiet(h.base, 10*time.Second)
			if o := take(); !rejected(o) {
				h.fail(sig+"/changes-after-the-outcome", "after the timeout of write %d (late verdict kind %d): %s", mc, s.late, show(o))
				return
			}
			c.Count("repeat:"+sig+":timed-out", 1)
		}
		su, er, ot := h.results(mc)
		final[mc] = [3]int{su, er, ot}
		judged++
	}
	if !rig.WaitQuiet(h.base, 20*time.Second) {
		c.Inconclusive("repeat: process did not become quiet")
		judged = 0
		return
	}
	for _, mc := range sent {
		su, er, ot := h.results(mc)
		h.events++
		if got := [3]int{su, er, ot}; got != final[mc] {
			h.fail("results-changed-after-the-outcome", "write %d: results (success, error, other) %v when it was judged, %v at the end", mc, final[mc], got)
			return
		}
		for cb, n := range h.invocations(0, mc) {
			if n != 1 {
				h.fail("callback-invoked-more-than-once", "write %d was presented %d times to callback %d", mc, n, cb)
				return
			}
		}
	}
}

// ---------------------------------------------------------------------------
// part "local-removal"

func c12LocalRemoval(c *rig.Ctx) {
	r := c.Rand
	k := 1 + r.Intn(3)
	h := newC12hWorld(c, "local-removal", k, 2)
	defer h.w.Close()
	if !h.bindAll() {
		return
	}
	type wr struct {
		f, elem, pre int
		val          int64
		ack          bool
		mode         string // approve | deny | silent
		mc           model.MsgCounterType
		before       map[int]string
		decidedEarly bool
	}
	removed := 0
	if r.Intn(4) == 0 {
		removed = 1
	}
	nw := 1 + r.Intn(3)
	var ws []*wr
	var names []string
	for i := 0; i < nw; i++ {
		x := &wr{f: r.Intn(2), elem: i + 1, val: int64(1000*(i+1) + r.Intn(1000)), ack: r.Intn(2) == 0, mode: []string{"approve", "deny", "silent"}[r.Intn(3)]}
		if i == 0 {
			x.f = removed // at least one write is pending on the removed entity's feature
		}
		x.pre = r.Intn(k) // approvals given before the removal (< k)
		ws = append(ws, x)
		names = append(names, fmt.Sprintf("f%d/%s/pre=%d/ack=%v", x.f, x.mode, x.pre, x.ack))
	}
	c.Shape(fmt.Sprintf("local-removal k=%d removed=entity[%d] [%s]", k, removed+1, strings.Join(names, " ")))
	judged := 0
	defer func() {
		h.mu.Lock()
		tr := append([]string(nil), h.trace...)
		h.mu.Unlock()
		c.Events(h.events)
		c.NonTrivial(judged == nw)
		c.Sample(map[string]any{"history": tr})
	}()
	value := func(f, elem int) int64 {
		d, _ := h.feats[f].DataCopy(c12Fn).(*model.LoadControlLimitListDataType)
		if d != nil {
			for _, it := range d.LoadControlLimitData {
				if it.LimitId != nil && int(*it.LimitId) == elem && it.Value != nil && it.Value.Number != nil {
					return int64(*it.Value.Number)
				}
			}
		}
		return -1
	}
	// silent writes first would let their timer run while the others are sent: send the silent ones last
	var orderW []*wr
	for _, x := range ws {
		if x.mode != "silent" {
			orderW = append(orderW, x)
		}
	}
	for _, x := range ws {
		if x.mode == "silent" {
			orderW = append(orderW, x)
		}
	}
	for _, x := range orderW {
		timeout := time.Hour
		if x.mode == "silent" {
			timeout = time.Duration(150+r.Intn(100)) * time.Millisecond
		}
		h.feats[x.f].SetWriteApprovalTimeout(timeout)
		x.mc = h.X.Send(model.CmdClassifierTypeWrite, h.client(), h.feats[x.f].Address(), x.ack, nil, c12WriteCmd(x.elem, x.val))
		h.log("the peer writes to the feature of local entity [%d] (counter %d, ack=%v, approval timeout %v): element %d := %d; plan: %d approvals before the removal, then %s", x.f+1, x.mc, x.ack, timeout, x.elem, x.val, x.pre, x.mode)
		all, concl := h.presented(x.f, x.mc)
		if !concl {
			c.Inconclusive("local-removal: callbacks not seen and process not quiet")
			return
		}
		if !all {
			h.fail("not-presented-to-every-callback", "write %d was presented to the callbacks %v times", x.mc, h.invocations(x.f, x.mc))
			return
		}
	}
	perm := map[*wr][]int{}
	for _, x := range orderW {
		perm[x] = r.Perm(k)
		for _, cb := range perm[x][:x.pre] {
			if !h.verdict(x.f, cb, x.mc, false) {
				return
			}
		}
	}
	for _, x := range ws {
		su, er, ot := h.results(x.mc)
		h.events += 2
		if su+er+ot > 0 && x.mode == "silent" {
			x.decidedEarly = true // the short timer was faster than the harness (loaded machine): the window is not forced for this write
			c.Count("local-removal:window-missed(timeout-before-the-removal)", 1)
			continue
		}
		if su+er+ot > 0 || value(x.f, x.elem) == x.val {
			h.fail("outcome-before-all-approved", "write %d has %d of %d approvals (timeout 1 h): success=%d error=%d other=%d applied=%v", x.mc, x.pre, k, su, er, ot, value(x.f, x.elem) == x.val)
			return
		}
	}
	okR, pan := rig.Guard(30*time.Second, func() { h.w.Local.RemoveEntity(h.ents[removed]) })
	if pan != "" {
		h.fail("remove-entity-panic", "%s", pan)
		return
	}
	if !okR {
		c.Inconclusive("local-removal: RemoveEntity did not return within 30s")
		return
	}
	h.log("the application removes local entity [%d] (DeviceLocal.RemoveEntity returned); the peer stays connected", removed+1)
	c.Count("local-removal:removal-with-writes-pending", 1)
	// after the removal: the remaining verdicts, write by write in a drawn order
	rest := append([]*wr(nil), ws...)
	r.Shuffle(len(rest), func(i, j int) { rest[i], rest[j] = rest[j], rest[i] })
	for _, x := range rest {
		onRemoved := x.f == removed
		where := "the feature of the entity that was NOT removed"
		if onRemoved {
			where = "the feature of the removed entity"
		}
		ackN := 0
		if x.ack {
			ackN = 1
		}
		show := func() string {
			su, er, ot := h.results(x.mc)
			return fmt.Sprintf("success results=%d error results=%d other=%d, element %d = %d (written: %d)", su, er, ot, x.elem, value(x.f, x.elem), x.val)
		}
		state := func() (su, er, ot int, applied bool) {
			su, er, ot = h.results(x.mc)
			h.events += 2
			return su, er, ot, value(x.f, x.elem) == x.val
		}
		remaining := perm[x][x.pre:]
		switch x.mode {
		case "deny":
			// the first remaining callback denies, the others approve afterwards
			for j, cb := range remaining {
				if !h.verdict(x.f, cb, x.mc, j == 0) {
					return
				}
				if su, er, ot, ap := state(); su != 0 || er != 1 || ot != 0 || ap {
					h.fail("denied-write-without-exactly-one-error-result", "write %d to %s was denied (timeout 1 h, the peer is connected): %s", x.mc, where, show())
					return
				}
			}
			c.Count(fmt.Sprintf("local-removal:denied-after-the-removal:on-removed-entity=%v", onRemoved), 1)
		case "approve":
			for j, cb := range remaining {
				if !h.verdict(x.f, cb, x.mc, false) {
					return
				}
				su, er, ot, ap := state()
				if j < len(remaining)-1 {
					if su+er+ot > 0 || ap {
						h.fail("outcome-before-all-approved", "write %d to %s has %d of %d approvals (timeout 1 h): %s", x.mc, where, x.pre+j+1, k, show())
						return
					}
					continue
				}
				isApplied := ap && su == ackN && er == 0 && ot == 0
				isRejected := !ap && su == 0 && er == 1 && ot == 0
				switch {
				case isApplied:
					c.Count(fmt.Sprintf("local-removal:approved-after-the-removal:applied:on-removed-entity=%v", onRemoved), 1)
				case isRejected && onRemoved:
					// the statement does not say that a write to a feature the application has removed must still be
					// applied; it does say that the write gets exactly one outcome
					c.Count("local-removal:approved-after-the-removal:error-result:on-removed-entity=true", 1)
				default:
					h.fail("approved-write-without-exactly-one-outcome", "all %d callbacks approved write %d to %s (timeout 1 h, the peer is connected): %s", k, x.mc, where, show())
					return
				}
			}
		case "silent":
			if !x.decidedEarly {
				gotIt := rig.WaitFor(20*time.Second, func() bool { su, er, ot := h.results(x.mc); return su+er+ot > 0 })
				if !gotIt {
					// no clock in the verdict: the stack's own state says whether an outcome can still come
					pend, _ := h.feats[x.f].VerifApprovalState()
					left := 0
					for _, y := range ws {
						if y.f == x.f {
							if su, er, ot := h.results(y.mc); su+er+ot == 0 && value(y.f, y.elem) != y.val {
								left++
							}
						}
					}
					h.events++
					if pend[h.X.Ski] < left {
						h.fail("pending-write-dropped-without-outcome", "write %d to %s (approval timeout long past, one callback silent) has no result, and the feature holds %d pending approvals for the peer while %d of its writes have no outcome: no timeout and no verdict can end it any more; %s", x.mc, where, pend[h.X.Ski], left, show())
						return
					}
					c.Inconclusive("local-removal: no timeout result within 20s although the write is still pending")
					return
				}
			}
			if su, er, ot, ap := state(); su != 0 || er != 1 || ot != 0 || ap {
				h.fail("timeout-without-exactly-one-error-result", "write %d to %s, one callback silent: %s", x.mc, where, show())
				return
			}
			c.Count(fmt.Sprintf("local-removal:timed-out-after-the-removal:on-removed-entity=%v", onRemoved), 1)
		}
		judged++
	}
	if !rig.WaitQuiet(h.base, 20*time.Second) {
		// a removed entity's heartbeat etc. may have changed the idle count: settle instead of insisting on the old baseline
		c12Settle()
	}
	for _, x := range ws {
		su, er, ot := h.results(x.mc)
		h.events++
		if su > 1 || er > 1 || ot > 0 || (su > 0 && er > 0) || (er > 0 && value(x.f, x.elem) == x.val) {
			h.fail("not-exactly-one-outcome", "write %d at the end: success=%d error=%d other=%d applied=%v", x.mc, su, er, ot, value(x.f, x.elem) == x.val)
			return
		}
		for cb, n := range h.invocations(x.f, x.mc) {
			if n != 1 {
				h.fail("callback-invoked-more-than-once", "write %d was presented %d times to callback %d", x.mc, n, cb)
				return
			}
		}
	}
}
