package checks

import (
	"fmt"
	"runtime"
	"sync"
	"sync/atomic"
	"time"

	"verifharness/rig"
)

// Helpers shared by C12 and C13: a simulated peer whose connection writer is wrapped, so that a check can
// make the SHIP writer slow (a real writer blocks on the socket) without touching rig/world.go. The
// wrapper always forwards to the peer's ordinary rig.Tap, so Take/Peek/Classify work as usual.

type xWriter interface {
	WriteShipMessageWithPayload(message []byte)
}

// xAddPeer does what rig.World.AddPeer does, with wrap(tap) as the connection's writer.
func xAddPeer(w *rig.World, i int, wrap func(tap *rig.Tap) xWriter) *rig.Peer {
	p := &rig.Peer{Ski: fmt.Sprintf("%s-ski%d", w.Tag, i), Addr: fmt.Sprintf("dev%d", i), Tap: &rig.Tap{}, W: w}
	w.Local.SetupRemoteDevice(p.Ski, wrap(p.Tap))
	p.RD = w.Local.RemoteDeviceForSki(p.Ski)
	w.Peers = append(w.Peers, p)
	return p
}

// xYieldWriter yields the processor before every n-th write (n drawn per case): a writer that is not
// instantaneous, which is all a SHIP connection promises.
type xYieldWriter struct {
	tap   *rig.Tap
	every uint64
	n     atomic.Uint64
}

func (y *xYieldWriter) WriteShipMessageWithPayload(m []byte) {
	if y.every > 0 && y.n.Add(1)%y.every == 0 {
		runtime.Gosched()
	}
	y.tap.WriteShipMessageWithPayload(m)
}

// xBlockWriter blocks the next write after Arm() until Release() (bounded by max): the stack is then
// parked inside its send path, holding whatever locks it holds while sending.
type xBlockWriter struct {
	tap     *rig.Tap
	mu      sync.Mutex
	armed   bool
	blocked chan struct{} // closed when a write is parked
	release chan struct{}
	max     time.Duration
	Expired atomic.Bool
}

func newXBlockWriter(tap *rig.Tap) *xBlockWriter {
	return &xBlockWriter{tap: tap, max: 20 * time.Second}
}

func (b *xBlockWriter) Arm() (blocked <-chan struct{}) {
	b.mu.Lock()
	defer b.mu.Unlock()
	b.armed = true
	b.blocked = make(chan struct{})
	b.release = make(chan struct{})
	return b.blocked
}

func (b *xBlockWriter) Release() {
	b.mu.Lock()
	defer b.mu.Unlock()
	b.armed = false
	if b.release != nil {
		select {
		case <-b.release:
		default:
			close(b.release)
		}
	}
}

func (b *xBlockWriter) WriteShipMessageWithPayload(m []byte) {
	b.mu.Lock()
	var rel chan struct{}
	if b.armed {
		b.armed = false
		rel = b.release
		close(b.blocked)
	}
	b.mu.Unlock()
	if rel != nil {
		select {
		case <-rel:
		case <-time.After(b.max):
			b.Expired.Store(true)
		}
	}
	b.tap.WriteShipMessageWithPayload(m)
}
