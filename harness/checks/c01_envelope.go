package checks

import (
	"math/rand"
	"reflect"

	"github.com/enbility/spine-go/model"
	"github.com/enbility/spine-go/util"

	"verifharness/rig"
)

// C01, input dimension "cmd envelope": a cmd consists of the payload element (which names the function) and the two
// OPTIONAL elements `function` and `filter`. The statement's table is indexed by classifier, function, ack and
// destination — not by the envelope — so a request keeps its prescribed response set whichever of the legal envelopes it
// arrives in. The forms below are written by hand from the wire forms the protocol's senders use (spine-go's own
// builders among them: a read with selectors/elements and a partial reply carry an EMPTY function element next to the
// partial filter, a partial notify/write carries the function's name); the check does not call those builders, so a
// change to them cannot move the inputs.
var c01Envelopes = []string{
	"bare",                                   // payload only
	"function=name",                          // the function element names the payload
	"function=name,filter=partial",           // partial notify/write without selector
	"function=empty,filter=partial",          // partial reply; read restricted to "partial"
	"function=empty,filter=partial+selector", // read/notify with a selector
	"function=name,filter=delete+selector",   // delete notify/write
	"function=empty,filter=partial+elements", // read with elements
}

// c01PickEnvelope: half of the cells stay bare; results carry no function data; NodeManagement cells and calls get the
// function element only (what a filter means for a discovery announcement or a registry call is not C01's subject).
func c01PickEnvelope(r *rand.Rand, cell c01Cell) int {
	if cell.fn.Fn == "RESULT" {
		return 0
	}
	if cell.dest == "nm" || cell.cl == model.CmdClassifierTypeCall {
		if r.Intn(4) == 0 {
			return 1
		}
		return 0
	}
	if r.Intn(2) == 0 {
		return 0
	}
	if cell.cl == model.CmdClassifierTypeRead {
		return []int{1, 2, 3, 4, 6}[r.Intn(5)]
	}
	return []int{1, 2, 3, 4, 5}[r.Intn(5)]
}

// c01ApplyEnvelope dresses cmd; it returns the envelope actually applied (a function without selector / elements type
// falls back to the selector-less form of the same function element).
func c01ApplyEnvelope(r *rand.Rand, cmd *model.CmdType, fn model.FunctionType, env int) int {
	li := rig.ListByFn(fn)
	sel := func(f *model.FilterType) bool {
		if li == nil || !li.SelCoversKeys {
			return false
		}
		reflect.ValueOf(f).Elem().Field(li.SelIdx).Set(li.Selector(r.Intn(6)))
		return true
	}
	switch env {
	case 1:
		cmd.Function = util.Ptr(fn)
	case 2:
		cmd.Function = util.Ptr(fn)
		cmd.Filter = []model.FilterType{*model.NewFilterTypePartial()}
	case 3:
		cmd.Function = util.Ptr(model.FunctionType(""))
		cmd.Filter = []model.FilterType{*model.NewFilterTypePartial()}
	case 4:
		f := model.NewFilterTypePartial()
		if !sel(f) {
			env = 3
		}
		cmd.Function = util.Ptr(model.FunctionType(""))
		cmd.Filter = []model.FilterType{*f}
	case 5:
		f := &model.FilterType{CmdControl: &model.CmdControlType{Delete: &model.ElementTagType{}}}
		if !sel(f) {
			f = model.NewFilterTypePartial()
			env = 2
		}
		cmd.Function = util.Ptr(fn)
		cmd.Filter = []model.FilterType{*f}
	case 6:
		f := model.NewFilterTypePartial()
		if li != nil && li.ElT != nil {
			reflect.ValueOf(f).Elem().Field(li.ElIdx).Set(reflect.New(li.ElT))
		} else {
			env = 3
		}
		cmd.Function = util.Ptr(model.FunctionType(""))
		cmd.Filter = []model.FilterType{*f}
	}
	return env
}

// c01EnvFiltered: the envelope carries a filter, i.e. the payload is not "the whole data" of the function
func c01EnvFiltered(env int) bool { return env >= 2 }

// c01EnvSelects: the filter restricts the request to selected items / elements (what a reply to such a read has to carry
// is then not "the whole current data", so its content is not compared)
func c01EnvSelects(env int) bool { return env == 4 || env == 5 || env == 6 }
