package checks

import (
	"bytes"
	"fmt"
	"hash/fnv"
	"runtime"
	"strconv"
	"sync"
	"time"

	"verifharness/rig"
)

// eBarrier is a cyclic rendezvous with a bounded wait, used as an observer (rig.Hooks.On) at hook
// points that sit inside a critical section on correct code (C16: Heartbeat.stop.afterCheck and
// Heartbeat.start.afterStop, C20: UseCase.afterCopy). k arrivals within maxWait release each other
// ("window forced"); a lone arrival gives up after maxWait ("expired": the window is closed, which
// is what correct code looks like). Every expiry consumes one unit of budget so that a case on
// correct code spends at most budget*maxWait waiting. Both outcomes are only counted, never judged.
type eBarrier struct {
	mu      sync.Mutex
	k       int
	maxWait time.Duration
	budget  int
	waiting int
	ch      chan struct{}
	forced  int
	expired int
}

func newEBarrier(k int, maxWait time.Duration, budget int) *eBarrier {
	return &eBarrier{k: k, maxWait: maxWait, budget: budget, ch: make(chan struct{})}
}

func (b *eBarrier) arrive(any) {
	b.mu.Lock()
	if b.budget <= 0 {
		b.mu.Unlock()
		return
	}
	b.waiting++
	if b.waiting >= b.k {
		b.forced++
		close(b.ch)
		b.ch = make(chan struct{})
		b.waiting = 0
		b.mu.Unlock()
		return
	}
	ch := b.ch
	b.mu.Unlock()
	select {
	case <-ch:
	case <-time.After(b.maxWait):
		b.mu.Lock()
		if b.ch == ch { // still the same round: nobody joined
			b.waiting--
			b.expired++
			b.budget--
		}
		b.mu.Unlock()
	}
}

func (b *eBarrier) stats() (forced, expired int) {
	b.mu.Lock()
	defer b.mu.Unlock()
	return b.forced, b.expired
}

// disable lets every later arrival pass immediately.
func (b *eBarrier) disable() { b.mu.Lock(); b.budget = 0; b.mu.Unlock() }

// eHash is a short stable hash for shapes and hook traces.
func eHash(s string) string {
	h := fnv.New64a()
	h.Write([]byte(s))
	return fmt.Sprintf("%012x", h.Sum64()&0xffffffffffff)
}

// eGuard runs one call into the stack under a watchdog. A panic is returned (never swallowed); if the
// call does not return in time the case is recorded as inconclusive and the goroutine parks for good,
// so that the parent's progress monitor takes the goroutine dump and decides between hang@<frame>
// (a goroutine blocked inside spine-go) and inconclusive (DESIGN.md 2.4).
func eGuard(c *rig.Ctx, what string, f func()) (panicked string) {
	ok, p := rig.Guard(30*time.Second, f)
	if !ok {
		c.Inconclusive("%s did not return within 30s; parking for the hang monitor", what)
		for {
			time.Sleep(time.Hour)
		}
	}
	return p
}

// eGoid returns the id of the calling goroutine (harness-side bookkeeping only: which goroutine
// entered a handler, which one called Publish).
func eGoid() int64 {
	var buf [64]byte
	b := buf[:runtime.Stack(buf[:], false)]
	b = bytes.TrimPrefix(b, []byte("goroutine "))
	if i := bytes.IndexByte(b, ' '); i > 0 {
		n, _ := strconv.ParseInt(string(b[:i]), 10, 64)
		return n
	}
	return 0
}

// eStableGoroutines returns the goroutine count once it has not changed for a few milliseconds, so
// that goroutines still winding down from the previous case do not inflate a baseline.
func eStableGoroutines() int {
	last, same := runtime.NumGoroutine(), 0
	for i := 0; i < 10000 && same < 25; i++ {
		time.Sleep(200 * time.Microsecond)
		if n := runtime.NumGoroutine(); n == last {
			same++
		} else {
			last, same = n, 0
		}
	}
	return last
}
