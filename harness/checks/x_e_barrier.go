package checks

import (
	"bytes"
	"fmt"
	"hash/fnv"
	"runtime"
	"strconv"
	"sync"
	"sync/atomic"
	"time"

	"verifharness/rig"
)

// eBarrier is a cyclic rendezvous with a bounded wait, used as an observer (rig.Hooks.On) at hook
// points that sit inside a critical section on correct code (C16: Heartbeat.stop.afterCheck and
// Heartbeat.start.afterStop, C20: UseCase.afterCopy). k arrivals within maxWait release each other
// ("window forced"); a lone arrival gives up after maxWait ("expired": the window is closed, which
// is what correct code looks like). Every expiry consumes one unit of budget so that a case on
// correct code spends at most budget*maxWait waiting. Both outcomes are only counted, never judged.
type eBarrier struct {
	mu      sync.Mutex
	k       int
	maxWait time.Duration
	budget  int
	waiting int
	ch      chan struct{}
	forced  int
	expired int
}

func newEBarrier(k int, maxWait time.Duration, budget int) *eBarrier {
	return &eBarrier{k: k, maxWait: maxWait, budget: budget, ch: make(chan struct{})}
}

func (b *eBarrier) arrive(any) {
	b.mu.Lock()
	if b.budget <= 0 {
		b.mu.Unlock()
		return
	}
	b.waiting++
	if b.waiting >= b.k {
		b.forced++
		close(b.ch)
		b.ch = make(chan struct{})
		b.waiting = 0
		b.mu.Unlock()
		return
	}
	ch := b.ch
	b.mu.Unlock()
	select {
	case <-ch:
	case <-time.After(b.maxWait):
		b.mu.Lock()
		if b.ch == ch { // still the same round: nobody joined
			b.waiting--
			b.expired++
			b.budget--
		}
		b.mu.Unlock()
	}
}

func (b *eBarrier) stats() (forced, expired int) {
	b.mu.Lock()
	defer b.mu.Unlock()
	return b.forced, b.expired
}

// disable lets every later arrival pass immediately.
func (b *eBarrier) disable() { b.mu.Lock(); b.budget = 0; b.mu.Unlock() }

// eHash is a short stable hash for shapes and hook traces.
func eHash(s string) string {
	h := fnv.New64a()
	h.Write([]byte(s))
	return fmt.Sprintf("%012x", h.Sum64()&0xffffffffffff)
}

// eGuard runs one call into the stack under a watchdog. A panic is returned (never swallowed); if the
// call does not return in time the case is recorded as inconclusive and the goroutine parks for good,
// so that the parent's progress monitor takes the goroutine dump and decides between hang@<frame>
// (a goroutine blocked inside spine-go) and inconclusive (DESIGN.md 2.4).
func eGuard(c *rig.Ctx, what string, f func()) (panicked string) {
	ok, p := rig.Guard(30*time.Second, f)
	if !ok {
		c.Inconclusive("%s did not return within 30s; parking for the hang monitor", what)
		for {
			time.Sleep(time.Hour)
		}
	}
	return p
}

// eGoid returns the id of the calling goroutine (harness-side bookkeeping only: which goroutine
// entered a handler, which one called Publish).
func eGoid() int64 {
	var buf [64]byte
	b := buf[:runtime.Stack(buf[:], false)]
	b = bytes.TrimPrefix(b, []byte("goroutine "))
	if i := bytes.IndexByte(b, ' '); i > 0 {
		n, _ := strconv.ParseInt(string(b[:i]), 10, 64)
		return n
	}
	return 0
}

// eStableGoroutines returns the goroutine count once it has not changed for a few milliseconds, so
// that goroutines still winding down from the previous case do not inflate a baseline.
func eStableGoroutines() int {
	last, same := runtime.NumGoroutine(), 0
	for i := 0; i < 10000 && same < 25; i++ {
		time.Sleep(200 * time.Microsecond)
		if n := runtime.NumGoroutine(); n == last {
			same++
		} else {
			last, same = n, 0
		}
	}
	return last
}

// eGate parks harness callbacks (C14: response callbacks that "do not return", C15: a connection writer that
// does not return) until the case opens it at a LOGICAL point of its script. The park is bounded (a harness callback
// must never park for good): an expiry is only recorded, the case reports it as inconclusive. inside() is the number
// of callers parked right now; the checks use it to tell "the process is quiet except for the parked callbacks" from
// "something is still running" when they compare the goroutine count with their baseline.
type eGate struct {
	ch      chan struct{}
	once    sync.Once
	max     time.Duration
	in      atomic.Int32
	parked  atomic.Int32 // total number of callers that parked
	expired atomic.Int32
}

func newEGate(max time.Duration) *eGate { return &eGate{ch: make(chan struct{}), max: max} }

// wait parks the caller until open() (returns at once when the gate is open already).
func (g *eGate) wait() {
	select {
	case <-g.ch:
		return
	default:
	}
	g.in.Add(1)
	g.parked.Add(1)
	select {
	case <-g.ch:
	case <-time.After(g.max):
		g.expired.Add(1)
	}
	g.in.Add(-1)
}

func (g *eGate) open()           { g.once.Do(func() { close(g.ch) }) }
func (g *eGate) inside() int     { return int(g.in.Load()) }
func (g *eGate) everParked() int { return int(g.parked.Load()) }
func (g *eGate) expiries() int   { return int(g.expired.Load()) }

// eQuietExcept waits (bounded) until the goroutine count is at most baseline + extra() on five consecutive polls:
// every goroutine the stack spawned has finished except the ones the harness itself keeps parked. false = watchdog
// expired (inconclusive, never a verdict).
func eQuietExcept(baseline int, extra func() int, max time.Duration) bool {
	deadline := time.Now().Add(max)
	stable := 0
	for time.Now().Before(deadline) {
		if runtime.NumGoroutine() <= baseline+extra() {
			stable++
			if stable >= 5 {
				return true
			}
		} else {
			stable = 0
		}
		runtime.Gosched()
		time.Sleep(200 * time.Microsecond)
	}
	return false
}

// eQuietOrStuck is eQuietExcept with a second way to reach a decidable point: "stuck". If the goroutine count stays
// above baseline+extra() for longer than a grace period, goroutine dumps are taken; the process is stuck when every
// goroutine (other than the caller) that has a spine-go or harness-callback frame on its stack waits for a lock
// (sync.Mutex / RWMutex / WaitGroup / Cond / semaphore) or is parked in an eGate, on three consecutive dumps. Nothing
// in such a process can make progress before the harness opens the gate - a logical standstill, like quiescence, not
// a timeout: goroutines that merely have not been scheduled yet show up as runnable and keep the answer open.
// Returns "quiet", "stuck" (with a rendering of the waiting goroutines) or "" when the watchdog expired.
func eQuietOrStuck(baseline int, extra func() int, max time.Duration) (state, detail string) {
	start := time.Now()
	deadline := start.Add(max)
	stable, stuck := 0, 0
	for time.Now().Before(deadline) {
		if runtime.NumGoroutine() <= baseline+extra() {
			stable++
			if stable >= 5 {
				return "quiet", ""
			}
			stuck = 0
		} else {
			stable = 0
			if time.Since(start) > 60*time.Millisecond { // grace: dumps stop the world, take them only when the count does not settle
				if ok, d := eAllLockWaiting(); ok {
					stuck++
					if stuck >= 3 {
						return "stuck", d
					}
				} else {
					stuck = 0
				}
				time.Sleep(2 * time.Millisecond)
			}
		}
		runtime.Gosched()
		time.Sleep(200 * time.Microsecond)
	}
	return "", ""
}

// eAllLockWaiting: see eQuietOrStuck. true only if at least one goroutine with a spine-go frame waits for a lock.
func eAllLockWaiting() (bool, string) {
	buf := make([]byte, 1<<20)
	buf = buf[:runtime.Stack(buf, true)]
	gs := bytes.Split(buf, []byte("\n\n"))
	lockWaiters := 0
	var lines []string
	for i, g := range gs {
		if i == 0 { // the caller
			continue
		}
		if !bytes.Contains(g, []byte("github.com/enbility/spine-go/")) && !bytes.Contains(g, []byte("verifharness/checks.")) {
			continue
		}
		hdr := g
		if j := bytes.IndexByte(g, '\n'); j >= 0 {
			hdr = g[:j]
		}
		a, b := bytes.IndexByte(hdr, '['), bytes.IndexByte(hdr, ']')
		if a < 0 || b < a {
			return false, ""
		}
		st := string(hdr[a+1 : b])
		if j := bytes.IndexByte([]byte(st), ','); j >= 0 {
			st = st[:j]
		}
		switch st {
		case "sync.Mutex.Lock", "sync.RWMutex.Lock", "sync.RWMutex.RLock", "semacquire", "sync.WaitGroup.Wait", "sync.Cond.Wait":
			if bytes.Contains(g, []byte("github.com/enbility/spine-go/")) {
				lockWaiters++
			}
			lines = append(lines, string(hdr)+" "+eInnermostRepoFrame(g))
		case "select":
			if !bytes.Contains(g, []byte("(*eGate).wait")) {
				return false, ""
			}
			lines = append(lines, string(hdr)+" parked in the harness gate")
		default:
			return false, "" // running, runnable, syscall, sleep, chan receive, IO wait ...: may still make progress
		}
	}
	if lockWaiters == 0 {
		return false, ""
	}
	return true, fmt.Sprintf("%d goroutines wait for a lock inside spine-go while the others are parked in the gate:\n  %s", lockWaiters, joinLines(lines))
}

func eInnermostRepoFrame(g []byte) string {
	for _, l := range bytes.Split(g, []byte("\n")) {
		if bytes.HasPrefix(l, []byte("github.com/enbility/spine-go/")) {
			if j := bytes.LastIndexByte(l, '('); j > 0 {
				l = l[:j]
			}
			return "in " + string(bytes.TrimPrefix(l, []byte("github.com/enbility/spine-go/")))
		}
	}
	return ""
}

func joinLines(l []string) string {
	s := ""
	for i, x := range l {
		if i > 0 {
			s += "\n  "
		}
		s += x
	}
	return s
}
