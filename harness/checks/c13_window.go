package checks

import (
	"encoding/json"
	"fmt"
	"sort"
	"sync"
	"sync/atomic"
	"time"

	"github.com/enbility/spine-go/api"
	"github.com/enbility/spine-go/model"
	"github.com/enbility/spine-go/util"

	"verifharness/rig"
)

// C13, part "inflight": the peer answers FAST. A real connection hands the written bytes to another
// party, and nothing keeps that party from answering before the stack's send call has returned; the
// answer is then processed by the connection's reader goroutine while the sending goroutine is still
// inside Sender.Request / Sender.Notify. The connection writer of this part does exactly that: from
// inside WriteShipMessageWithPayload it lets a helper goroutine deliver the peer's reply or result for
// the request just written (through HandleSpineMesssage, the real inbound path) and waits for that
// delivery to finish before it returns (bounded; expiry makes the case inconclusive). For a
// notification it looks the datagram up by its counter from there.
//
// Reference model (from the statement): a request is withheld only while an identical request
// (same destination, same command) is unanswered; a response referencing its counter re-enables
// sending - whenever that response is processed. So after an answered request the identical request
// must be written again with a fresh counter, and while it is unanswered it must not be written and
// the call returns the counter of the outstanding one. The datagram of a notification just sent can
// be retrieved by its counter.

func init() {
	ck := rig.Lookup("C13")
	if ck == nil {
		panic("c13_window.go must be initialised after c13.go")
	}
	ck.Parts = append(ck.Parts, rig.Part{Name: "inflight", Run: c13Inflight, Procs: 4,
		Cases: func(t rig.Tier) int {
			if t == rig.Thorough {
				return 400
			}
			return 40
		}})
	ck.Rule += " Part inflight: the simulated peer answers a request (reply or result through HandleSpineMesssage) or looks a notification up (DatagramForMsgCounter) from inside the connection writer, i.e. before the stack's send call has returned; " +
		"40 rounds per case over 6 request identities (3 functions x 2 destinations) with the modes answered-inside / answered-after-return / left unanswered (the device element of the answer's source address: as announced in half of the answers, omitted or never announced in the others), judged against the reference set of unanswered identities (non-trivial: at least one identity was requested again after being answered inside the write and at least one duplicate was withheld)."
	ck.Assumptions = append(ck.Assumptions, "part inflight: the writer waits for the helper goroutine that delivers the answer at most 15 s; expiry (the inbound path would have to wait for the sending call) is inconclusive, not a violation")
}

type c13EagerWriter struct {
	tap  *rig.Tap
	peer atomic.Pointer[rig.Peer]
	// mode for the next request written: 0 none, 1 reply inside, 2 result inside; for notifications: lookup inside if notifyLookup
	mode         atomic.Int32
	notifyLookup atomic.Bool
	expired      atomic.Bool
	// srcDev: the device element of the answer's addressSource (c13Form.srcDev: 0 as announced, 1 omitted, 2 never announced)
	srcDev atomic.Int32

	mu       sync.Mutex
	answered map[uint64]string // counter -> how it was answered inside the write
	lookups  []c13InsideLookup
}

type c13InsideLookup struct {
	Counter uint64
	Found   bool
	Same    bool
}

func (e *c13EagerWriter) WriteShipMessageWithPayload(m []byte) {
	e.tap.WriteShipMessageWithPayload(m)
	var d model.Datagram
	if json.Unmarshal(m, &d) != nil {
		return
	}
	h := d.Datagram.Header
	p := e.peer.Load()
	if p == nil || h.CmdClassifier == nil || h.MsgCounter == nil {
		return
	}
	done := make(chan struct{})
	switch {
	case *h.CmdClassifier == model.CmdClassifierTypeRead && h.MsgCounterReference == nil && e.mode.Load() != 0 && len(d.Datagram.Payload.Cmd) == 1:
		mode := e.mode.Swap(0)
		go func() {
			defer close(done)
			ref := *h.MsgCounter
			from := c13WithDev(h.AddressDestination, int(e.srcDev.Load()), "")
			if mode == 1 {
				p.Send(model.CmdClassifierTypeReply, from, h.AddressSource, false, &ref, d.Datagram.Payload.Cmd[0])
			} else {
				p.Send(model.CmdClassifierTypeResult, from, h.AddressSource, false, &ref,
					model.CmdType{ResultData: &model.ResultDataType{ErrorNumber: util.Ptr(model.ErrorNumberType(1)), Description: util.Ptr(model.DescriptionType("no"))}})
			}
			e.mu.Lock()
			e.answered[uint64(ref)] = map[int32]string{1: "reply", 2: "result"}[mode]
			e.mu.Unlock()
		}()
	case *h.CmdClassifier == model.CmdClassifierTypeNotify && e.notifyLookup.Load():
		go func() {
			defer close(done)
			got, err := p.RD.Sender().DatagramForMsgCounter(*h.MsgCounter)
			l := c13InsideLookup{Counter: uint64(*h.MsgCounter), Found: err == nil}
			if err == nil {
				l.Same = rig.JS(got) == rig.JS(d.Datagram)
			}
			e.mu.Lock()
			e.lookups = append(e.lookups, l)
			e.mu.Unlock()
		}()
	default:
		return
	}
	select {
	case <-done:
	case <-time.After(15 * time.Second):
		e.expired.Store(true)
	}
}

func c13Inflight(c *rig.Ctx) {
	r := c.Rand
	w := rig.NewWorld(c.Tag())
	defer w.Close()
	e := w.AddEntity(model.EntityTypeTypeCEM, []uint{1}, 4*time.Second)
	cli := e.GetOrAddFeature(model.FeatureTypeTypeMeasurement, model.RoleTypeClient)
	srv := e.GetOrAddFeature(model.FeatureTypeTypeLoadControl, model.RoleTypeServer)
	srv.AddFunctionType(model.FunctionTypeLoadControlLimitListData, true, true)
	ew := &c13EagerWriter{answered: map[uint64]string{}}
	p := xAddPeer(w, 0, func(tap *rig.Tap) xWriter { ew.tap = tap; return ew })
	p.Ctr = 500000
	feats := []rig.FS{rig.NMFS,
		{Ent: []uint{1}, Id: 1, Typ: model.FeatureTypeTypeMeasurement, Role: model.RoleTypeServer},
		{Ent: []uint{2}, Id: 1, Typ: model.FeatureTypeTypeMeasurement, Role: model.RoleTypeServer},
		{Ent: []uint{1}, Id: 2, Typ: model.FeatureTypeTypeLoadControl, Role: model.RoleTypeClient}}
	p.Announce(feats)
	p.Subscribe(rig.FA(p.Addr, []uint{1}, 2), srv.Address(), model.FeatureTypeTypeLoadControl)
	p.Tap.Take()
	ew.peer.Store(p)
	var dests []api.FeatureRemoteInterface
	for _, a := range []*model.FeatureAddressType{rig.FA(p.Addr, []uint{1}, 1), rig.FA(p.Addr, []uint{2}, 1)} {
		f := p.RD.FeatureByAddress(a)
		if f == nil {
			c.Inconclusive("announced measurement server %s not in the remote tree", a)
			return
		}
		dests = append(dests, f)
	}
	fns := []model.FunctionType{model.FunctionTypeMeasurementListData, model.FunctionTypeMeasurementDescriptionListData, model.FunctionTypeMeasurementConstraintsListData}

	type c13Out struct {
		mc  model.MsgCounterType
		di  int
		cmd model.CmdType
	}
	unanswered := map[string]c13Out{}   // identity -> the outstanding request
	answeredInside := map[string]bool{} // identity whose last request was answered inside the write
	var trace []string
	var reRequestedAfterInside, withheld, sentN, notifies int
	reads := func(ds []model.DatagramType) (out []model.DatagramType) {
		for _, d := range ds {
			if d.Header.CmdClassifier != nil && *d.Header.CmdClassifier == model.CmdClassifierTypeRead && d.Header.MsgCounterReference == nil {
				out = append(out, d)
			}
		}
		return
	}
	srcDevs := map[int]int{}
	drawSrcDev := func() int {
		// the device element of the answer's source address: as announced (half of the answers), omitted, never announced
		return []int{0, 0, 1, 2}[r.Intn(4)]
	}
	answer := func(id string, o c13Out) {
		ref := o.mc
		sd := drawSrcDev()
		srcDevs[sd]++
		p.Send(model.CmdClassifierTypeReply, c13WithDev(dests[o.di].Address(), sd, ""), cli.Address(), false, &ref, o.cmd)
		delete(unanswered, id)
	}
	rounds := 40
	for i := 0; i < rounds && !c.Failed(); i++ {
		if r.Intn(6) == 0 {
			// a notification, looked up from inside the write
			ew.notifyLookup.Store(true)
			before := len(ew.lookups)
			srv.SetData(model.FunctionTypeLoadControlLimitListData, &model.LoadControlLimitListDataType{LoadControlLimitData: []model.LoadControlLimitDataType{{LimitId: util.Ptr(model.LoadControlLimitIdType(i))}}})
			ew.notifyLookup.Store(false)
			if ew.expired.Load() {
				c.Inconclusive("round %d: the lookup from inside the notification write did not finish within 15 s", i)
				return
			}
			ew.mu.Lock()
			ls := append([]c13InsideLookup(nil), ew.lookups[before:]...)
			ew.mu.Unlock()
			p.Tap.Take()
			c.Events(int64(len(ls)))
			notifies += len(ls)
			for _, l := range ls {
				if !l.Found {
					c.Violate("inflight/notification-not-retrievable-while-being-written", "round %d: DatagramForMsgCounter(%d), asked from inside the connection write of that very notification, does not find it", i, l.Counter)
				} else if !l.Same {
					c.Violate("inflight/notification-lookup-differs", "round %d: DatagramForMsgCounter(%d) inside the write returns a datagram that differs from the one being written", i, l.Counter)
				}
			}
			continue
		}
		if len(unanswered) > 0 && r.Intn(5) == 0 {
			// the peer answers an outstanding request late
			var ids []string
			for id := range unanswered {
				ids = append(ids, id)
			}
			sort.Strings(ids)
			id := ids[r.Intn(len(ids))]
			trace = append(trace, fmt.Sprintf("late-answer %s #%d", id, unanswered[id].mc))
			answer(id, unanswered[id])
			answeredInside[id] = false
			p.Tap.Take()
			continue
		}
		di, fn := r.Intn(len(dests)), fns[r.Intn(len(fns))]
		id := fmt.Sprintf("%d|%s", di, fn)
		mode := []string{"inside-reply", "inside-result", "after", "none"}[r.Intn(4)]
		oldOut, outstanding := unanswered[id]
		old := oldOut.mc
		p.Tap.Take()
		switch mode {
		case "inside-reply":
			ew.mode.Store(1)
			ew.srcDev.Store(int32(drawSrcDev()))
		case "inside-result":
			ew.mode.Store(2)
			ew.srcDev.Store(int32(drawSrcDev()))
		}
		mc, err := cli.RequestRemoteData(fn, nil, nil, dests[di])
		ew.mode.Store(0)
		if ew.expired.Load() {
			c.Inconclusive("round %d: the answer delivered from inside the request write did not finish within 15 s", i)
			return
		}
		written := reads(p.Tap.Take())
		c.Events(1 + int64(len(written)))
		step := fmt.Sprintf("request %s mode=%s outstanding=%v -> written=%d", id, mode, outstanding, len(written))
		if err != nil || mc == nil {
			c.Violate("inflight/request-error", "round %d: %s: RequestRemoteData failed: %v\n trace: %v", i, step, err, trace)
			break
		}
		step += fmt.Sprintf(" counter=%d", *mc)
		trace = append(trace, step)
		if outstanding {
			withheld++
			if len(written) != 0 {
				c.Violate("inflight/sent-although-identical-request-unanswered", "round %d: %s (outstanding #%d)\n trace: %v", i, step, old, trace)
			} else if *mc != old {
				c.Violate("inflight/withheld-with-other-counter", "round %d: %s: returned counter %d, the outstanding identical request is #%d\n trace: %v", i, step, *mc, old, trace)
			}
			continue // nothing new was sent, so nothing is answered in this round
		}
		if answeredInside[id] {
			reRequestedAfterInside++
		}
		if len(written) != 1 {
			how := "answered after the send call returned"
			if answeredInside[id] {
				how = "answered while the send call was still in progress"
			}
			c.Violate("inflight/withheld-although-answered", "round %d: %s: no identical request is unanswered (the previous one was %s), yet %d read datagrams were written\n trace: %v", i, step, how, len(written), trace)
			break
		}
		sentN++
		if written[0].Header.MsgCounter == nil || *written[0].Header.MsgCounter != *mc {
			c.Violate("inflight/returned-counter-differs-from-written", "round %d: %s: written counter %v\n trace: %v", i, step, rig.JS(written[0].Header.MsgCounter), trace)
		}
		switch mode {
		case "inside-reply", "inside-result":
			ew.mu.Lock()
			how := ew.answered[uint64(*mc)]
			ew.mu.Unlock()
			if how == "" {
				c.Inconclusive("round %d: the writer did not answer request #%d inside the write", i, *mc)
				return
			}
			answeredInside[id] = true
			srcDevs[int(ew.srcDev.Load())]++
		case "after":
			answer(id, c13Out{*mc, di, written[0].Payload.Cmd[0]})
			answeredInside[id] = false
		default:
			unanswered[id] = c13Out{*mc, di, written[0].Payload.Cmd[0]}
			answeredInside[id] = false
		}
		p.Tap.Take()
	}
	if n := p.PanicCount(); n > 0 {
		c.Violate("inflight/panic", "%s", p.Panics[n-1])
	}
	c.Count("requests_written", int64(sentN))
	c.Count("duplicates_withheld", int64(withheld))
	c.Count("identities_requested_again_after_answer_inside_the_write", int64(reRequestedAfterInside))
	c.Count("notifications_looked_up_inside_the_write", int64(notifies))
	for sd, n := range srcDevs {
		c.Count(fmt.Sprintf("answers_by_source_device(0=announced,1=omitted,2=never-announced):%d", sd), int64(n))
	}
	c.Shape(fmt.Sprintf("inflight/re=%v/withheld=%v/notify=%v", reRequestedAfterInside > 0, withheld > 0, notifies > 0))
	c.NonTrivial(reRequestedAfterInside > 0 && withheld > 0)
	if len(trace) > 14 {
		trace = trace[:14]
	}
	c.Sample(map[string]any{"rounds": rounds, "requests_written": sentN, "duplicates_withheld": withheld, "re_requested_after_inside_answer": reRequestedAfterInside, "first_steps": trace})
	if c.Failed() {
		c.Witness(map[string]any{"steps": trace})
	}
}
